"""WAMP message generation: per-class field tables (written from the class
docstrings / constructor assertions of autobahn.wamp.message) as Hypothesis
strategies, attribute comparison with the stated normalisation, and the wire
typing facts used by C08."""
from hypothesis import strategies as st

ID_MAX = 9007199254740992  # 2**53

ids = st.one_of(st.sampled_from([0, 1, 2, ID_MAX - 1, ID_MAX]), st.integers(0, ID_MAX))
ids_nz = st.one_of(st.sampled_from([1, 2, ID_MAX - 1, ID_MAX]), st.integers(1, ID_MAX))

_strict_comp = st.text("abcdefghijklmnopqrstuvwxyz0123456789_", min_size=1, max_size=8)
_loose_comp = st.text(st.characters(blacklist_categories=("Cs", "Zs", "Zl", "Zp", "Cc"), blacklist_characters=".# \t\n\r\x0b\x0c\x1c\x1d\x1e\x1f\x85\xa0"),
                      min_size=1, max_size=6)


def uri(allow_empty=False, allow_last_empty=False):
    comp = st.one_of(_strict_comp, _strict_comp, _loose_comp)
    base = st.lists(comp, min_size=1, max_size=5)
    if allow_empty:
        base = st.lists(st.one_of(comp, st.just("")), min_size=1, max_size=5).filter(lambda c: any(c))
    s = base.map(".".join)
    if allow_last_empty:
        s = st.one_of(s, base.map(lambda c: ".".join(c) + "."))
    return s


URI = uri()
names = st.text(st.characters(blacklist_categories=("Cs",)), min_size=1, max_size=12).filter(lambda s: not s.startswith("\x00"))
text_no_nul = st.text(st.characters(blacklist_categories=("Cs",)), max_size=20).filter(lambda s: not s.startswith("\x00"))

# IEEE doubles of magnitude 0 or >= 2.3e-308 (every standard serializer carries these exactly; the bjdata encoder turns anything below
# 2.23e-308 - subnormals and the very smallest normals - into a Decimal, and NaN/inf have no JSON form, so neither is generated)
FLOATS = st.one_of(st.sampled_from([0.1, 21.7, -0.5, 1e300, -1e-300, 3.5e38, 1.1e-38, 123456.789, 2.0 ** 53 + 2.0]),
                   st.floats(min_value=2.3e-308, allow_nan=False, allow_infinity=False), st.floats(max_value=-2.3e-308, allow_nan=False, allow_infinity=False), st.just(0.0))
_leaf = st.one_of(st.none(), st.booleans(), st.integers(-ID_MAX, ID_MAX), st.sampled_from([2 ** 32, -2 ** 32, 2 ** 31 - 1, ID_MAX, -ID_MAX]),
                  text_no_nul, st.binary(max_size=24), FLOATS)
_key = st.text(st.characters(blacklist_categories=("Cs",)), min_size=1, max_size=8).filter(lambda s: not s.startswith("\x00"))
values = st.recursive(_leaf, lambda ch: st.one_of(st.lists(ch, max_size=4), st.dictionaries(_key, ch, max_size=4)), max_leaves=12)

RESERVED_KW = {"callee", "callee_authid", "callee_authrole", "forward_for", "enc_algo", "enc_key", "enc_serializer", "details", "traceback"}
args_s = st.lists(values, max_size=4)
kwargs_s = st.dictionaries(_key.filter(lambda k: k not in RESERVED_KW), values, max_size=4)

principal = st.fixed_dictionaries({"session": ids, "authid": names, "authrole": names})
forward_for = st.lists(principal, min_size=0, max_size=3)
enc_algo = st.sampled_from(["cryptobox", "mqtt", "xbr", "x_custom1"])
enc_ser = st.sampled_from(["json", "msgpack", "cbor", "ubjson", "flatbuffers", "x_myser"])


def opt(s):
    return st.one_of(st.none(), s)


@st.composite
def app_payload(draw, transparency=True):
    """-> dict of args/kwargs/payload/enc_* constructor arguments"""
    mode = draw(st.sampled_from(["none", "args", "kwargs", "both", "payload"] if transparency else ["none", "args", "kwargs", "both"]))
    d = {}
    if mode in ("args", "both"):
        d["args"] = draw(args_s)
    if mode in ("kwargs", "both"):
        d["kwargs"] = draw(kwargs_s)
        if mode == "kwargs" and draw(st.booleans()):
            d["args"] = []
    if mode == "payload":
        d["payload"] = draw(st.binary(min_size=1, max_size=40))
        d["enc_algo"] = draw(enc_algo)
        if draw(st.booleans()):
            d["enc_key"] = draw(names)
        if draw(st.booleans()):
            d["enc_serializer"] = draw(enc_ser)
    return d


def subset(fields):
    """draw which optional fields are present"""
    @st.composite
    def s(draw):
        out = {}
        for k, strat in fields.items():
            if draw(st.booleans()):
                out[k] = draw(strat)
        return out
    return s()


def _roles(client):
    from autobahn.wamp import role
    feats = {
        "subscriber": role.RoleSubscriberFeatures, "publisher": role.RolePublisherFeatures,
        "caller": role.RoleCallerFeatures, "callee": role.RoleCalleeFeatures,
    } if client else {"broker": role.RoleBrokerFeatures, "dealer": role.RoleDealerFeatures}
    import inspect

    @st.composite
    def s(draw):
        chosen = draw(st.lists(st.sampled_from(sorted(feats)), min_size=1, max_size=len(feats), unique=True))
        out = {}
        for r in chosen:
            params = [p for p in inspect.signature(feats[r].__init__).parameters if p not in ("self", "kwargs")]
            kw = {p: draw(st.booleans()) for p in params if draw(st.integers(0, 3)) == 0}
            out[r] = feats[r](**kw)
        return out
    return s()


def message_strategies():
    """class name -> strategy producing (cls, kwargs)"""
    from autobahn.wamp import message as m
    S = {}

    def reg(cls, required, optional=None, extra=None):
        @st.composite
        def s(draw):
            kw = {k: draw(v) for k, v in required.items()}
            if optional:
                kw.update(draw(subset(optional)))
            if extra:
                kw.update(draw(extra))
            return (cls.__name__, kw)
        S[cls.__name__] = s()

    authextra = st.dictionaries(_key, values, max_size=3)
    reg(m.Hello, {"realm": opt(uri()), "roles": _roles(True)},
        {"authmethods": st.lists(names, max_size=3), "authid": names, "authrole": names, "authextra": authextra, "resumable": st.booleans()},
        extra=st.one_of(st.just({}), st.fixed_dictionaries({"resume_session": ids, "resume_token": names}), st.fixed_dictionaries({"resume_token": names})))
    reg(m.Welcome, {"session": ids, "roles": _roles(False)},
        {"realm": names, "authid": names, "authrole": names, "authmethod": names, "authprovider": names, "authextra": authextra.filter(bool),
         "resumed": st.booleans(), "custom": st.dictionaries(st.sampled_from(["x_cb_node", "x_cb_worker", "x_a1"]), values, max_size=2)},
        extra=st.one_of(st.just({}), st.fixed_dictionaries({"resumable": st.booleans(), "resume_token": names})))
    reg(m.Abort, {"reason": URI}, {"message": names})
    reg(m.Challenge, {"method": names}, {"extra": authextra})
    reg(m.Authenticate, {"signature": names}, {"extra": authextra})
    reg(m.Goodbye, {"reason": URI}, {"message": names, "resumable": st.booleans()})
    reg(m.Error, {"request_type": st.sampled_from([32, 34, 16, 64, 66, 48, 68]), "request": ids, "error": URI},
        {"callee": ids, "callee_authid": names, "callee_authrole": names, "forward_for": forward_for}, extra=app_payload())
    sess_list = st.lists(ids, max_size=3)
    name_list = st.lists(names, max_size=3)
    reg(m.Publish, {"request": ids, "topic": URI},
        {"acknowledge": st.booleans(), "exclude_me": st.booleans(), "exclude": sess_list, "exclude_authid": name_list, "exclude_authrole": name_list,
         "eligible": sess_list, "eligible_authid": name_list, "eligible_authrole": name_list, "retain": st.booleans(), "transaction_hash": names,
         "forward_for": forward_for}, extra=app_payload())
    reg(m.Published, {"request": ids, "publication": ids})
    reg(m.Subscribe, {"request": ids}, {"get_retained": st.booleans(), "forward_for": forward_for},
        extra=st.one_of(st.fixed_dictionaries({"topic": URI}), st.fixed_dictionaries({"topic": URI, "match": st.just("exact")}),
                        st.fixed_dictionaries({"topic": uri(allow_empty=True), "match": st.sampled_from(["prefix", "wildcard"])})))
    reg(m.Subscribed, {"request": ids, "subscription": ids})
    reg(m.Unsubscribe, {"request": ids, "subscription": ids}, {"forward_for": forward_for})
    S["Unsubscribed"] = st.one_of(
        st.fixed_dictionaries({"request": ids_nz}), st.fixed_dictionaries({"request": ids_nz, "reason": URI}),
        st.fixed_dictionaries({"request": st.just(0), "subscription": ids_nz}),
        st.fixed_dictionaries({"request": st.just(0), "subscription": ids_nz, "reason": URI})).map(lambda kw: ("Unsubscribed", kw))
    reg(m.Event, {"subscription": ids, "publication": ids},
        {"publisher": ids, "publisher_authid": names, "publisher_authrole": names, "topic": URI, "retained": st.booleans(),
         "transaction_hash": names, "x_acknowledged_delivery": st.booleans(), "forward_for": forward_for}, extra=app_payload())
    reg(m.EventReceived, {"publication": ids})
    reg(m.Call, {"request": ids, "procedure": URI},
        {"timeout": st.integers(0, 2 ** 31), "receive_progress": st.booleans(), "transaction_hash": names, "caller": ids, "caller_authid": names,
         "caller_authrole": names, "forward_for": forward_for}, extra=app_payload())
    reg(m.Cancel, {"request": ids}, {"mode": st.sampled_from(["skip", "kill", "killnowait"]), "forward_for": forward_for})
    reg(m.Result, {"request": ids}, {"progress": st.booleans(), "callee": ids, "callee_authid": names, "callee_authrole": names, "forward_for": forward_for},
        extra=app_payload())
    reg(m.Register, {"request": ids},
        {"invoke": st.sampled_from(["single", "first", "last", "roundrobin", "random"]), "concurrency": st.integers(1, 1000),
         "force_reregister": st.booleans(), "forward_for": forward_for},
        extra=st.one_of(st.fixed_dictionaries({"procedure": URI}), st.fixed_dictionaries({"procedure": URI, "match": st.just("exact")}),
                        st.fixed_dictionaries({"procedure": uri(allow_last_empty=True), "match": st.just("prefix")}),
                        st.fixed_dictionaries({"procedure": uri(allow_empty=True), "match": st.just("wildcard")})))
    reg(m.Registered, {"request": ids, "registration": ids})
    reg(m.Unregister, {"request": ids, "registration": ids}, {"forward_for": forward_for})
    S["Unregistered"] = st.one_of(
        st.fixed_dictionaries({"request": ids_nz}), st.fixed_dictionaries({"request": ids_nz, "reason": URI}),
        st.fixed_dictionaries({"request": st.just(0), "registration": ids_nz}),
        st.fixed_dictionaries({"request": st.just(0), "registration": ids_nz, "reason": URI})).map(lambda kw: ("Unregistered", kw))
    reg(m.Invocation, {"request": ids, "registration": ids},
        {"timeout": st.integers(0, 2 ** 31), "receive_progress": st.booleans(), "caller": ids, "caller_authid": names, "caller_authrole": names,
         "procedure": URI, "transaction_hash": names, "forward_for": forward_for}, extra=app_payload())
    reg(m.Interrupt, {"request": ids}, {"mode": st.sampled_from(["kill", "killnowait"]), "reason": URI, "forward_for": forward_for})
    reg(m.Yield, {"request": ids}, {"progress": st.booleans(), "callee": ids, "callee_authid": names, "callee_authrole": names, "forward_for": forward_for},
        extra=app_payload())
    return S


def build(name, kw):
    from autobahn.wamp import message as m
    return getattr(m, name)(**kw)


def public_attrs(msg):
    """the message's public data attributes (the properties backing its slots)"""
    out = {}
    for cls in type(msg).__mro__:
        for slot in getattr(cls, "__slots__", ()):
            if slot.startswith("_") and slot[1:] and not slot.startswith("__"):
                name = slot[1:]
                if name in ("from_fbs", "serialized", "router_internal") or name.startswith("correlation"):
                    continue
                if isinstance(getattr(type(msg), name, None), property):
                    out[name] = getattr(msg, name)
    return out


# defaults the wire format does not transmit (absent == default)
DEFAULTS = {"match": "exact", "invoke": "single", "reason_goodbye": None}


STRICT_LISTS = ("exclude", "exclude_authid", "exclude_authrole", "eligible", "eligible_authid", "eligible_authrole")


def norm(v, field=None):
    """normalisation stated in the design: tuple==list, absent==empty for args/kwargs and
    generally absent == falsy default (None/False/""/[]/{}), role objects by their feature dict"""
    if hasattr(v, "ROLE") and hasattr(v, "__dict__"):
        return ("role", v.ROLE, tuple(sorted((k, x) for k, x in v.__dict__.items() if x is not None and not k.startswith("_"))))
    if isinstance(v, (list, tuple)):
        v = [norm(x) for x in v]
        # an explicitly empty black-/whitelist ("nobody") is not the same as an absent one
        return v if (v or field is None or field in STRICT_LISTS) else None
    if isinstance(v, dict):
        v = {k: norm(x) for k, x in v.items()}
        return v if (v or field is None) else None
    if isinstance(v, memoryview):
        v = bytes(v)
    if field is not None:
        if v is False or v == "" or v == 0 and field in ("concurrency",):
            return None
        if field in DEFAULTS and v == DEFAULTS[field]:
            return None
    return v


def deep_eq(x, y):
    """equality that also distinguishes bool/int, str/bytes, list/dict at every depth"""
    if type(x) != type(y):
        return False
    if isinstance(x, list):
        return len(x) == len(y) and all(deep_eq(a, b) for a, b in zip(x, y))
    if isinstance(x, dict):
        return set(x) == set(y) and all(deep_eq(x[k], y[k]) for k in x)
    if isinstance(x, tuple):
        return len(x) == len(y) and all(deep_eq(a, b) for a, b in zip(x, y))
    return x == y


def attrs_equal(a, b):
    """compare two messages attribute by attribute -> list of differing fields"""
    A, B = public_attrs(a), public_attrs(b)
    diffs = []
    for k in sorted(set(A) | set(B)):
        x, y = norm(A.get(k), k), norm(B.get(k), k)
        if not deep_eq(x, y):
            diffs.append((k, A.get(k), B.get(k)))
    return diffs
