"""Independent RFC 6455 reference: permissive frame encoder, strict wire parser,
message reassembly, and a receiver model (what an endpoint must deliver / how it
must fail).  Shares no code with autobahn."""
import struct
import zlib


def xor_mask(data, key, off=0):
    n = len(data)
    if n == 0:
        return b""
    ks = (key[off % 4:] + key[:off % 4]) * (n // 4 + 1)
    return (int.from_bytes(data, "big") ^ int.from_bytes(ks[:n], "big")).to_bytes(n, "big")


def encode_frame(opcode, payload=b"", fin=True, rsv=0, mask=None, len_form=None, declared_len=None,
                 header_only=False):
    """permissive encoder: any opcode/rsv, forced 126/127 length forms, wrong declared length"""
    n = len(payload) if declared_len is None else declared_len
    b0 = (0x80 if fin else 0) | ((rsv & 7) << 4) | (opcode & 0x0F)
    mb = 0x80 if mask is not None else 0
    if len_form is None:
        len_form = 7 if n <= 125 else (126 if n <= 0xFFFF else 127)
    if len_form == 7:
        hdr = bytes([b0, mb | (n & 0x7F)])
    elif len_form == 126:
        hdr = bytes([b0, mb | 126]) + struct.pack("!H", n & 0xFFFF)
    else:
        hdr = bytes([b0, mb | 127]) + struct.pack("!Q", n)
    if mask is not None:
        hdr += mask
        body = xor_mask(payload, mask)
    else:
        body = payload
    return hdr if header_only else hdr + body


class Frame:
    __slots__ = ("fin", "rsv", "opcode", "masked", "mask", "payload", "len_form", "length", "raw_len")

    def __init__(self, **kw):
        for k, v in kw.items():
            setattr(self, k, v)

    def brief(self):
        return {"fin": self.fin, "rsv": self.rsv, "op": self.opcode, "masked": self.masked, "len": self.length}


def parse_frames(data):
    """Parse as many complete frames as `data` holds.  Returns (frames, rest).  Purely
    syntactic (no validity judgement)."""
    frames = []
    i = 0
    n = len(data)
    while True:
        if n - i < 2:
            break
        b0, b1 = data[i], data[i + 1]
        masked = bool(b1 & 0x80)
        l1 = b1 & 0x7F
        j = i + 2
        if l1 == 126:
            if n - j < 2:
                break
            length = struct.unpack("!H", data[j:j + 2])[0]
            j += 2
            form = 126
        elif l1 == 127:
            if n - j < 8:
                break
            length = struct.unpack("!Q", data[j:j + 8])[0]
            j += 8
            form = 127
        else:
            length = l1
            form = 7
        mask = None
        if masked:
            if n - j < 4:
                break
            mask = bytes(data[j:j + 4])
            j += 4
        if n - j < length:
            break
        body = bytes(data[j:j + length])
        payload = xor_mask(body, mask) if masked else body
        frames.append(Frame(fin=bool(b0 & 0x80), rsv=(b0 >> 4) & 7, opcode=b0 & 0x0F, masked=masked, mask=mask,
                            payload=payload, len_form=form, length=length, raw_len=j + length - i))
        i = j + length
    return frames, bytes(data[i:])


def wire_problems(frames, sender_is_client, compression=False, expect_masked=None):
    """Strict well-formedness of a frame sequence written by one endpoint.
    Returns a list of problem strings (empty = well-formed).  Masking: the RFC rule
    (client masks, server does not) is always accepted; `expect_masked` names an
    additionally accepted state when an endpoint option asks for the deviation."""
    probs = []
    if expect_masked is None:
        expect_masked = sender_is_client
    inside = False
    closed = False
    for k, f in enumerate(frames):
        tag = "frame#%d(op=%d,len=%d)" % (k, f.opcode, f.length)
        if closed:
            probs.append(tag + ": frame after close frame")
        if f.len_form == 126 and f.length < 126:
            probs.append(tag + ": non-minimal 16-bit length")
        if f.len_form == 127 and f.length < 65536:
            probs.append(tag + ": non-minimal 64-bit length")
        if f.length > 0x7FFFFFFFFFFFFFFF:
            probs.append(tag + ": length >= 2^63")
        if f.masked != expect_masked and f.masked != sender_is_client:
            probs.append(tag + ": mask bit %s, expected %s" % (f.masked, expect_masked))
        if f.opcode >= 8:
            if f.opcode not in (8, 9, 10):
                probs.append(tag + ": reserved control opcode")
            if not f.fin:
                probs.append(tag + ": fragmented control frame")
            if f.length > 125:
                probs.append(tag + ": control frame > 125")
            if f.rsv != 0:
                probs.append(tag + ": RSV on control frame")
            if f.opcode == 8:
                closed = True
                p = f.payload
                if len(p) == 1:
                    probs.append(tag + ": close payload of 1 byte")
                if len(p) >= 2:
                    code = struct.unpack("!H", p[:2])[0]
                    if not close_code_wire_legal(code):
                        probs.append(tag + ": close code %d not legal on the wire" % code)
                    try:
                        p[2:].decode("utf-8")
                    except UnicodeDecodeError:
                        probs.append(tag + ": close reason not UTF-8")
        else:
            if f.opcode not in (0, 1, 2):
                probs.append(tag + ": reserved data opcode")
            if f.opcode == 0 and not inside:
                probs.append(tag + ": continuation outside message")
            if f.opcode != 0 and inside:
                probs.append(tag + ": new data frame inside fragmented message")
            if f.rsv not in (0, 4) or (f.rsv == 4 and (not compression or f.opcode == 0)):
                probs.append(tag + ": RSV=%d not allowed here" % f.rsv)
            inside = not f.fin
    return probs


def close_code_wire_legal(code):
    return code in (1000, 1001, 1002, 1003, 1007, 1008, 1009, 1010, 1011, 1012, 1013, 1014) or 3000 <= code <= 4999


def reassemble(frames, inflater=None):
    """-> list of events: ("msg", is_binary, payload, compressed, nframes) / ("ping", p) / ("pong", p) / ("close", p)
    inflater: callable(bytes)->bytes applied to compressed messages (RSV1 on first frame)."""
    out = []
    cur = None
    for f in frames:
        if f.opcode >= 8:
            out.append(({8: "close", 9: "ping", 10: "pong"}.get(f.opcode, "ctl%d" % f.opcode), f.payload))
            continue
        if f.opcode != 0:
            cur = {"bin": f.opcode == 2, "parts": [f.payload], "rsv1": f.rsv == 4, "n": 1}
        elif cur is not None:
            cur["parts"].append(f.payload)
            cur["n"] += 1
        else:
            continue
        if f.fin and cur is not None:
            data = b"".join(cur["parts"])
            if cur["rsv1"] and inflater is not None:
                data = inflater(data)
            out.append(("msg", cur["bin"], data, cur["rsv1"], cur["n"]))
            cur = None
    return out


class RawInflater:
    """independent permessage-deflate receiver (RFC 7692 7.2.2) with a given window"""

    def __init__(self, wbits=15, no_context_takeover=False):
        self.wbits = wbits
        self.nct = no_context_takeover
        self.d = None

    def __call__(self, data):
        if self.d is None or self.nct:
            self.d = zlib.decompressobj(-self.wbits)
        return self.d.decompress(data + b"\x00\x00\xff\xff")


# ---------------------------------------------------------------------------
# Receiver model (C02): what must an endpoint deliver for a list of frames?

def utf8_prefix_state(data):
    """RFC 3629 judgement by byte ranges (Unicode table 3-7).
    returns (ok_so_far, on_boundary, first_bad_index)  - ok_so_far False when `data`
    is not a prefix of any well-formed string; index of the offending byte."""
    i = 0
    n = len(data)
    while i < n:
        b = data[i]
        if b <= 0x7F:
            i += 1
            continue
        if 0xC2 <= b <= 0xDF:
            need = [(0x80, 0xBF)]
        elif b == 0xE0:
            need = [(0xA0, 0xBF), (0x80, 0xBF)]
        elif 0xE1 <= b <= 0xEC or 0xEE <= b <= 0xEF:
            need = [(0x80, 0xBF), (0x80, 0xBF)]
        elif b == 0xED:
            need = [(0x80, 0x9F), (0x80, 0xBF)]
        elif b == 0xF0:
            need = [(0x90, 0xBF), (0x80, 0xBF), (0x80, 0xBF)]
        elif 0xF1 <= b <= 0xF3:
            need = [(0x80, 0xBF)] * 3
        elif b == 0xF4:
            need = [(0x80, 0x8F), (0x80, 0xBF), (0x80, 0xBF)]
        else:
            return (False, False, i)
        j = i + 1
        for lo, hi in need:
            if j >= n:
                return (True, False, None)
            if not (lo <= data[j] <= hi):
                return (False, False, j)
            j += 1
        i = j
    return (True, True, None)


def utf8_profile(data):
    """one pass: (first_bad_index or None, bytearray flags where flags[L]==1 iff data[:L] ends on a code point boundary)
    flags are meaningful for L <= first_bad_index (or all L when None)."""
    n = len(data)
    flags = bytearray(n + 1)
    flags[0] = 1
    i = 0
    while i < n:
        b = data[i]
        if b <= 0x7F:
            i += 1
            flags[i] = 1
            continue
        if 0xC2 <= b <= 0xDF:
            need = ((0x80, 0xBF),)
        elif b == 0xE0:
            need = ((0xA0, 0xBF), (0x80, 0xBF))
        elif 0xE1 <= b <= 0xEC or 0xEE <= b <= 0xEF:
            need = ((0x80, 0xBF), (0x80, 0xBF))
        elif b == 0xED:
            need = ((0x80, 0x9F), (0x80, 0xBF))
        elif b == 0xF0:
            need = ((0x90, 0xBF), (0x80, 0xBF), (0x80, 0xBF))
        elif 0xF1 <= b <= 0xF3:
            need = ((0x80, 0xBF),) * 3
        elif b == 0xF4:
            need = ((0x80, 0x8F), (0x80, 0xBF), (0x80, 0xBF))
        else:
            return i, flags
        j = i + 1
        for lo, hi in need:
            if j >= n:
                return None, flags
            if not (lo <= data[j] <= hi):
                return j, flags
            j += 1
        i = j
        flags[i] = 1
    return None, flags


class Receiver:
    """Feed frames (as dicts/Frame-likes built by the generator, i.e. independent of any
    parser).  Produces expected events for the well-formed prefix and the verdict."""

    def __init__(self, is_server, compression=False, require_masked=True, accept_masked=False,
                 utf8=True, max_frame=0, max_msg=0):
        self.is_server = is_server
        self.compression = compression
        self.require_masked = require_masked
        self.accept_masked = accept_masked
        self.utf8 = utf8
        self.events = []
        self.verdict = None       # None=open | (code, why)
        self.inside = False
        self.cur = None
        self.closed_by_peer = False

    def frame(self, fin, rsv, opcode, masked, length, payload, len_form=None):
        """returns False when processing must stop (violation or close)"""
        if self.verdict or self.closed_by_peer:
            return False
        v = self._header(fin, rsv, opcode, masked, length, len_form)
        if v:
            self.verdict = (1002, v)
            return False
        if opcode >= 8:
            if opcode == 8:
                if length >= 2:
                    code = struct.unpack("!H", payload[:2])[0]
                    if not close_code_wire_legal(code) and not (code in (1012, 1013)):
                        self.verdict = (1002, "invalid close code %d" % code)
                        return False
                    ok, boundary, _ = utf8_prefix_state(payload[2:])
                    if not (ok and boundary):
                        self.verdict = (1007, "non-UTF-8 close reason")
                        return False
                    self.events.append(("close", code, payload[2:].decode("utf-8")))
                else:
                    self.events.append(("close", None, None))
                self.closed_by_peer = True
                return False
            self.events.append(("ping" if opcode == 9 else "pong", payload))
            return True
        # data frame
        if opcode != 0:
            self.cur = {"bin": opcode == 2, "data": b"", "rsv1": rsv == 4}
            self.inside = True
        self.cur["data"] += payload
        if not self.cur["bin"] and self.utf8 and not self.cur["rsv1"]:
            ok, boundary, _ = utf8_prefix_state(self.cur["data"])
            if not ok:
                self.verdict = (1007, "invalid UTF-8 in text message")
                return False
            if fin and not boundary:
                self.verdict = (1007, "text message ends inside code point")
                return False
        if fin:
            data = self.cur["data"]
            if self.cur["rsv1"] and getattr(self, "inflater", None) is not None:
                data = self.inflater(data)        # permessage-deflate (RFC 7692 7.2.2), context carried over from earlier compressed messages
            self.events.append(("msg", self.cur["bin"], data))
            self.inside = False
            self.cur = None
        return True

    def _header(self, fin, rsv, opcode, masked, length, len_form):
        if rsv != 0 and not (self.compression and rsv == 4):
            return "RSV=%d without extension" % rsv
        if self.is_server and self.require_masked and not masked:
            return "unmasked client frame"
        if (not self.is_server) and (not self.accept_masked) and masked:
            return "masked server frame"
        if opcode >= 8:
            if not fin:
                return "fragmented control frame"
            if length > 125 or len_form in (126, 127):
                return "control frame > 125"
            if opcode not in (8, 9, 10):
                return "reserved control opcode"
            if opcode == 8 and length == 1:
                return "close payload of 1 byte"
            if rsv == 4:
                return "compressed control frame"
        else:
            if opcode not in (0, 1, 2):
                return "reserved data opcode"
            if opcode == 0 and not self.inside:
                return "continuation outside message"
            if opcode != 0 and self.inside:
                return "data frame inside fragmented message"
            if rsv == 4 and opcode == 0:
                return "RSV1 on continuation"
        if len_form == 126 and length < 126:
            return "non-minimal length"
        if len_form == 127 and (length < 65536 or length > 0x7FFFFFFFFFFFFFFF):
            return "non-minimal or >2^63 length"
        return None
