"""Compile the NVX C sources of the *working tree* (src/autobahn/nvx/_xormasker.c,
_utf8validator.c) with cffi into a fresh directory, so that checks exercise the
tree's C code and not the prebuilt .so in site-packages.

usage: python -m harness.nvxbuild <repo> <outdir>"""
import importlib.util
import os
import sys


def build(repo, outdir):
    os.makedirs(outdir, exist_ok=True)
    for name in ("_xormasker", "_utf8validator"):
        path = os.path.join(repo, "src", "autobahn", "nvx", name + ".py")
        spec = importlib.util.spec_from_file_location("verif_nvx" + name, path)
        mod = importlib.util.module_from_spec(spec)
        spec.loader.exec_module(mod)
        mod.ffi.compile(tmpdir=outdir, verbose=False)


if __name__ == "__main__":
    build(sys.argv[1], sys.argv[2])
