"""Framework drivers: the harness owns the clock and the I/O.

`get_driver()` returns a TxDriver or AioDriver depending on VERIF_FW.  Both
offer:  now(), advance(dt), settle(), call(fn,*a), next_deadline(),
connect(protocol_or_factory, ...) -> Endpoint with fake transport.

The fake transports emulate the documented transport contracts:
  * write()/writeSequence() record octets with the virtual time;
  * loseConnection/abortConnection (close/abort) only *request* the drop; the
    loss is delivered by the harness through Endpoint.deliver_loss() - a
    schedulable event - exactly once;
  * an exception escaping dataReceived is recorded and turned into
    connectionLost(Failure(exc)) as twisted.internet.tcp does.
"""
import os
import random
import sys

FW = os.environ.get("VERIF_FW", "twisted")


class FakeTxTransport:
    def __init__(self, drv, peer=("127.0.0.1", 54321), host=("127.0.0.1", 9000)):
        from twisted.internet.address import IPv4Address
        self.drv = drv
        self.written = []          # (time, bytes)
        self.pending = bytearray()  # not yet taken by the pipe
        self.close_requested = None  # None | "lose" | "abort"
        self.close_time = None
        self.lost = False
        self.calls = []
        self._peer = IPv4Address("TCP", *peer)
        self._host = IPv4Address("TCP", *host)
        self.disconnecting = False
        self.connected = True
        self.producer = None

    # ITransport
    def write(self, data):
        if not isinstance(data, (bytes, bytearray, memoryview)):
            raise TypeError("transport.write needs bytes, got %r" % type(data))
        data = bytes(data)
        self.calls.append(("write", len(data)))
        if self.close_requested or self.lost:
            self.written_after_close = getattr(self, "written_after_close", 0) + len(data)
            return
        self.written.append((self.drv.now(), data))
        self.pending += data

    def writeSequence(self, seq):
        for d in seq:
            self.write(d)

    def loseConnection(self, *a):
        self.calls.append(("loseConnection",))
        if not self.close_requested:
            self.close_requested = "lose"
            self.close_time = self.drv.now()
            self.disconnecting = True
            if getattr(self, "on_close_requested", None):
                self.on_close_requested("lose")

    def abortConnection(self):
        self.calls.append(("abortConnection",))
        if self.close_requested != "abort":
            first = not self.close_requested
            if not self.close_requested:
                self.close_time = self.drv.now()
            self.close_requested = "abort"
            self.disconnecting = True
            if first and getattr(self, "on_close_requested", None):
                self.on_close_requested("abort")

    def getPeer(self):
        return self._peer

    def getHost(self):
        return self._host

    def setTcpNoDelay(self, enabled):
        pass

    def getTcpNoDelay(self):
        return True

    def setTcpKeepAlive(self, enabled):
        pass

    def registerProducer(self, producer, streaming):
        self.producer = producer

    def unregisterProducer(self):
        self.producer = None

    def pauseProducing(self):
        pass

    def resumeProducing(self):
        pass

    def stopProducing(self):
        pass

    def take(self):
        d = bytes(self.pending)
        del self.pending[:]
        return d

    def all_written(self):
        return b"".join(d for _, d in self.written)


class FakeAioTransport:
    """asyncio.Transport look-alike"""

    def __init__(self, drv, peer=("127.0.0.1", 54321), host=("127.0.0.1", 9000)):
        self.drv = drv
        self.written = []
        self.pending = bytearray()
        self.close_requested = None
        self.close_time = None
        self.lost = False
        self.calls = []
        self._extra = {"peername": peer, "sockname": host}
        self._proto = None

    def get_extra_info(self, name, default=None):
        return self._extra.get(name, default)

    def is_closing(self):
        return bool(self.close_requested) or self.lost

    def write(self, data):
        if not isinstance(data, (bytes, bytearray, memoryview)):
            raise TypeError("transport.write needs bytes, got %r" % type(data))
        data = bytes(data)
        self.calls.append(("write", len(data)))
        if self.close_requested or self.lost:
            self.written_after_close = getattr(self, "written_after_close", 0) + len(data)
            return
        self.written.append((self.drv.now(), data))
        self.pending += data

    def writelines(self, seq):
        for d in seq:
            self.write(d)

    def can_write_eof(self):
        return False

    def close(self):
        self.calls.append(("close",))
        if not self.close_requested:
            self.close_requested = "lose"
            self.close_time = self.drv.now()
            if getattr(self, "on_close_requested", None):
                self.on_close_requested("lose")

    def abort(self):
        self.calls.append(("abort",))
        if self.close_requested != "abort":
            first = not self.close_requested
            if not self.close_requested:
                self.close_time = self.drv.now()
            self.close_requested = "abort"
            if first and getattr(self, "on_close_requested", None):
                self.on_close_requested("abort")

    def set_protocol(self, p):
        self._proto = p

    def get_protocol(self):
        return self._proto

    def pause_reading(self):
        pass

    def resume_reading(self):
        pass

    def set_write_buffer_limits(self, high=None, low=None):
        pass

    def get_write_buffer_size(self):
        return 0

    def take(self):
        d = bytes(self.pending)
        del self.pending[:]
        return d

    def all_written(self):
        return b"".join(d for _, d in self.written)


from harness import core as _core


class Endpoint:
    """one protocol instance + its fake transport"""

    def __init__(self, drv, proto, transport):
        self.drv = drv
        self.proto = proto
        self.t = transport
        self.escaped = []       # exceptions that escaped dataReceived/data_received
        self.loss_delivered = False

    # --- I/O
    def feed(self, data, settle=True):
        """one read.  settle=False (asyncio): the event loop is not run afterwards, i.e. the next read arrives in the same loop turn"""
        if self.loss_delivered:
            return
        self.drv._feed(self, data, settle)

    def take(self):
        return self.t.take()

    @property
    def drop_requested(self):
        return self.t.close_requested

    def enable_auto_loss(self):
        """behave like the real frameworks: once the protocol asks for the transport to be closed / aborted, the loss is delivered by the
        event loop on its next turn (Twisted: callLater(0); asyncio: call_soon) - i.e. before any timer that is still pending"""
        def on_close(kind):
            def go():
                try:
                    self.deliver_loss("aborted" if kind == "abort" else "done")
                except _core.Violation:
                    raise
                except Exception as e:     # an exception out of connectionLost / connection_lost reaches the framework
                    self.escaped.append(e)
            self.drv.soon(go)
        self.t.on_close_requested = on_close

    def deliver_loss(self, kind="done"):
        """deliver connectionLost / connection_lost exactly once"""
        if self.loss_delivered:
            return
        self.loss_delivered = True
        self.t.lost = True
        self.drv._lose(self, kind)


class TxDriver:
    fw = "twisted"

    def __init__(self):
        import txaio
        from twisted.internet.task import Clock
        self.clock = Clock()
        txaio.config.loop = self.clock
        self.loop_errors = []

    reactor = property(lambda self: self.clock)

    def now(self):
        return self.clock.seconds()

    def next_deadline(self):
        calls = self.clock.getDelayedCalls()
        return min((c.getTime() for c in calls), default=None)

    def advance(self, dt):
        target = self.clock.seconds() + dt
        for _ in range(100000):
            nxt = self.next_deadline()
            if nxt is None or nxt > target:
                break
            self.clock.advance(max(0.0, nxt - self.clock.seconds()))
        else:
            raise RuntimeError("timer storm")
        if target > self.clock.seconds():
            self.clock.advance(target - self.clock.seconds())

    def settle(self):
        # run 0-delay calls and queued writes (_QUEUED_WRITE_DELAY=1e-5) without material time passing
        for _ in range(400000):
            nxt = self.next_deadline()
            if nxt is None or nxt > self.clock.seconds() + 1e-4:
                return
            self.clock.advance(max(0.0, nxt - self.clock.seconds()))
        raise RuntimeError("settle: timer storm")

    def call(self, fn, *a, **kw):
        return fn(*a, **kw)

    def soon(self, fn):
        self.clock.callLater(0, fn)

    def connect(self, factory, peer=("127.0.0.1", 54321), host=("127.0.0.1", 9000), proto=None):
        from twisted.internet.address import IPv4Address
        t = FakeTxTransport(self, peer, host)
        if proto is None:
            proto = factory.buildProtocol(IPv4Address("TCP", *peer))
        ep = Endpoint(self, proto, t)
        proto.makeConnection(t)
        return ep

    def _feed(self, ep, data, settle=True):
        try:
            ep.proto.dataReceived(data)
        except _core.Violation:     # raised by the harness itself (CPU guard): not something that "escaped" from the protocol
            raise
        except Exception as e:  # what twisted.internet.tcp does: log + connectionLost(Failure)
            ep.escaped.append(e)
            if not ep.loss_delivered:
                from twisted.python.failure import Failure
                ep.loss_delivered = True
                ep.t.lost = True
                try:
                    ep.proto.connectionLost(Failure(e))
                except Exception as e2:
                    ep.escaped.append(e2)

    def _lose(self, ep, kind):
        from twisted.internet import error
        from twisted.python.failure import Failure
        exc = {"done": error.ConnectionDone, "lost": error.ConnectionLost, "aborted": error.ConnectionAborted}[kind]()
        ep.proto.connectionLost(Failure(exc))

    def close(self):
        pass


def _make_vloop():
    import asyncio

    class _VSelector:
        def __init__(self, loop):
            self.loop = loop

        def select(self, timeout=None):
            lp = self.loop
            if timeout is None:
                lp.stop()
                return []
            if timeout > 0:
                if lp._scheduled:
                    lp._vtime = max(lp._vtime, min(lp._scheduled[0]._when, lp._vtime + timeout))
                else:
                    lp._vtime += timeout
            return []

        def close(self):
            pass

    class VLoop(asyncio.BaseEventLoop):
        def __init__(self):
            super().__init__()
            self._vtime = 0.0
            self._selector = _VSelector(self)
            self._clock_resolution = 1e-9

        def time(self):
            return self._vtime

        def _process_events(self, event_list):
            pass

        def _write_to_self(self):
            pass

    return VLoop()


class AioDriver:
    fw = "asyncio"

    def __init__(self):
        import asyncio
        import txaio
        self.loop = _make_vloop()
        asyncio.set_event_loop(self.loop)
        txaio.config.loop = self.loop
        self.loop_errors = []
        self.loop.set_exception_handler(lambda lp, ctx: self.loop_errors.append(ctx))

    def now(self):
        return self.loop.time()

    def next_deadline(self):
        lp = self.loop
        live = [h._when for h in lp._scheduled if not h._cancelled]
        return min(live, default=None)

    def settle(self):
        lp = self.loop
        for _ in range(400000):
            due = lp._scheduled and any((not h._cancelled) and h._when <= lp._vtime + 1e-4 for h in lp._scheduled)
            if not lp._ready and not due:
                return
            if due and not lp._ready:
                nxt = min(h._when for h in lp._scheduled if not h._cancelled)
                lp._vtime = max(lp._vtime, nxt)
            lp.call_soon(lp.stop)
            lp.run_forever()
        raise RuntimeError("settle: loop does not quiesce")

    def advance(self, dt):
        lp = self.loop
        self.settle()
        target = lp._vtime + dt
        h = lp.call_at(target, lp.stop)
        lp.run_forever()
        h.cancel()
        lp._vtime = max(lp._vtime, target)
        self.settle()

    def soon(self, fn):
        self.loop.call_soon(fn)

    def call(self, fn, *a, **kw):
        box = {}

        def run():
            try:
                box["r"] = fn(*a, **kw)
            except BaseException as e:
                box["e"] = e
        self.loop.call_soon(run)
        self.settle()
        if "e" in box:
            raise box["e"]
        return box.get("r")

    def connect(self, factory, peer=("127.0.0.1", 54321), host=("127.0.0.1", 9000), proto=None):
        t = FakeAioTransport(self, peer, host)
        if proto is None:
            proto = factory()
        t._proto = proto
        ep = Endpoint(self, proto, t)
        self.call(proto.connection_made, t)
        return ep

    def _feed(self, ep, data, settle=True):
        try:
            if settle:
                self.call(ep.proto.data_received, data)
            else:
                ep.proto.data_received(data)
        except _core.Violation:
            raise
        except Exception as e:
            ep.escaped.append(e)
            if not ep.loss_delivered:
                ep.loss_delivered = True
                ep.t.lost = True
                try:
                    self.call(ep.proto.connection_lost, e)
                except Exception as e2:
                    ep.escaped.append(e2)

    def _lose(self, ep, kind):
        exc = {"done": None, "lost": ConnectionResetError("lost"), "aborted": None}[kind]
        if self.loop.is_running():      # delivered by the loop itself (Endpoint.enable_auto_loss)
            ep.proto.connection_lost(exc)
        else:
            self.call(ep.proto.connection_lost, exc)

    def close(self):
        import asyncio
        try:
            lp = self.loop
            for h in list(lp._scheduled):
                h.cancel()
            lp._ready.clear()
            lp.close()
        except Exception:
            pass
        asyncio.set_event_loop(None)


def get_driver():
    return TxDriver() if FW == "twisted" else AioDriver()


def reseed(n):
    """make the library's incidental randomness a function of the drawn case"""
    random.seed(n)
