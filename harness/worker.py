"""Worker process entry: python -m harness.worker <check-module> <func> <args.json> <out.json>

Environment (set by vcheck): VERIF_FW=twisted|asyncio|none, AUTOBAHN_USE_NVX,
PYTHONPATH=<repo>/src:<verif>, PYTHONHASHSEED=0, VERIF_REPO."""
import importlib
import json
import os
import sys
import time
import traceback


def main():
    modname, func, argfile, outfile = sys.argv[1:5]
    t0 = time.time()
    out = {"ok": False}
    try:
        from harness import core
        fw = os.environ.get("VERIF_FW", "none")
        import txaio
        if fw == "twisted":
            txaio.use_twisted()
        elif fw == "asyncio":
            txaio.use_asyncio()
        try:    # keep the library's warn-level logging out of the worker logs
            txaio.start_logging(out=open(os.devnull, "w"), level="critical")
        except Exception:
            pass
        repo = os.path.realpath(os.environ.get("VERIF_REPO", "/repo"))
        import autobahn
        if not os.path.realpath(autobahn.__file__).startswith(repo + os.sep):
            raise core.HarnessError("autobahn imported from %s, expected under %s" % (autobahn.__file__, repo))
        with open(argfile) as f:
            spec = json.load(f)
        col = core.Collector(known_open=spec.get("known_open", ()))
        mod = importlib.import_module("checks." + modname)

        def hard_stall(v):
            col.record_failure(v.key, v.detail, v.case)
            res = col.result()
            res["ok"] = True
            res["wall_s"] = time.time() - t0
            with open(outfile, "w") as f:
                json.dump(res, f, default=repr)
            os._exit(0)
        core.HARD_STALL_HOOK[0] = hard_stall
        try:
            getattr(mod, func)(col, **spec.get("args", {}))
        except core.Violation as v:
            col.record_failure(v.key, v.detail, v.case)
        out = col.result()
        out["ok"] = True
    except BaseException as e:  # harness error
        tb = "".join(traceback.format_exception(type(e), e, e.__traceback__))[-6000:]
        col_ = locals().get("col")
        if col_ is not None and getattr(col_, "failures", None):
            # an oracle already reported a violation in this job; a later section of the job then tripped over the same broken behaviour
            # (an observation it takes for granted): the violation stands, the follow-up error is kept as a note
            col_.notes.append("job ended early after a recorded violation: " + tb[-600:])
            out = col_.result()
            out["ok"] = True
        else:
            out["ok"] = False
            out["error"] = tb
    out["wall_s"] = time.time() - t0
    with open(outfile, "w") as f:
        json.dump(out, f, default=repr)
    sys.stdout.flush()
    sys.stderr.flush()
    os._exit(0)


if __name__ == "__main__":
    main()
