"""Run one atheris campaign (harness.fuzzmain) as a child process and merge its collector into the worker's."""
import json
import os
import re
import shutil
import subprocess
import sys
import tempfile

from harness.core import HarnessError


def run(col, modname, target, runs, seed, max_len=4096, timeout=3000):
    deps = os.path.join(os.path.dirname(os.path.dirname(os.path.abspath(__file__))), ".deps")
    if not os.path.isdir(os.path.join(deps, "atheris")):
        col.notes.append("atheris not installed under .deps (setup_cmd installs it from the offline wheelhouse): fuzz target %s skipped" % target)
        return False
    outdir = tempfile.mkdtemp(prefix="vfuzz_")
    try:
        env = dict(os.environ)
        env["VERIF_KNOWN_OPEN"] = json.dumps(sorted(col.known_open))
        p = subprocess.run([sys.executable, "-m", "harness.fuzzmain", modname, target, str(runs), str(seed), str(max_len), outdir],
                           env=env, stdout=subprocess.PIPE, stderr=subprocess.STDOUT, timeout=timeout)
        log = p.stdout.decode("utf-8", "replace")
        resfile = os.path.join(outdir, "result.json")
        if not os.path.exists(resfile):
            raise HarnessError("fuzz child produced no result (rc=%s): %s" % (p.returncode, log[-1500:]))
        with open(resfile) as f:
            r = json.load(f)
        if r.get("harness_error"):
            raise HarnessError("fuzz target %s failed: %s" % (target, r["harness_error"]))
        if p.returncode != 0:
            raise HarnessError("fuzz child rc=%s: %s" % (p.returncode, log[-1500:]))
        col.evaluations += r["evaluations"]
        col.nt.update(r["nt"])
        col.nt_enum += r["nt_enum"]
        for k, v in r["classes"].items():
            col.classes[k] = col.classes.get(k, 0) + v
        for k, v in r["samples"].items():
            col.samples.setdefault(k, []).extend(v[:max(0, col.MAX_SAMPLES_PER_CLASS - len(col.samples.get(k, [])))])
        for k, v in r["known_hits"].items():
            col.known_hits[k] = col.known_hits.get(k, 0) + v
        for fl in r["failures"]:
            col.failures.append(fl)
            col.ignore_keys.add(fl["key"])
        cov = re.findall(r"stat::new_units_added:\s*(\d+)", log)
        col.notes.append("atheris %s: %d executions, %d evaluated by the oracle, new corpus units found through coverage feedback: %s, libFuzzer seed %d (campaigns are only approximately reproducible; "
                         "a recorded failure carries its input and replays exactly)" % (target, r.get("execs", 0), r["evaluations"], cov[-1] if cov else "n/a", seed))
        col.count("fuzz/%s/executions" % target, r.get("execs", 0))
        return True
    finally:
        shutil.rmtree(outdir, ignore_errors=True)
