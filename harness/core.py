"""Shared core of the /verif machinery: violations, evidence collection,
Hypothesis glue, JSON helpers.  Independent of autobahn."""
import base64
import hashlib
import json
import os
import sys
import time
import traceback


class Violation(Exception):
    """The code under test broke the stated property on a concrete case."""

    def __init__(self, key, detail="", case=None):
        Exception.__init__(self, "%s :: %s" % (key, detail))
        self.key = key
        self.detail = detail
        self.case = case


class HarnessError(Exception):
    """The harness cannot observe what it needs (never a violation)."""


def enc(o):
    """make a value JSON-able (bytes -> {"$b": hex})"""
    if isinstance(o, (bytes, bytearray, memoryview)):
        return {"$b": bytes(o).hex()}
    if isinstance(o, dict):
        return {"$d": [[enc(k), enc(v)] for k, v in o.items()]} if any(
            not isinstance(k, str) for k in o) else {k: enc(v) for k, v in o.items()}
    if isinstance(o, (list, tuple)):
        return [enc(x) for x in o]
    if isinstance(o, (set, frozenset)):
        return [enc(x) for x in sorted(o, key=repr)]
    if isinstance(o, float) and (o != o or o in (float("inf"), float("-inf"))):
        return {"$f": repr(o)}
    if isinstance(o, int) and not isinstance(o, bool) and o.bit_length() > 8192:
        return {"$i": hex(o)}       # beyond Python's default int -> decimal str limit (json.dumps would raise)
    if o is None or isinstance(o, (bool, int, float, str)):
        return o
    return {"$r": repr(o)}


def dec(o):
    if isinstance(o, dict):
        if set(o.keys()) == {"$b"}:
            return bytes.fromhex(o["$b"])
        if set(o.keys()) == {"$d"}:
            return {_hashable(dec(k)): dec(v) for k, v in o["$d"]}
        if set(o.keys()) == {"$f"}:
            return float(o["$f"])
        if set(o.keys()) == {"$i"}:
            return int(o["$i"], 16)
        return {k: dec(v) for k, v in o.items()}
    if isinstance(o, list):
        return [dec(x) for x in o]
    return o


def _hashable(x):
    if isinstance(x, list):
        return tuple(_hashable(i) for i in x)
    return x


def digest(o):
    return hashlib.blake2b(json.dumps(enc(o), sort_keys=True, default=repr).encode(), digest_size=8).hexdigest()


def brief(o, limit=400):
    """shorten long byte/str values so samples stay readable"""
    if isinstance(o, (bytes, bytearray)):
        b = bytes(o)
        if len(b) > 24:
            return "<%d bytes %s..%s>" % (len(b), b[:8].hex(), b[-4:].hex())
        return "0x" + b.hex()
    if isinstance(o, str):
        return o if len(o) <= 60 else "%s…(%d chars)" % (o[:40], len(o))
    if isinstance(o, dict):
        return {str(brief(k)): brief(v) for k, v in list(o.items())[:30]}
    if isinstance(o, (list, tuple)):
        r = [brief(x) for x in list(o)[:24]]
        if len(o) > 24:
            r.append("…(%d items)" % len(o))
        return r
    if isinstance(o, int) and not isinstance(o, bool) and o.bit_length() > 8192:
        return "<%sint of %d bits>" % ("-" if o < 0 else "", o.bit_length())
    if o is None or isinstance(o, (bool, int, float)):
        return o
    return repr(o)[:80]


class Collector:
    """Per-worker evidence: counters, distinct non-trivial digests, samples,
    failures and known-finding hits."""

    MAX_SAMPLES_PER_CLASS = 2

    def __init__(self, known_open=()):
        self.evaluations = 0
        self.nt = set()
        self.nt_enum = 0          # non-trivial cases distinct by construction (enumerations)
        self.classes = {}
        self.samples = {}
        self.failures = []        # dicts: key, detail, case
        self.known_hits = {}      # key -> count
        self.known_open = set(known_open)
        self.notes = []
        self.exhaustive = []      # names of sub-spaces enumerated completely
        self.ignore_keys = set()  # keys already reported in this run (continue search)

    def case(self, nontrivial=False, dig=None, cls=None, sample=None, enum=False):
        self.evaluations += 1
        if nontrivial:
            if enum:
                self.nt_enum += 1
            else:
                self.nt.add(dig if isinstance(dig, str) else digest(dig))
        if cls:
            for c in (cls if isinstance(cls, (list, tuple, set)) else [cls]):
                self.classes[c] = self.classes.get(c, 0) + 1
                if sample is not None:
                    s = self.samples.setdefault(c, [])
                    if len(s) < self.MAX_SAMPLES_PER_CLASS:
                        s.append(brief(sample))

    def count(self, cls, n=1):
        self.classes[cls] = self.classes.get(cls, 0) + n

    def finding(self, key, detail="", case=None):
        """Report a property failure.  Known-open keys are counted and the
        search continues; anything else raises Violation."""
        if key in self.known_open:
            self.known_hits[key] = self.known_hits.get(key, 0) + 1
            return
        if key in self.ignore_keys:
            return
        raise Violation(key, detail, case)

    def record_failure(self, key, detail, case):
        self.failures.append({"key": key, "detail": str(detail)[:2000], "case": enc(case)})
        self.ignore_keys.add(key)

    def result(self):
        return {
            "evaluations": self.evaluations,
            "nt": sorted(self.nt),
            "nt_enum": self.nt_enum,
            "classes": self.classes,
            "samples": self.samples,
            "failures": self.failures,
            "known_hits": self.known_hits,
            "notes": self.notes,
            "exhaustive": self.exhaustive,
        }


HARD_STALL_HOOK = [None]     # set by the worker: records the stall violation, writes the result file and ends the process
STALLED = [None]      # the first stall violation seen in this process (machines stop executing steps after it: no shrinking of stalls)


CASE_CPU_LIMIT = int(os.environ.get("VERIF_CASE_CPU_LIMIT", "150"))     # seconds of *CPU time of this process* (not wall clock: load on the machine does not count)


class cpu_guard:
    """with cpu_guard(case): ...  -> Violation '<prop>|stall|...' when the block burns more than CASE_CPU_LIMIT seconds of user CPU time.
    Virtual clocks make every case a matter of milliseconds; a case that spins for minutes is the code under test not terminating.
    The alarm handler raises the Violation right inside the spinning code (which breaks the loop); event loops swallow exceptions raised in
    callbacks, so the guard also remembers that it fired and raises at exit, and the timer keeps re-firing every 5 CPU-seconds."""

    def __init__(self, case=None, what="case"):
        self.case, self.what = case, what

    def _violation(self):
        return Violation("%s|stall|%s-did-not-finish|%s" % (os.environ.get("VERIF_PROP", "C??"), self.what, self.where),
                         "more than %d s of CPU time in one %s (virtual clocks: a case normally takes milliseconds); innermost library frame when the alarm fired: %s" % (
                             CASE_CPU_LIMIT, self.what, self.where), self.case)

    def __enter__(self):
        import signal
        self.fired = 0
        self.where = "?"

        def on_alarm(sig, frm):
            self.fired += 1
            if self.fired == 1:
                signal.setitimer(signal.ITIMER_VIRTUAL, 0.5, 0.5)     # from now on break every further spin quickly so that the case comes to an end
            if self.fired > 2000 and HARD_STALL_HOOK[0] is not None:  # the code under test swallows everything and keeps spinning: give up on this worker
                HARD_STALL_HOOK[0](STALLED[0] or self._violation())
            f = frm
            while f is not None and self.where == "?":
                fn = f.f_code.co_filename.replace("\\", "/")
                if "/autobahn/" in fn:
                    self.where = "%s:%s" % (fn.split("/autobahn/")[-1], f.f_code.co_name)
                f = f.f_back
            v = self._violation()
            if STALLED[0] is None:
                STALLED[0] = v
            raise v
        self._old = signal.signal(signal.SIGVTALRM, on_alarm)
        signal.setitimer(signal.ITIMER_VIRTUAL, CASE_CPU_LIMIT, 5.0)
        return self

    def disarm(self):
        import signal
        signal.setitimer(signal.ITIMER_VIRTUAL, 0)
        signal.signal(signal.SIGVTALRM, self._old)

    def __exit__(self, et, ev, tb):
        self.disarm()
        if self.fired and not (isinstance(ev, Violation) and "|stall|" in ev.key):
            raise STALLED[0] or self._violation()
        return False


def guarded_blocks(items, every=256, what="enumeration-block"):
    """iterate over `items`; every block of `every` consecutive items runs under one cpu_guard (the alarm raises the stall Violation in the consumer's body)"""
    import itertools
    it = iter(items)
    while True:
        block = list(itertools.islice(it, every))
        if not block:
            return
        g = cpu_guard({"check": "enumeration", "first_item_of_block": block[0]}, what)
        g.__enter__()
        try:
            for x in block:
                yield x
        finally:
            g.disarm()
        if g.fired:
            raise STALLED[0] or g._violation()


def in_autobahn(tb_exc):
    """is the innermost frame of this exception inside the autobahn package?"""
    tb = traceback.extract_tb(tb_exc.__traceback__)
    if not tb:
        return False
    return "/autobahn/" in tb[-1].filename.replace("\\", "/")


def via_autobahn(exc):
    """does any frame of this exception's traceback lie inside the autobahn package (and none after it in the harness)?"""
    tb = traceback.extract_tb(exc.__traceback__)
    names = [fr.filename.replace("\\", "/") for fr in tb]
    last_ab = max((i for i, n in enumerate(names) if "/autobahn/" in n), default=-1)
    last_harness = max((i for i, n in enumerate(names) if "/verif/" in n), default=-1)
    return last_ab > last_harness


def exc_key(exc):
    tb = traceback.extract_tb(exc.__traceback__)
    where = "?"
    for fr in reversed(tb):
        fn = fr.filename.replace("\\", "/")
        if "/autobahn/" in fn:
            where = "%s:%s" % (fn.split("/autobahn/")[-1], fr.name)
            break
    return "%s@%s" % (type(exc).__name__, where)


def run_hypothesis(col, name, strategy, body, max_examples, seed, shrink=True, rounds=4,
                   stateful_machine=None, step_count=None):
    """Run `body(case)` over `strategy` with Hypothesis.  `body` raises
    Violation for property failures.  The minimal failing case is recorded and
    the search continues (up to `rounds` distinct keys)."""
    import hypothesis
    from hypothesis import HealthCheck, Phase, given, settings

    phases = [Phase.generate] + ([Phase.shrink] if shrink else [])
    st = settings(max_examples=max_examples, database=None, deadline=None, derandomize=False,
                  report_multiple_bugs=False, phases=phases, print_blob=False,
                  suppress_health_check=list(HealthCheck))
    for rnd in range(rounds):
        last = {}

        def make(_last):
            def wrapped(case):
                if _last.get("stalled"):       # a stalling case costs minutes per execution: no shrinking, the first stalling case is the report
                    raise _last["v"]
                try:
                    with cpu_guard(case):
                        body(case)
                except Violation as v:
                    if "|stall|" in v.key and v.key not in col.known_open and v.key not in col.ignore_keys:
                        _last["v"], _last["case"], _last["stalled"] = v, (v.case if v.case is not None else case), True
                        raise
                    if v.key in col.known_open:      # listed finding: count it, the case ends here, the search goes on
                        col.known_hits[v.key] = col.known_hits.get(v.key, 0) + 1
                        return
                    if v.key in col.ignore_keys:
                        return
                    _last["v"] = v
                    _last["case"] = v.case if v.case is not None else case
                    raise
            return wrapped

        wrapped = make(last)

        test = hypothesis.seed(seed + rnd)(settings(st)(given(strategy)(wrapped)))
        try:
            test()
            return
        except Violation:
            v = last["v"]
            col.record_failure(v.key, v.detail, {"check": name, "case": last["case"]})
            if "|stall|" in v.key:
                return       # every further stalling case would cost minutes: this job has delivered its verdict
        except hypothesis.errors.Flaky as e:
            # the case did not fail again when Hypothesis re-ran it.  If an oracle did observe a property failure on the real code, it is reported
            # (the failure happened; it depends on randomness inside the library that the drawn case does not pin); otherwise it is a harness error.
            v = last.get("v")
            if v is None:
                raise HarnessError("flaky case in %s: %r" % (name, e))
            col.record_failure(v.key, "%s  [observed once; not reproduced on re-execution of the same drawn case - depends on randomness the case does not pin]" % v.detail,
                               {"check": name, "case": last["case"]})


def atomic_write_json(path, obj):
    tmp = path + ".tmp%d" % os.getpid()
    with open(tmp, "w") as f:
        json.dump(obj, f, indent=1, sort_keys=True, default=repr)
    os.replace(tmp, path)


def run_machine(col, name, make_machine, max_examples, seed, step_count=20, shrink=True, rounds=3):
    """Run a Hypothesis RuleBasedStateMachine.  `make_machine(holder)` returns the machine class;
    machines put their recorded plain-data steps into holder["steps"]/holder["config"] as they go so that
    the minimal failing history (Hypothesis replays it last) can be stored as a replay file."""
    import hypothesis
    from hypothesis import HealthCheck, Phase, settings
    from hypothesis.stateful import run_state_machine_as_test

    phases = [Phase.generate] + ([Phase.shrink] if shrink else [])
    st = settings(max_examples=max_examples, stateful_step_count=step_count, database=None, deadline=None, derandomize=False,
                  report_multiple_bugs=False, phases=phases, print_blob=False, suppress_health_check=list(HealthCheck))
    for rnd in range(rounds):
        holder = {"ignore": col.ignore_keys}
        cls = hypothesis.seed(seed + rnd)(make_machine(holder))
        try:
            run_state_machine_as_test(cls, settings=st)
            return
        except Violation as v:
            if v.key in col.ignore_keys:
                continue
            col.record_failure(v.key, v.detail, {"check": name, "config": holder.get("config"), "steps": holder.get("steps")})
        except hypothesis.errors.Flaky as e:
            # see run_hypothesis: an observed oracle failure is reported even if re-execution of the drawn history did not reproduce it
            vs = [x for x in getattr(e, "exceptions", ()) if isinstance(x, Violation)]
            if not vs:
                raise HarnessError("flaky machine %s: %r" % (name, e))
            v = vs[0]
            col.record_failure(v.key, "%s  [observed once; not reproduced on re-execution of the same drawn history]" % v.detail,
                               {"check": name, "config": holder.get("config"), "steps": holder.get("steps")})
