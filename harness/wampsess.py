"""WAMP session harness: an ApplicationSession on an in-memory ITransport (both
frameworks), a scripted router side, and future tracking."""
import os

from harness import drv as _drv
from harness.core import HarnessError, Violation, exc_key


class Track:
    """observes a Deferred/Future: how often and how it completed"""

    def __init__(self, d, fut):
        import txaio
        self.n = 0
        self.ok = None
        self.value = None
        self.fut = fut
        if fut is None:
            return

        def good(r):
            self.n += 1
            self.ok = True
            self.value = r
            return None

        def bad(f):
            self.n += 1
            self.ok = False
            self.value = getattr(f, "value", f)
            return None
        txaio.add_callbacks(fut, good, bad)

    @property
    def done(self):
        return self.n > 0


class MockTransport:
    """in-memory autobahn.wamp.interfaces.ITransport"""

    def __init__(self, world, serializer="json", roundtrip=True):
        import txaio
        from autobahn.wamp import serializer as ser
        from autobahn.wamp.types import TransportDetails
        self.world = world
        cls = {"json": "JsonSerializer", "msgpack": "MsgPackSerializer", "cbor": "CBORSerializer", "ubjson": "UBJSONSerializer"}[serializer]
        self._serializer = getattr(ser, cls)()
        self.sent = []           # message objects as they would arrive at the router (after a serializer round trip)
        self.sent_raw = []
        self.closed = False
        self.close_calls = 0
        self.abort_calls = 0
        self.roundtrip = roundtrip
        self.transport_details = TransportDetails(channel_type=TransportDetails.CHANNEL_TYPE_TCP, channel_framing=TransportDetails.CHANNEL_FRAMING_WEBSOCKET,
                                                  channel_serializer=TransportDetails.CHANNEL_SERIALIZER_JSON, peer="tcp4:127.0.0.1:9000", is_server=False)
        self.is_closed = txaio.create_future()
        self.fail_next_send = None
        self.on_send = None      # hook(msg_as_the_router_sees_it): called from inside send(), e.g. an in-process router that answers synchronously

    def send(self, msg):
        from autobahn.wamp.exception import TransportLost
        if self.closed:
            raise TransportLost()
        if self.fail_next_send is not None:
            e, self.fail_next_send = self.fail_next_send, None
            raise e
        if self.roundtrip:
            data, is_binary = self._serializer.serialize(msg)
            back = self._serializer.unserialize(data, is_binary)
            if len(back) != 1:
                raise HarnessError("serializer round trip returned %d messages" % len(back))
            self.sent.append(back[0])
        else:
            self.sent.append(msg)
        self.sent_raw.append(msg)
        if self.on_send is not None:
            self.on_send(self.sent[-1])

    def isOpen(self):
        return not self.closed

    def close(self):
        self.close_calls += 1
        self.closed = True

    def abort(self):
        self.abort_calls += 1
        self.closed = True

    def get_channel_id(self, channel_id_type=None):
        return b"\x00" * 32


class SessionWorld:
    """one ApplicationSession (subclass) joined through a MockTransport"""

    def __init__(self, session_cls=None, serializer="json", hooks=None, config_extra=None, driver=None):
        from autobahn.wamp import message, role, types
        if _drv.FW == "twisted":
            from autobahn.twisted.wamp import ApplicationSession
        else:
            from autobahn.asyncio.wamp import ApplicationSession
        self.d = driver or _drv.get_driver()
        self.owns_driver = driver is None
        self.message = message
        self.events = []
        hooks = hooks or {}
        world = self

        base = session_cls or ApplicationSession

        class S(base):
            def onConnect(self):
                world.events.append(("connect",))
                if "onConnect" in hooks:
                    return hooks["onConnect"](self)
                return base.onConnect(self)

            def onChallenge(self, challenge):
                world.events.append(("challenge", challenge.method))
                if "onChallenge" in hooks:
                    return hooks["onChallenge"](self, challenge)
                return "signature"

            def onWelcome(self, welcome):
                world.events.append(("welcome",))
                if "onWelcome" in hooks:
                    return hooks["onWelcome"](self, welcome)
                return None

            def onJoin(self, details):
                world.events.append(("join", details.session))
                if "onJoin" in hooks:
                    return hooks["onJoin"](self, details)

            def onLeave(self, details):
                world.events.append(("leave", details.reason))
                if "onLeave_nobase" in hooks:      # a user override that does not call the base implementation
                    return hooks["onLeave_nobase"](self, details)
                r = base.onLeave(self, details)
                if "onLeave" in hooks:
                    return hooks["onLeave"](self, details, r)
                return r

            def onDisconnect(self):
                world.events.append(("disconnect",))
                r = base.onDisconnect(self)
                if "onDisconnect" in hooks:
                    return hooks["onDisconnect"](self)
                return r

            def onUserError(self, fail, msg):
                world.user_errors.append((getattr(fail, "value", fail), msg))

        self.user_errors = []
        self.session = S(types.ComponentConfig(realm="realm1", extra=config_extra))
        self.t = MockTransport(self, serializer)
        self.router_roles = {"broker": role.RoleBrokerFeatures(x_acknowledged_event_delivery=True), "dealer": role.RoleDealerFeatures()}

    # framework neutral execution
    def call(self, fn, *a, **kw):
        return self.d.call(fn, *a, **kw)

    def settle(self):
        self.d.settle()

    def open(self):
        self.call(self.session.onOpen, self.t)
        self.settle()

    def welcome(self, session_id=1234, **kw):
        m = self.message.Welcome(session_id, self.router_roles, realm="realm1", **kw)
        return self.feed(m)

    def join(self):
        self.open()
        self.welcome()
        if not any(e[0] == "join" for e in self.events):
            raise HarnessError("session did not join: events %r sent %r" % (self.events, self.t.sent))
        self.t.sent[:] = []
        self.t.sent_raw[:] = []

    def feed(self, msg, via_wire=True):
        """router -> session; returns the exception escaping onMessage (or None)"""
        if via_wire:
            data, is_binary = self.t._serializer.serialize(msg)
            msgs = self.t._serializer.unserialize(data, is_binary)
            msg = msgs[0]
        try:
            self.call(self.session.onMessage, msg)
            err = None
        except Exception as e:
            err = e
        self.settle()
        return err

    def lose_transport(self, clean=False):
        self.t.closed = True
        try:
            self.call(self.session.onClose, clean)
            err = None
        except Exception as e:
            err = e
        self.settle()
        return err

    def track(self, fut):
        t = Track(self.d, fut)
        self.settle()
        return t

    def close(self):
        if self.owns_driver:
            self.d.close()
