"""Helpers to stand up autobahn WebSocket endpoints (Twisted or asyncio flavour) on
the virtual drivers, with recording protocol subclasses, plus a raw scripted
peer for the opening handshake and an adversarial byte pipe."""
import base64
import hashlib
import os

from harness import drv as _drv
from harness.core import HarnessError

GUID = b"258EAFA5-E914-47DA-95CA-C5AB0DC85B11"


def accept_for(key):
    if isinstance(key, str):
        key = key.encode("ascii", "replace")
    return base64.b64encode(hashlib.sha1(key + GUID).digest()).decode()


def _mods():
    if _drv.FW == "twisted":
        from autobahn.twisted import websocket as m
    else:
        from autobahn.asyncio import websocket as m
    return m


def recording(base, log, hooks=None):
    """subclass `base` so that every application callback is appended to `log`"""
    hooks = hooks or {}

    class Rec(base):
        def onConnecting(self, transport_details):
            log.append(("connecting",))
            if "onConnecting" in hooks:
                return hooks["onConnecting"](self, transport_details)
            return None

        def onConnect(self, r):
            log.append(("connect", getattr(r, "protocols", None) if hasattr(r, "protocols") else getattr(r, "protocol", None)))
            if "onConnect" in hooks:
                return hooks["onConnect"](self, r)
            return None

        def onOpen(self):
            log.append(("open",))
            if "onOpen" in hooks:
                return hooks["onOpen"](self)

        def onMessage(self, payload, isBinary):
            log.append(("msg", isBinary, payload))
            if "onMessage" in hooks:
                return hooks["onMessage"](self, payload, isBinary)

        def onPing(self, payload):
            log.append(("ping", payload))
            base.onPing(self, payload)

        def onPong(self, payload):
            log.append(("pong", payload))

        def onClose(self, wasClean, code, reason):
            log.append(("close", wasClean, code, reason))
            if "onClose" in hooks:
                return hooks["onClose"](self, wasClean, code, reason)

    Rec.__name__ = "Rec" + base.__name__
    return Rec


class WsSide:
    """a factory + one connected endpoint + its callback log"""

    def __init__(self, d, factory, is_server, hooks=None):
        self.d = d
        self.factory = factory
        self.is_server = is_server
        self.log = []
        m = _mods()
        base = m.WebSocketServerProtocol if is_server else m.WebSocketClientProtocol
        self.proto_cls = recording(base, self.log, hooks)
        factory.protocol = self.proto_cls
        self.ep = None

    def connect(self, **kw):
        self.ep = self.d.connect(self.factory, **kw)
        self.proto = self.ep.proto
        return self.ep

    def msgs(self):
        return [(e[1], e[2]) for e in self.log if e[0] == "msg"]

    def count(self, kind):
        return sum(1 for e in self.log if e[0] == kind)


def server(d, url="ws://localhost:9000", opts=None, hooks=None, **fkw):
    m = _mods()
    if d.fw == "twisted":
        f = m.WebSocketServerFactory(url, reactor=d.clock, **fkw)
    else:
        f = m.WebSocketServerFactory(url, loop=d.loop, **fkw)
    if opts:
        f.setProtocolOptions(**opts)
    return WsSide(d, f, True, hooks)


def client(d, url="ws://localhost:9000", opts=None, hooks=None, **fkw):
    m = _mods()
    if d.fw == "twisted":
        f = m.WebSocketClientFactory(url, reactor=d.clock, **fkw)
    else:
        f = m.WebSocketClientFactory(url, loop=d.loop, **fkw)
    if opts:
        f.setProtocolOptions(**opts)
    return WsSide(d, f, False, hooks)


# ---------------------------------------------------------------------------
# raw scripted peer for the opening handshake

def raw_request(host="localhost:9000", path="/", key=None, version=13, protocols=None, extensions=None,
                origin=None, extra=()):
    key = key or base64.b64encode(bytes(range(16))).decode()
    lines = ["GET %s HTTP/1.1" % path, "Host: %s" % host, "Upgrade: websocket", "Connection: Upgrade",
             "Sec-WebSocket-Key: %s" % key, "Sec-WebSocket-Version: %d" % version]
    if origin:
        lines.append(("Origin: %s" if version >= 13 else "Sec-WebSocket-Origin: %s") % origin)
    if protocols:
        lines.append("Sec-WebSocket-Protocol: %s" % ", ".join(protocols))
    if extensions:
        lines.append("Sec-WebSocket-Extensions: %s" % extensions)
    lines.extend(extra)
    return ("\r\n".join(lines) + "\r\n\r\n").encode("utf-8")


def raw_response(key, protocol=None, extensions=None, extra=()):
    lines = ["HTTP/1.1 101 Switching Protocols", "Upgrade: websocket", "Connection: Upgrade",
             "Sec-WebSocket-Accept: %s" % accept_for(key)]
    if protocol:
        lines.append("Sec-WebSocket-Protocol: %s" % protocol)
    if extensions:
        lines.append("Sec-WebSocket-Extensions: %s" % extensions)
    lines.extend(extra)
    return ("\r\n".join(lines) + "\r\n\r\n").encode("utf-8")


def split_http(data):
    """-> (start_line, [(name, value)], rest) or None if no CRLFCRLF"""
    i = data.find(b"\r\n\r\n")
    if i < 0:
        return None
    head = data[:i].decode("latin-1").split("\r\n")
    hdrs = []
    for ln in head[1:]:
        if ":" in ln:
            k, v = ln.split(":", 1)
            hdrs.append((k.strip().lower(), v.strip()))
    return head[0], hdrs, data[i + 4:]


def open_server(side, extensions=None, protocols=None, key=None, **kw):
    """handshake a library *server* endpoint against the raw peer; returns the 101 response bytes"""
    ep = side.connect()
    ep.feed(raw_request(key=key, extensions=extensions, protocols=protocols, **kw))
    side.d.settle()
    resp = ep.take()
    if not resp.startswith(b"HTTP/1.1 101") or side.count("open") != 1:
        raise HarnessError("server endpoint did not open against a valid raw handshake: %r escaped=%r" % (resp[:200], ep.escaped))
    return resp


def open_client(side, protocol=None, extensions=None):
    """handshake a library *client* endpoint against the raw peer; returns the request bytes"""
    ep = side.connect()
    side.d.settle()
    req = ep.take()
    parsed = split_http(req)
    if not parsed:
        raise HarnessError("client wrote no complete request: %r" % req[:200])
    key = dict(parsed[1]).get("sec-websocket-key")
    ep.feed(raw_response(key, protocol, extensions))
    side.d.settle()
    if side.count("open") != 1:
        raise HarnessError("client endpoint did not open against a valid raw 101: escaped=%r log=%r" % (ep.escaped, side.log))
    return req


# ---------------------------------------------------------------------------
# adversarial pipe between two endpoints

class Pipe:
    """Connects endpoint a (index 0) and endpoint b (index 1).  Bytes written by a side
    accumulate in that direction's buffer; `step(direction, n)` delivers n bytes (None=all)."""

    def __init__(self, d, a, b):
        self.d = d
        self.ends = (a, b)
        self.buf = [bytearray(), bytearray()]   # buf[0]: a->b ; buf[1]: b->a
        self.delivered = [bytearray(), bytearray()]
        self.reads = [0, 0]

    def pump(self):
        for i in (0, 1):
            self.buf[i] += self.ends[i].take()

    def step(self, direction, n=None, settle=True):
        """deliver one read; settle=False leaves the event loop un-run, so that the next read arrives in the same loop turn"""
        self.pump()
        b = self.buf[direction]
        if not b:
            return 0
        if n is None or n > len(b):
            n = len(b)
        chunk = bytes(b[:n])
        del b[:n]
        self.delivered[direction] += chunk
        self.reads[direction] += 1
        self.ends[1 - direction].feed(chunk, settle)
        if settle:
            self.d.settle()
        self.pump()
        return n

    def run(self, schedule=(), limit=200000):
        """apply the drawn schedule [(direction, n|None)], then flush everything"""
        for direction, n in schedule:
            self.step(direction, n)
        k = 0
        while True:
            self.d.settle()
            self.pump()
            if not self.buf[0] and not self.buf[1]:
                break
            for i in (0, 1):
                self.step(i, None)
            k += 1
            if k > limit:
                raise HarnessError("pipe does not drain")

    def run_bytewise(self, chunk=1, burst=1):
        """`burst` reads are delivered per event-loop turn (asyncio protocols may get several data_received calls before the loop runs
        their callbacks; for Twisted there is no difference)"""
        while True:
            self.d.settle()
            self.pump()
            if not self.buf[0] and not self.buf[1]:
                break
            for i in (0, 1):
                for k in range(burst):
                    if self.buf[i]:
                        self.step(i, chunk, settle=(k == burst - 1))
                self.d.settle()
