"""Real WAMP transports (WebSocket / RawSocket x Twisted / asyncio) on the virtual
drivers, talking to a scripted *raw* router peer: independent framing (ref6455 /
4-octet RawSocket handshake + length prefix) and third-party codecs only."""
import base64
import json
import struct

from harness import drv as _drv
from harness import ref6455, wsutil
from harness.core import HarnessError

SER_IDS = {"json": 1, "msgpack": 2, "cbor": 3, "ubjson": 4}


# ---------------------------------------------------------------- independent codecs

def _json_default(o):
    if isinstance(o, bytes):
        return "\x00" + base64.b64encode(o).decode("ascii")
    raise TypeError(repr(o))


def _json_unbin(o):
    if isinstance(o, str) and o.startswith("\x00"):
        return base64.b64decode(o[1:])
    if isinstance(o, list):
        return [_json_unbin(x) for x in o]
    if isinstance(o, dict):
        return {k: _json_unbin(v) for k, v in o.items()}
    return o


def dumps(ser, obj):
    if ser == "json":
        return json.dumps(obj, default=_json_default, separators=(",", ":"), ensure_ascii=False).encode("utf-8")
    if ser == "msgpack":
        import msgpack
        return msgpack.packb(obj, use_bin_type=True)
    if ser == "cbor":
        import cbor2
        return cbor2.dumps(obj)
    if ser == "ubjson":
        import bjdata
        return bjdata.dumpb(obj)
    raise HarnessError(ser)


def loads(ser, data):
    if ser == "json":
        return _json_unbin(json.loads(data.decode("utf-8")))
    if ser == "msgpack":
        import msgpack
        return msgpack.unpackb(data, raw=False)
    if ser == "cbor":
        import cbor2
        return cbor2.loads(data)
    if ser == "ubjson":
        import bjdata
        return bjdata.loadb(data)
    raise HarnessError(ser)


def binary(ser):
    return ser != "json"


def _mods(kind):
    if _drv.FW == "twisted":
        from autobahn.twisted import websocket as ws, rawsocket as rs, wamp
    else:
        from autobahn.asyncio import websocket as ws, rawsocket as rs, wamp
    return ws, rs, wamp


def serializer_obj(ser, batched=False):
    from autobahn.wamp import serializer as s
    cls = {"json": "JsonSerializer", "msgpack": "MsgPackSerializer", "cbor": "CBORSerializer", "ubjson": "UBJSONSerializer"}[ser]
    return getattr(s, cls)(batched=batched)


class ClientTransport:
    """a library WAMP *client* transport of `kind` ('ws'|'rs') with a session created by `session_factory`;
    the harness is the router."""

    def __init__(self, kind, ser, session_factory, d=None, peer_max_exp=15, ws_opts=None, rs_max_size=None):
        self.kind, self.ser = kind, ser
        self.d = d or _drv.get_driver()
        self.owns = d is None
        ws, rs, _ = _mods(kind)
        self.inbox = b""
        self.peer_max = None
        if kind == "ws":
            kw = {"reactor": self.d.clock} if self.d.fw == "twisted" else {"loop": self.d.loop}
            self.factory = ws.WampWebSocketClientFactory(session_factory, url="ws://localhost:9000/ws", serializers=[serializer_obj(ser)], **kw)
            opts = {"openHandshakeTimeout": 0, "closeHandshakeTimeout": 0, "serverConnectionDropTimeout": 0}
            opts.update(ws_opts or {})
            self.factory.setProtocolOptions(**opts)
            self.ep = self.d.connect(self.factory)
            self.d.settle()
            req = self.ep.take()
            parsed = wsutil.split_http(req)
            if not parsed:
                raise HarnessError("no WS request: %r" % req[:80])
            hdr = dict(parsed[1])
            self.offered = [p.strip() for p in hdr.get("sec-websocket-protocol", "").split(",") if p.strip()]
            self.ep.feed(wsutil.raw_response(hdr.get("sec-websocket-key"), protocol="wamp.2." + ser))
            self.d.settle()
        else:
            self.factory = rs.WampRawSocketClientFactory(session_factory, serializer=serializer_obj(ser))
            if rs_max_size and hasattr(self.factory, "setProtocolOptions"):
                self.factory.setProtocolOptions(maxMessagePayloadSize=rs_max_size)
            self.ep = self.d.connect(self.factory)
            self.d.settle()
            hs = self.ep.take()
            if len(hs) != 4 or hs[0] != 0x7F:
                raise HarnessError("bad rawsocket client handshake %r" % hs)
            self.client_max = 2 ** (9 + (hs[1] >> 4))
            self.peer_max = 2 ** (9 + peer_max_exp)
            self.ep.feed(bytes([0x7F, (peer_max_exp << 4) | SER_IDS[ser], 0, 0]))
            self.d.settle()
        self.proto = self.ep.proto

    # router -> session
    def send_raw(self, obj):
        data = dumps(self.ser, obj)
        self.send_bytes(data)

    def send_raw_many(self, objs):
        """several messages in ONE read (no event-loop turn between them)"""
        chunk = b""
        for obj in objs:
            data = dumps(self.ser, obj)
            if self.kind == "ws":
                chunk += ref6455.encode_frame(2 if binary(self.ser) else 1, data)
            else:
                chunk += struct.pack("!L", len(data)) + data
        self.ep.feed(chunk)
        self.d.settle()

    def send_bytes(self, data, binary_flag=None):
        if self.kind == "ws":
            b = binary(self.ser) if binary_flag is None else binary_flag
            self.ep.feed(ref6455.encode_frame(2 if b else 1, data))
        else:
            self.ep.feed(struct.pack("!L", len(data)) + data)
        self.d.settle()

    # session -> router
    def recv_raw(self):
        """decoded WAMP messages (raw lists) written by the endpoint since the last call; also returns frame sizes"""
        self.d.settle()
        self.inbox += self.ep.take()
        out = []
        sizes = []
        if self.kind == "ws":
            frames, rest = ref6455.parse_frames(self.inbox)
            self.inbox = rest
            for ev in ref6455.reassemble(frames):
                if ev[0] == "msg":
                    if ev[1] != binary(self.ser):
                        raise HarnessError("frame type %r does not match serializer %s" % (ev[1], self.ser))
                    out.append(loads(self.ser, ev[2]))
                    sizes.append(len(ev[2]))
                elif ev[0] == "close":
                    out.append(("CLOSE", ev[1]))
        else:
            while len(self.inbox) >= 4:
                n = struct.unpack("!L", self.inbox[:4])[0]
                if len(self.inbox) < 4 + n:
                    break
                body = self.inbox[4:4 + n]
                self.inbox = self.inbox[4 + n:]
                out.append(loads(self.ser, body))
                sizes.append(n)
        self.last_sizes = sizes
        return out

    def close(self):
        if self.owns:
            self.d.close()


def make_session_class(events, hooks=None):
    """ApplicationSession subclass of the current framework recording lifecycle callbacks"""
    hooks = hooks or {}
    _, _, wamp = _mods(None)
    base = wamp.ApplicationSession

    class S(base):
        def onJoin(self, details):
            events.append(("join",))
            if "onJoin" in hooks:
                return hooks["onJoin"](self, details)

        def onLeave(self, details):
            events.append(("leave", details.reason))
            return base.onLeave(self, details)

        def onDisconnect(self):
            events.append(("disconnect",))
            return base.onDisconnect(self)

        def onUserError(self, fail, msg):
            events.append(("usererror", getattr(fail, "value", fail)))
    return S
