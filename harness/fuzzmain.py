"""Coverage-guided fuzz entry (atheris / libFuzzer), run as a child of a worker:

    python -m harness.fuzzmain <check-module> <target> <runs> <seed> <max_len> <outdir>

The check module exposes FUZZ[target] = {"make": f(col) -> one_input(bytes), "seeds": f() -> [bytes],
"imports": [module names to instrument]}.  The semantic oracle is inside one_input (it raises
core.Violation); violations are *recorded* (one per key) and fuzzing continues, so a shallow failure does
not hide what lies behind it.  The collector is flushed to <outdir>/result.json periodically and at the
last run, because libFuzzer leaves through exit() without running Python's atexit handlers."""
import importlib
import json
import os
import sys
import time
import traceback

HERE = os.path.dirname(os.path.dirname(os.path.abspath(__file__)))


def main():
    modname, target, runs, seed, max_len, outdir = sys.argv[1:7]
    runs, seed, max_len = int(runs), int(seed), int(max_len)
    sys.path.insert(0, os.path.join(HERE, ".deps"))
    import atheris
    from harness import core
    fw = os.environ.get("VERIF_FW", "none")
    import txaio
    if fw == "twisted":
        txaio.use_twisted()
    elif fw == "asyncio":
        txaio.use_asyncio()
    try:
        txaio.start_logging(out=open(os.devnull, "w"), level="critical")
    except Exception:
        pass
    mod = importlib.import_module("checks." + modname)
    spec = mod.FUZZ[target]
    with atheris.instrument_imports(include=["autobahn"], enable_loader_override=False):
        import autobahn
        for m in spec.get("imports", ()):
            importlib.import_module(m)
    repo = os.path.realpath(os.environ.get("VERIF_REPO", "/repo"))
    if not os.path.realpath(autobahn.__file__).startswith(repo + os.sep):
        raise core.HarnessError("autobahn imported from %s, expected under %s" % (autobahn.__file__, repo))
    known = json.loads(os.environ.get("VERIF_KNOWN_OPEN", "[]"))
    col = core.Collector(known_open=known)
    one = spec["make"](col)
    corpus = os.path.join(outdir, "corpus")
    os.makedirs(corpus, exist_ok=True)
    for i, s in enumerate(spec["seeds"]() if os.environ.get("VERIF_FUZZ_EMPTY_CORPUS") != "1" else []):
        with open(os.path.join(corpus, "seed%04d" % i), "wb") as f:
            f.write(s)
    state = {"n": 0, "t0": time.time(), "harness_error": None}
    resfile = os.path.join(outdir, "result.json")

    def flush():
        out = col.result()
        out["execs"] = state["n"]
        out["harness_error"] = state["harness_error"]
        tmp = resfile + ".tmp"
        with open(tmp, "w") as f:
            json.dump(out, f, default=repr)
        os.replace(tmp, resfile)

    def test_one_input(data):
        state["n"] += 1
        try:
            one(bytes(data))
        except core.Violation as v:
            if v.key in col.known_open:
                col.known_hits[v.key] = col.known_hits.get(v.key, 0) + 1
            elif v.key not in col.ignore_keys:
                col.record_failure(v.key, v.detail, v.case)
        except BaseException as e:   # the target itself is broken: stop and say so (exit 2 upstream)
            state["harness_error"] = "".join(traceback.format_exception(type(e), e, e.__traceback__))[-4000:]
            flush()
            os._exit(3)
        if state["n"] % 500 == 0 or state["n"] >= runs:
            flush()

    flush()
    argv = [sys.argv[0], "-runs=%d" % runs, "-seed=%d" % (seed % (2 ** 31 - 1) + 1), "-max_len=%d" % max_len, "-artifact_prefix=%s/" % outdir,
            "-timeout=60", "-rss_limit_mb=4096", "-len_control=50", "-verbosity=0", "-print_final_stats=1", corpus]
    atheris.Setup(argv, test_one_input)
    atheris.Fuzz()


if __name__ == "__main__":
    main()
