#!/venv/bin/python
"""(Re)generates sections 8 and 9 of DESIGN.md: the sensitivity matrix (from SENSITIVITY.md and seeded/<ID>/meta.json) and the
as-built rule of every check (from checks/*.py DESCRIPTION).  Everything before the marker line is hand-written and kept."""
import glob
import importlib
import json
import os
import re
import sys

HERE = os.path.dirname(os.path.dirname(os.path.abspath(__file__)))
sys.path.insert(0, HERE)
MARK = "<!-- generated below: tools/gen_design_appendix.py -->"

NARRATIVE = """## 8. Sensitivity: which checks catch which changes

Two populations of changes are kept, all of them compile and leave the pinned
suite green (288/288):

* `mutants/<ID>/*.diff` - written while building each check (the kind of slip a
  refactor produces: an off-by-one at a threshold, a dropped state guard, two
  swapped fields, one DFA cell, ...). Mutants that turned out to be equivalent
  were removed, not kept as "misses".
* `seeded/<ID>/`, `seeded/<ID>b/` ... `seeded/<ID>l/` - twelve rounds of one change per property, each made by an **independent agent** that
  was given only the property text and a scratch worktree (nothing from
  `/verif`), asked for a change that needs something specific to manifest (an
  interleaving, a fault at a particular point, a multi-step sequence, an unusual
  input, two cooperating sites) and for a demonstration (`demo.py`: exit 0 on
  the clean tree, non-zero with the change). I confirmed each one myself with
  `tools/seedtest.sh` (patch applies to a clean checkout, demo passes/fails as
  claimed, pinned suite still 288/288) before keeping it.

Across the twelve rounds 125 of the 240 seeded changes were caught on first contact (11, 12, 10, 10, 13, 10, 11, 10, 11, 8, 8, 11 of 20), the
other 115 pointed at generator or oracle gaps that were then closed - each table below says which - and eighteen of the
strengthenings exposed genuine defects of the unchanged tree (fixed, §5.1: C18 x2, C08 x4, C04 x2, C15, C11, C05 x2, C20, C10 x3, C01; eight of
them were first pointed out by seeding agents as side observations on the unmodified tree) plus one that is recorded rather than repaired
(C06, §5.2).

First contact with the first 20 seeded changes (quick tier, before any strengthening):
11 caught at once (C01 C03 C05 C07 C08 C09 C12 C15 C16 C17 C19), 8 missed
(C02 C04 C06 C10 C11 C13 C18 C20) and one turned a harness weakness into an
exit-2 harness error (C14: the jitter was not a pure function of the case).
What the misses taught and what was strengthened:

| prop | seeded change needs | gap in my check | strengthening |
|---|---|---|---|
| C02 | an *empty* final continuation frame after a text fragment that stops inside a code point | UTF-8 violations were five fixed strings; no empty fragments | generated bad-text family (18 malformations x prefix length x cut points incl. empty fragments, cut at the bad octet +-k, control frame before the final fragment); atheris raw-stream target added |
| C04 | ERROR with the id of a pending UNREGISTER but `request_type` CALL | wrong-type replies were drawn at random; the unregister x ERROR-form pair was never reached in the quick budget | exhaustive job: 6 pending kinds x 5 other reply types x {success form, ERROR form} x 3 serializers, then the genuine reply must still complete the request |
| C06 | `leave()` re-entered from `onLeave` / from a request errback while the router's GOODBYE is being processed | user callbacks only returned / raised / returned pending results | two new behaviours: `onLeave` that calls `leave()` then `disconnect()`, and request errbacks that call `leave()` |
| C10 | INTERRUPT for an invocation whose endpoint still completes (swallows the cancel), or INVOCATION+INTERRUPT in one read on asyncio | pending endpoints always died on cancel; messages were fed one per loop turn | "shielded" asynchronous endpoints (Deferred errback / coroutine catching CancelledError), and a step that delivers INVOCATION and INTERRUPT in a single read |
| C11 | two handlers with details on one subscription: the second gets the first's `EventDetails.subscription` | details were checked for publication/publisher/topic only | `details.subscription is` the handler's own Subscription |
| C13 | asyncio RawSocket handshake split over reads with the completing read also carrying frame octets | handshake and traffic were driven in separate phases | new job: handshake + three frames as one stream, *every* 1-cut and 2-cut segmentation (RawSocket, both roles), every 1-cut (WebSocket) |
| C14 | jitter applied after the clamp to `max_retry_delay` | the check had the bound, but WebSocket factories re-seed `random` from the OS on construction: Hypothesis reported the failing case as flaky (exit 2) | arg-less `random.seed()` routed to a case-derived value in the worker |
| C18 | `isinstance` lookup: registered base + (un)registered subclass | only flat classes were generated | class hierarchies: defined base + defined subclass, defined base + unregistered subclass, decorated base + decorated subclass (the last one exposed a genuine defect, fixed - §5.1) |
| C20 | request without any arguments goes out unencrypted, so the result travels in clear | every generated request carried the marker in its arguments | argument-less requests (the result still carries the marker) |

A **second round** of 20 independent agents (`seeded/<ID>b/`) was then asked for a *different* mechanism at a
different code site (each was told the one-line summary of the first seed for its property, nothing about the checks).
First contact, quick tier: 12 caught at once (C02b C03b C05b C06b C08b C09b C10b C11b C13b C14b C17b C18b), 8 missed:

| prop | seeded change needs | gap in my check | strengthening |
|---|---|---|---|
| C01b | asyncio adapter drains one queued chunk per wake-up: several `data_received` calls within one loop turn | every read was followed by a run of the event loop | fourth delivery mode "burst" (several reads per loop turn) in the pair driver, fifth schedule in C02 |
| C04b | `PublishOptions(eligible=[])`: an explicitly empty white/blacklist is dropped from PUBLISH | the option oracle treated `[]` and absent as equal, and only three of the six list options were drawn | all six list options drawn from {absent, single, list, empty list}; exact comparison |
| C07b | client request target built from the percent-*decoded* path | URL generator had no escapes | percent-escapes (space, `/`, `?`, `#`, `%`, non-ASCII) in path and query; target must be exactly as written |
| C12b | RSV1 on a continuation frame of an *uncompressed* message in a compressed session | C12 had negotiation negatives only (C02 caught this one, C12 did not) | enumerated frame-bit job: 15 RSV1 scenarios x roles x failByDrop x 3 schedules |
| C15b | streaming API reuses one masking key for all frames of a message | policy check only flagged "all frames share one key" | no two client frames share a key; the 32-bit draw is made collision-free inside the check |
| C16b | receive limits not enforced while the local close handshake is in progress | limits were only exercised in OPEN state | a quarter of the cases call `sendClose()` first; the over-limit header must drop the transport, at-limit messages still arrive |
| C19b | `AuthScram.on_welcome` accepts a WELCOME without any processed CHALLENGE (signature over empty inputs) | server signature only checked after a real exchange | fresh authenticator x {genuine signature of another exchange, HMAC of empty inputs, zeros} must not be accepted |
| C20b | `KeyRing` memoises URI->key: stale key after `set_key()` for a covering prefix | keyrings were fully configured before first use, and both ends being stale is self-consistent | "rekey" layout: warm-up exchange, `set_key` on both ends, then the message must open under the *new* key with PyNaCl directly and ciphertexts under the superseded key are refused |

A **third round** (`seeded/<ID>c/`) asked for bugs that need a *history* (state left over from an earlier operation, a
particular order of events, timing relative to a timer) in a part of the property the first two seeds left untouched.
First contact, quick tier: 10 caught at once (C01c C04c C05c C08c C09c C12c C14c C15c C16c C18c), 10 missed:

| prop | seeded change needs | gap in my check | strengthening |
|---|---|---|---|
| C02c | close frame reason validated with the connection's shared UTF-8 validator: a valid Close arriving inside a fragmented text message that stopped mid code point is failed with 1007 | control frames inside fragmented messages were pings/pongs only, and a peer close ended the judgement | the peer's close may arrive between fragments; a *valid* peer close must not be answered with a failure status, nothing may escape |
| C03c | `unserialize` caches the whole wire payload on each parsed message: a received message re-serialised alone carries the whole batch | messages were only serialised once | forwarding trip: every received message object goes through the same serializer instance again and must come back as exactly that message |
| C06c | requests issued from the errback of a request failed at session end are wiped without completion (Twisted) | no re-entrant API use from errbacks; worse, my tracker was registered before the application errback and swallowed the failure under Twisted, so errbacks never fired there | errbacks may issue a new call (must fail at once or later, never hang); application errback registered first and passes the failure on |
| C07c | 503 rejection decrements the connection count that `connectionLost` decrements again: after a rejection more peers than `maxConnections` are admitted | the limit was checked for single handshakes with a preset count | history job on one factory: peers connect (valid/invalid), are admitted or refused, go away; a valid handshake completes iff fewer than N are established |
| C10c | result of a pending invocation dropped silently when its procedure was unregistered meanwhile | registrations were never removed | `unregister` step (router confirms); running invocations must still be answered |
| C11c | `@wamp.subscribe` caches the parsed pattern per URI: a later handler decorated for the same URI inherits the first one's options | decorated objects had no options | decorated object with two methods on the same topic, one with `details_arg`, one plain |
| C13c | asyncio WebSocket adapter (same root cause as C01b) seen through WAMP traffic | C13 traffic ran the loop after every read | burst reads in the C13 traffic schedules |
| C17c | a data frame received while CLOSING no longer counts as an answer to an outstanding auto-ping | pings were only exercised in OPEN state or started after the close | scenario: ping outstanding, application calls `sendClose`, peer answers in time by pong/data and sends its close reply after the ping deadline |
| C19c | CRA derived key cached per salt: a later challenge with another iteration count/key length is signed with the stale key | one challenge per authenticator | the authenticator is re-used for four further challenges (iterations+1, keylen+1, other challenge, same again) |
| C20c | tampered / foreign progressive results still reach `on_progress` | progressive results were not generated under encryption | calls with `on_progress`: genuine chunk recovered exactly; every 2nd single-byte alteration, swapped procedure URI and foreign key must not reach the handler |

A **fourth round** (`seeded/<ID>d/`) asked for a clause or a dimension of the scope (one role, one framework, a non-default
option value, a rarely used API variant, two cooperating sites) that the first three seeds leave untouched. First contact,
quick tier, saved replays off: 10 caught at once (C01d C03d C06d C09d C10d C11d C13d C16d C17d C19d), 10 missed:

| prop | seeded change needs | gap in my check | strengthening |
|---|---|---|---|
| C02d | one class-level pass-through masker shared by all connections of the process: two connections whose reads interleave corrupt each other | one connection per case | "twins": the same stream into two connections of one process with interleaved reads, both judged against the model |
| C04d | UNSUBSCRIBE recorded as pending only after `transport.send()` returned: a reply delivered from inside `send()` (in-process router) is unmatched | replies always came after the API call returned | enumerated synchronous-router job: for all six request kinds the reply (success/ERROR) is delivered while `send()` is running |
| C05d | reserved close code 2999 accepted (`range()` end), echoed back on the wire | the machine's illegal codes stopped at 1015/5000; and a clean close after an illegal code hides behind the open C05 finding - only the wire check can tell | illegal codes 2999, 1016, 2000, 1100, 0, 65535 added (with `echoCloseCodeReason` the reply must not carry them) |
| C07d | client accepts a server-selected subprotocol that is a *substring* of its joined request header | the mutation used one unrelated name | adjacent names: prefix, suffix, substring, the joined list, other case |
| C08d | PUBLISH `eligible: []` ("nobody") dropped on re-marshal | the fixed-point oracle normalised empty lists away (C03 too) | empty black-/whitelists are distinct from absent ones in C03's comparison and in C08's re-marshal check |
| C12d | refused over-limit send keeps the deflate context (same site as C16c) | C12 generates no size limits | assigned to C16 (`meta.json: checked_by`), which decides the send-side limit clause |
| C14d | `stop()` while joined does not mark the component as stopping: if the router drops the connection instead of answering the GOODBYE, the component reconnects | the router always answered the GOODBYE that `stop()` causes | the scripted router may drop the connection instead |
| C15d | receive-side masker kept across frames when the next frame carries the same key (never rewound) | C15 exercised the maskers and the send-side policy only (C02 caught this one: its scripted peer uses one key) | receive-side job: consecutive frames with the same / other / zero key, all length classes, fragments, drawn read chunking |
| C18d | forwarded traceback merged with `dict(traceback=tb, **kwargs)`: an error that already carries a `traceback` kwarg is lost | that key was excluded from generated kwargs | application errors carrying their own `traceback` kwarg (str or list) - which exposed a genuine defect: `str(ApplicationError)` mutated the kwargs (fixed, §5.1) |
| C20d | final YIELD encrypted under the registration's URI pattern instead of the called procedure | exact registrations only | prefix registration with the concrete procedure in `INVOCATION.details.procedure` |

A **fifth round** (`seeded/<ID>e/`; four earlier summaries given, the clause has to be quoted in `meta.json`) - first contact,
quick tier, replays off: 13 caught at once (C01e C02e C03e C05e C06e C07e C09e C10e C14e C15e C16e C17e C19e), 7 missed:

| prop | seeded change needs | gap in my check | strengthening |
|---|---|---|---|
| C04e | a progressive RESULT for a call without progress handler completes the call | such results were declared a router fault and not generated | generated; ignoring or rejecting is accepted, completing the call is not - which exposed a genuine defect on the unchanged tree (AttributeError for a plain `call()`, fixed §5.1) |
| C08e | one broker feature in WELCOME no longer type-checked | role announcements were never mutated | every spec feature of every admissible role in HELLO/WELCOME x all junk values, plus feature names that collide with nothing - which exposed a genuine defect (feature named `self` raises TypeError out of `parse()`, fixed §5.1; the seeding agent had noticed it too) |
| C11e | handler attached to its id only after the subscribe result was resolved: unsubscribing in the subscribe callback fails (Twisted) | subscribe results were only observed | behaviour "unsubscribe as soon as the subscription is confirmed" |
| C12e | prepared do-not-compress message goes out compressed when `applyMask=False` | compression traffic always ran with `applyMask=True` | `applyMask=False` on both ends in a quarter of the C12 traffic cases |
| C13e | asyncio RawSocket client: undefined handshake error code raises KeyError | the handshake table is complete in the thorough tier, but the quick tier's seed-selected half missed the 11 values | the 256 values with the magic first octet are always enumerated |
| C18e | `check_types=True` wrapper turns any TypeError of the procedure into `type_check_error` | default registrations only; no TypeError-derived classes | registrations with `check_types=True`; defined and undefined classes deriving from TypeError |
| C20e | forged encrypted ERROR surfaces as the class the caller mapped to the envelope URI | the caller never registered classes | caller maps the error URIs to classes: genuine error arrives as that class, every forgery as an encryption error |

A **sixth round** (`seeded/<ID>f/`; five earlier summaries given, "make it subtle": boundary on a rarely hit branch, wrong operand
of a symmetric pair, state reset in one path but not in its twin) - first contact, quick tier, replays off: 10 caught at once
(C01f C02f C03f C04f C07f C09f C13f C14f C16f C18f; C09f by bringing the worker down with SIGSEGV, which is now reported as a
violation instead of a harness error), 10 missed:

| prop | seeded change needs | gap in my check | strengthening |
|---|---|---|---|
| C05f | a close reason of exactly one octet is dropped from the report of a clean close | reasons were empty or >= 3 octets | reasons of 1 and 2 octets (ASCII and multi-byte) |
| C06f | after the session ended, unsubscribing a non-last handler of a shared subscription id succeeds | each subscribe got its own id; no unsubscribe among the calls made after the end | subscriptions of a history share one id (same topic); up to three still-attached handlers are unsubscribed after the end: must raise |
| C08f | six-element INVOCATION whose fifth element is an opaque payload is accepted (sixth element ignored) | the element-count rule ignored the payload form | payload form: the opaque payload must be the last element |
| C10f | explicit `receive_progress: false` hands the endpoint a progress callback | the flag was only ever absent or true | explicit `false` in a third of the invocations |
| C11f | with a single handler the live list is iterated: a handler subscribed from inside the callback (router confirming synchronously) also gets the current event | no subscribe from inside handlers; no synchronous router in C11 | behaviour "subscribe one more handler to the same topic inside the callback", SUBSCRIBED delivered from inside `send()` with the same id |
| C12f | a client that offered no compression ignores the response's extension header | negative handshakes always had an offer | client without offers x all bad responses (+ valid ones under a declining policy) |
| C15f | `sendFrame(payload, payload_len=N)` masks the short pattern once and repeats the masked octets | the frame API with explicit length was not driven | enumerated job over payload and `payload_len` lengths with own / explicit / zero key - which exposed a genuine defect: with an explicit key the header lacks the key octets (fixed, §5.1) |
| C17f | client factory ignores `autoPingRestartOnAnyTraffic=False` | with that option off the peer always answered with pongs | peer answers with data only while the connection is configured so that only pongs count: must be dropped |
| C19f | `check_totp` normalises the ticket through `int()`: altered tickets verify | only whole wrong codes were tried | every single-bit alteration and several re-spellings of a genuine ticket |
| C20f | callee encrypts progressive YIELDs with the originator box: in clear with a responder-only keyring | the callee never produced progressive results | the endpoint emits a progressive result; the progressive YIELD must be encrypted and free of the marker |

A **seventh round** (`seeded/<ID>g/`; six earlier summaries given; asked for untouched files - asyncio flavour, util / types / role
helpers, option plumbing - or bugs that need two conditions at once) - first contact, quick tier, replays off: 11 caught at once
(C01g C02g C05g C09g C11g C12g C14g C15g C16g C18g C19g), 9 missed:

| prop | seeded change needs | gap in my check | strengthening |
|---|---|---|---|
| C03g | UBJSON encoder called with `no_float32=False`: payload doubles come back rounded to single precision | payload floats were not generated at all (I had declared them outside the statement) | finite doubles of magnitude 0 or >= 2.3e-308 are part of every generated payload (all WAMP checks share the strategy); they must come back as the same float. Below that the bjdata encoder switches to Decimal on the unchanged tree: stated as assumption, not generated |
| C04g | `CallOptions(caller_authrole=...)` without `caller_authid` is dropped from the CALL | only on_progress / timeout / details were ever set | every wire option of CallOptions, PublishOptions, SubscribeOptions and RegisterOptions (transaction_hash, caller*, forward_for, get_retained, concurrency, force_reregister, all five invoke policies) is drawn independently; each must be on the request message exactly as given, absent ones absent. The wider option space thinned out the histories with two outstanding progressive calls (own mutant m6 slipped), so those are now also enumerated (`progress_grid`: 2-3 calls x handler subsets x every order of progressive results x 2 final orders, 192 histories per framework) |
| C06g | a router GOODBYE with reason `wamp.close.goodbye_and_out` is not answered although this side did not initiate | the router's reason URI was fixed per situation | reason URI (six, including goodbye_and_out and an error URI) and message are drawn per history; the answer depends only on who initiated |
| C07g | allow-list patterns folded into one alternation regex: every entry but the last matches as a prefix | only one configured allow-list had two entries, and near-miss origins were a fixed list | allow-lists of 2-4 entries drawn from a pool in any order; origins constructed from each configured entry (exact, port extended / truncated, host extended left / right, other scheme, no port) |
| C08g | ABORT whose `message` detail is a falsy non-string (false, 0, [], {} ...) is accepted, value dropped | a wrongly typed option only counted when the parsed message *retained* it | a message carrying a wrongly typed known option at the options position is a violation when accepted at all (options read only in payload form are judged only in that form). Adding huge integers to the junk values (the agent's side observation) exposed the genuine bignum defect (fixed, §5.1) |
| C10g | `register(obj)`: the decorated method of an object that evaluates false (empty container) is invoked without self | endpoints were plain functions | each procedure is registered as plain callable, bound method, or through `register(obj)` with a decorated method of a normal / empty-container / `__bool__`-false object; the method must receive exactly that object as self. The same variation for `subscribe(obj)` in C11 failed on the *unchanged* tree: genuine defect (fixed, §5.1) |
| C13g | Twisted RawSocket: when `onOpen` raises after the session took the transport, the session is never told the transport is gone | for a failing onOpen I had accepted 0 or 1 `onClose` calls | exactly one (every transport and role does that on the unchanged tree) |
| C17g | opening-handshake timeout ignored while a client waits for its HTTP proxy's CONNECT answer | no client went through an explicit proxy | client "open" scenarios with a configured proxy: proxy silent, proxy answers and server silent, both answer (early / at / after the deadline) |
| C20g | encrypted EVENT decoded once per event: with two handlers on one subscription the second one runs with a payload whose embedded URI does not match | one handler per subscription | 1-3 handlers per subscription: all of them get the genuine payload, none of them any forged / swapped / superseded one |

An **eighth round** (`seeded/<ID>h/`; seven earlier summaries given, same instructions as round 7) - first contact, quick tier,
replays off: 10 caught at once (C02h C03h C06h C08h C09h C11h C12h C14h C15h C19h), 10 missed:

| prop | seeded change needs | gap in my check | strengthening |
|---|---|---|---|
| C01h | client compresses with the server's window instead of the `client_max_window_bits` the server asked for; fails only when a later message repeats content sent more than 2^N octets earlier | C01 negotiated default windows only; payloads were either periodic (short distances) or unrelated | C01 draws window / context-takeover requests on both sides; a payload kind "dup" (prefixes of one incompressible stream, 600 .. 20000 octets) makes later messages refer far back; C12 additionally inflates each direction with an independent inflater of exactly the agreed window (read from the response header on the wire) |
| C04h | two `unregister()` calls outstanding for one registration: the second UNREGISTERED raises KeyError, its request never completes | the machine refused a second unregister while one was pending | allowed (up to 3), plus an enumerated job: 2-3 outstanding unregister requests x every reply order x UNREGISTERED / ERROR mixes |
| C05h | octets still in the send queue (two `sendMessage(sync=True)`) are written after `onClose` when the endpoint itself dropped the connection | no queued writes; the harness settled all zero-delay timers after every step; our own drop was only ever delivered by an explicit step | sends that leave a write queued across steps; an "auto loss" mode of the fake transports (the loop delivers the loss on its next turn, ahead of pending timers - as Twisted / asyncio do); the transport state is recorded at the moment `onClose` runs; and an exhaustive job over all 3-event (thorough: 4-event) sequences from a 15-step alphabet x 16 configurations. This exposed a genuine defect: a server's close reply queued behind such a write is discarded, yet the close is reported clean (fixed, §5.1) |
| C07h | client compares the accept digest with `hmac.compare_digest`: TypeError escapes for a digest containing an octet >= 0x80 | non-ASCII octets only appeared in an extra header and the reason phrase | one non-ASCII octet inside each element the client judges (digest x every position, Upgrade, Connection, subprotocol, extension name / parameter, status code) and each the server judges (key, Upgrade, Connection, version) |
| C10h | `check_types=True` wrapper calls the endpoint with bound arguments as keywords: variadic endpoints get wrong arguments or are never called | no registration used check_types | registration style "checked" (the wrapper is a coroutine: an INTERRUPT in the same read may cancel it before the endpoint ran - then exactly the cancellation ERROR is required) |
| C13h | Twisted RawSocket server announces the power of two *below* a configured non-power-of-two maximum but enforces the configured one | limits were powers of two, and the effective limit was taken from the configuration | limits 1000 / 3000 / 5000 / 100000; the limit that counts is read from each side's handshake octets on the wire |
| C16h | frame length reported as 0 for every frame of a compressed message: receive limits never apply to compressed messages | with compression negotiated the generated peer still sent uncompressed frames | messages sent compressed (RSV1): a raw-deflate body of stored blocks is built to the exact wire size, fragmented like any other, and the inflated text must arrive when within the limits |
| C17h | a data frame and then the matching pong for the same ping start two ping chains: extra pings, responsive peer dropped | a ping was answered by a pong or by data, never both | answer kind "data, then the pong a moment later" (interval restarts at the data frame; exactly one ping per interval afterwards) |
| C18h | `define()` of a class already defined under another URI returns early: the second URI stays unmapped | each class was mapped to one URI | the caller also maps the class to an alias URI, before or after |
| C20h | `call()` swallows the codec's failure for arguments it cannot serialize and sends the CALL in the clear | payloads were always encodable by the codec | values the transport can carry but the codec cannot (set, frozenset, datetime, UUID, nested) in every direction: the operation may fail, the clear payload must not go out. On the unchanged tree the *result* direction did exactly that (fixed, §5.1), and the error direction left the invocation unanswered (C10's claim; fixed, §5.1) |

A **ninth round** (`seeded/<ID>i/`; eight earlier summaries given) - first contact, quick tier, replays off: 11 caught at once
(C01i C02i C03i C07i C11i C12i C13i C14i C15i C18i C20i), 9 missed:

| prop | seeded change needs | gap in my check | strengthening |
|---|---|---|---|
| C04i | `register(obj)`: the decorator-level options of one method stick to the later methods that have none | objects with decorated methods were not registered in C04 | enumerated job: `register(obj)` / `subscribe(obj)` of an object with three decorated methods x 8 subsets carrying decorator options x options passed to the call or not; every request carries its own decorator's options, else the call's; replies in reverse order reach their own registrations |
| C05i | client in CLOSING: every further close frame from the server re-arms the server-drop timer | the bound for a silent peer was measured from "now" at the end of the history, and time only ever advanced to pending deadlines | the deadline runs from the moment the wait began (our close frame on the wire / close frames exchanged), checked after every event and at the end; clock advances by an amount (0.6 s) are part of the exhaustive alphabet |
| C06i | a raising `onWelcome` now also fires `leave` (copied from the failing-`onChallenge` path) | my rule *permitted* leave whenever this side aborted the attempt - because the unchanged tree does it after a failing `onChallenge` | the rule is now the literal statement (leave only for a joined session or a router abort); what the unchanged tree does after a failing `onChallenge` became an open finding (§5.2) with its own key, the `onWelcome` path has another key |
| C08i | decoder exception without arguments (msgpack reserved octet 0xC1, nesting beyond the unpacker's stack) makes the error handler raise IndexError | random / mutated octets rarely produce a reserved lead octet at a value position; no deep nesting | exhaustive job per serializer: all 256 values substituted for and inserted before every octet of six valid messages, every truncation, containers nested 50 .. 100000 deep; plain and batched (766 622 inputs) |
| C09i | native validator handle stored on the class: validators alive at the same time share state | one validator at a time | every generated case is also run on two validators of the same implementation fed alternately (the second created after the first consumed a chunk) |
| C10i | (same variable-folding slip as C04i) `details_arg` of one decorated method leaks to the next: endpoint called with an unrequested `details` | registered objects had one decorated method | style "obj-multi": a second decorated method, sorted first, with decorator options asking for call details |
| C16i | 64-bit length read as two 32-bit halves, only the low half used: a frame announcing k*2^32 + r octets passes as r octets | announced sizes stopped at 350 000 (payloads are materialised) | header-only frames announcing 2^32 .. 2^63 octets plus a small remainder (as first frame or as continuation): must fail at the header; nothing that follows becomes a message |
| C17i | starting the closing handshake cancels the pending ping timeout: silent peer never dropped (close timeout off or later) | "ping outstanding, then close" only had responsive peers | silent variant: dropped by the ping's deadline, reported as ping timeout |
| C19i | `Session.onWelcome` returns early for absent / empty `authextra`: a SCRAM session joins without any server signature | authenticators were driven directly, not through a session | whole-session job (`Session.add_authenticator`, scripted router, proof verified by the RFC 5802 reference) x 9 WELCOME variants: joins only for the correct signature |

A **tenth round** (`seeded/<ID>j/`; nine earlier summaries given) - first contact, quick tier, replays off: 8 caught at once
(C01j C03j C04j C05j C08j C09j C12j C15j), 12 missed - the agents had to go further afield by now (helper paths, option combinations,
the way a drop is carried out):

| prop | seeded change needs | gap in my check | strengthening |
|---|---|---|---|
| C02j | once one compressed message was received the "message is compressed" flag is never cleared: a later *plain* message on the same connection is fed to the inflater | with compression negotiated, sequences contained only uncompressed messages | each message of a sequence is sent compressed (one compressor per connection, context takeover) or plain; the reference receiver inflates |
| C06j | a refused `join()` on a still established session resets the "GOODBYE sent" flag: the router's reply is answered again | no `join()` calls on established sessions | endings with a (refused) `join()` between `leave()` and the router's GOODBYE; the refused call must not write anything either |
| C07j | offer parsing now says "client cannot do no-context-takeover" unless hinted: a server policy asking for it raises, the library's own pair never completes | interop matrix used default offers and default accept policy | offers with all four parameters varied x server policies asking for no-context-takeover / a window limit |
| C10j | WebSocket size check compares the limit with the fragment size: an oversized result goes out as a fragmented YIELD | WAMP-over-WebSocket transports never had auto-fragmentation on | `autoFragmentSize` in {0, 64, 512, 1000} on the callee's transport |
| C11j | a handler is removed by swapping the last one into its place: later events reach the remaining handlers out of subscription order | order was *described* but never checked (my omission) | the order in which the handlers of one id are invoked is compared with the model's order on every event |
| C13j | `wamp.2.json.batched` parsed as `json`: unsupported batched variants accepted, wrong serializer attached | serializer lists contained unbatched serializers only | a second enumeration over {json, json.batched, msgpack, msgpack.batched}: all 64 x 64 ordered subsets |
| C14j | after a normal leave the attempt is completed only if the transport then closes cleanly; a reset makes the component reconnect | after a GOODBYE exchange the transport always ended the way the component asked for; the verdict looked only at the *last* attempt | the peer may reset the connection after the GOODBYE exchange; no attempt may follow a session that left normally |
| C16j | after failing with 1009 (close handshake) the payload of the refused frame is still appended to the frame buffer while it arrives | only delivery was observed, not buffering | octets held in bytes-like attributes of the protocol object are measured (generically) before and while the refused payload arrives: no growth while the transport is still up |
| C17j | asyncio adapter probes for `abortConnection` (Twisted's name): timer-driven drops become `close()`, which never completes while the peer does not read | the fake transports treated close and abort alike | "peer has stopped reading" mode for silent-peer scenarios: only an abort counts as dropped |
| C18j | error args/kwargs read before the payload codec has decoded them: empty on the caller when a codec is active | no payload codec in C18 | a third of the cases run with the cryptobox keyring on both peers; the wire payload is decoded independently, the forwarded ERROR keeps its payload form |
| C19j | cryptosign authenticator given an explicit `pubkey` together with `channel_binding` signs the bare challenge | `authextra` never carried a public key | explicit (matching) public key, and construction through `create_authenticator` |
| C20j | `register(..., prefix=...)` records the un-prefixed URI: encrypted invocations fail the trusted-URI check | registrations used full URIs | registration relative to a `prefix=` |

An **eleventh round** (`seeded/<ID>k/`; ten earlier summaries given; the agents were also asked to report, as side observations, anything
the *unmodified* tree already gets wrong) - first contact, quick tier, replays off: 8 caught at once (C01k C02k C03k C07k C08k C11k C12k C14k),
one harness error (C19k) and 11 missed:

| prop | seeded change needs | gap in my check | strengthening |
|---|---|---|---|
| C04k | `call()` removes its request record only for `SerializationError`: a CALL refused by the transport (`PayloadExceededError`) leaves a ghost request that later accepts a reply | `transport.send()` never failed in C04 | enumerated job: 6 request kinds x 3 ways `send()` fails x reply in success / ERROR form x 2 serializers: the call fails, nothing is written, the reply bearing that id is a protocol violation, the next request works. On the unchanged tree subscribe / register / unsubscribe / unregister had exactly this defect (fixed, §5.1) |
| C05k | `_fail_connection` cuts the failure reason to 125 instead of 123 octets: only reasons longer than 123 octets show it, and the library's own violation texts are shorter | every failure reason in C05 was one of the library's own short texts | `onConnect()` failing with a 200-octet non-ASCII text, synchronously or through a pending Deferred / Future. Making `onConnect()` results events of the history exposed a genuine defect (a late result re-opens a closed connection; fixed, §5.1) |
| C06k | a guard `if self._transport:` lets the error path of a *late* failing `onChallenge()` run on: leave after disconnect / a second leave | pending user callbacks were only ever resolved successfully | `onChallenge()` whose pending result fails: while authenticating, after the router's ABORT, after transport loss |
| C09k | native wrapper feeds chunks above 64 KiB slice-wise and reports the index within the last slice | generated inputs stopped at 32 KiB | enumerated chunks of 140 000 / 300 000 octets with ill-formed sequences around 2^16 / 2^17 / 2^18 |
| C10k | INTERRUPT skipped when the endpoint's Deferred `.called` is true - which it is for a Deferred paused on an inner Deferred | asynchronous endpoints returned a plain pending Deferred / Future | behaviour "chained" |
| C13k | asyncio RawSocket client never records the maximum the server announced | under asyncio both library ends announce 16 MiB, so no library pair ever met a lower limit (stated as a limitation in section 6 - and exactly there the change went) | library client / server against a raw peer announcing every nibble, sizes limit-1 .. 3*limit, both frameworks |
| C15k | merged factory returns the pass-through masker for `not length` - i.e. also for the default `length=None` | the factory was always called with the payload length | factory without hint, with `None`, with hints 127 / 128 regardless of the length processed |
| C16k | the "limit exceeded" hook fires once per connection and shares its flag with the refused-send path | receive limits were only exercised on connections that had not refused a send | a refused over-limit `sendMessage()` first (a third of the receive and decompression-cap cases) |
| C17k | opening-handshake timer cancelled at the first octets of the request | the peer's handshake arrived whole or not at all | trickled handshake: a prefix early, the rest at the drawn time or never |
| C18k | outgoing error URI validated with the *strict* pattern, loose-only URIs replaced by `runtime_error` | four fixed, all-lower-case URIs | URIs with upper case, hyphens, non-ASCII; a class decorated with a hyphenated URI |
| C19k | (harness error) `sign_challenge` resolves to raw bytes under asyncio | the oracle did report `signature-format`, but the bit-flip enumeration that follows in the same job took the format for granted and crashed, turning the run into exit 2 | the enumeration checks the format itself; generally, a job that ends in a harness error *after* an oracle has recorded a violation now reports the violation |
| C20k | NaCl boxes cached per *peer* public key: a second key pair facing the same peer gets the first one's shared secret | every layout had one key pair per peer | layout "tenants" |

Side observations of the round-11 agents on the unmodified tree, and what became of them: *late `onConnect()` result re-opens a closed connection*
(two agents) - genuine, in C05's statement, fixed; *subscribe/register/unsubscribe/unregister keep a ghost request after a failed send* - genuine, in
C04's statement, fixed; *a bignum as a dictionary key raises ValueError out of parse()* and *session ids nested in options / details are not
range-checked* - genuine, in C08's statement (the check now mutates dictionary keys and judges nested ids), both fixed; *a result that is neither
serializable nor small is never answered* and *a retained `details.progress` writes a progressive YIELD after the terminal reply* - genuine, in C10's statement (new endpoint behaviours), both fixed; *a control frame written into an open streaming-API frame* - genuine, in C01's statement ("every byte the sender writes forms a well-formed RFC 6455
frame sequence"; the streaming examples feed a frame over several reactor turns), reproduced by a new enumerated job and fixed;
*`onMessage` before `onOpen` with a pending client `onConnect()`* and *`beginMessage()` directly followed by `endMessage()`* - the first is not covered
by any listed statement, the second is a use of the streaming API outside its documented order and is not generated; *second immediate TCP drop after a violation with failByDrop off* - already discussed below
(outside the statement); *clean close reported after an invalid peer close* - the open finding of §5.2; *kwargs named `error` / `callee` / `enc_algo`
collide with constructor parameters* - the reserved-name exclusion stated in §3 (generator is sound-first; not asserted either way); *SCRAM nonce reuse,
authmethod downgrade, lenient base64* - outside C19's statement (signatures and mutual authentication of one exchange); *a raising component `main`
reconnects* - the open finding of §5.2.

A **twelfth round** (`seeded/<ID>l/`; eleven earlier summaries given; run in two halves) - first contact, quick tier, replays off: 11 caught at once
(C01l C06l C07l C08l C09l C12l C13l C15l C16l C17l C19l), 9 missed:

| prop | seeded change needs | gap in my check | strengthening |
|---|---|---|---|
| C04l | a *progressive* RESULT that matches no pending call is dropped silently | unmatched replies were only sent in their final form | duplicate / unknown-id replies to calls also as RESULT progress=true |
| C10l | the "already answered" flag of the progress callable (the round-11 repair) is only set when the YIELD itself went out: after the fallback ERROR for an unsendable result a late `progress()` still writes a YIELD | the late `progress()` call was only made by the `progress` behaviour, which always returns a sendable value | the late call follows every kind of terminal reply (value, error, fallback ERROR, late resolution of a pending result) |
| C14l | an *unclean* loss after HELLO and before WELCOME resolves the attempt as done: `start()` succeeds with retries left | connections were lost before the transport handshake or after the join, never in between | outcome "lost-before-welcome" |
| C18l | the URI computed for an exception class is cached per session: a class raised before `define()` keeps the generic URI afterwards | classes were defined before their first use | half of the explicitly defined classes are raised once before `define()` and again afterwards |
| C02l | the hold queue for ping / pong frames (the round-11 repair of C01) keeps one frame per opcode: of two pings arriving while a streaming frame is open only the last is answered | C02's check drives a raw peer against an endpoint whose application does not send; the scenario lives in C01's enumerated streaming job, which does catch it (two pings, both pongs required) | assigned to C01's check (`checked_by` in its meta.json); nothing to add |
| C03l | a fast path of the JSON decoder ignores `use_binary_hex_encoding`: binaries come back as `'0x..'` text | only default-constructed serializers were used | a fifth serializer configuration, JSON with the hex binary convention (batched and not); texts starting with `0x` are that mode's binary marker and are not generated there |
| C05l | the hold queue also holds CLOSE: with a streaming frame open the close reply is never written, yet the close is reported clean | no history left a streaming frame open | local send "stream-open" (frame announced, half sent); afterwards the octet stream as a whole cannot be judged (a close inside an open frame has no well-formed encoding: don't-care), each write is judged on its own for being a close frame |
| C11l | the ERROR reply to an UNSUBSCRIBE also forgets the subscription id: a handler that joined the id meanwhile loses its events (EVENT becomes a protocol violation) | my model declared the state after a refused unsubscribe "unspecified" and never shared an id that had an UNSUBSCRIBE in flight | enumerated job: refused UNSUBSCRIBE with a second handler joining before / after the ERROR, events before and after |
| C20l | ERROR payloads are left in the clear for `wamp.error.*` URIs, which includes every plain Python exception | the endpoint always raised an application URI | the endpoint raises an application URI, a standard `wamp.error.*` URI or a plain exception |

Side observations of the round-12 agents on the unmodified tree, and what became of them: *RESULT / ERROR kwargs named like `CallResult` /
`ApplicationError` constructor parameters raise TypeError in `onMessage`* - the reserved-name exclusion of §3 again (a genuine robustness gap of the
library, outside what the generators admit; not asserted either way); *a clean close after HELLO and before WELCOME completes `start()`* - not an
outcome the statement lists (the unclean variant is now generated); *RawSocket PING / PONG frames make an exception escape* - legal RawSocket frames
the statement says nothing about (frame types 3..7 are generated as "wrong type"); *a message of exactly 2^24 octets is framed as an empty PING* -
messages of 16 MiB are not generated (§6); *`Sec-WebSocket-Version: 1_3` admitted, window bits `+10` accepted* - the `int()` leniencies listed as
don't-cares in §3; *a version-8 request carrying `Origin` instead of `Sec-WebSocket-Origin` passes the allow-list* - for that draft version `Origin`
is not the origin header, a request without one is admitted; *lenient base64 decoding of the SCRAM server signature* - every single-bit alteration
of the signature *bytes* is rejected (enumerated); alterations of the text that decode to the same bytes prove the same signature.

Round 4 also produced two mutants that do not terminate (C15d on the receive path, C02d under interleaving): a check
that hangs is useless, so every case / machine step / enumeration block now runs under a CPU-time guard (150 s of CPU of
the worker process, not wall clock; virtual clocks make a normal case a matter of milliseconds). A stall is reported as
a violation `<ID>|stall|...` naming the innermost library frame, is not shrunk, and a job-level time budget remains as a
backstop (inconclusive, never a violation).

Two more general lessons went into the harness: (i) a seeded change that makes a failure depend on the library's own
randomness (`os.urandom` nonce, `random.seed()` in factories) showed up as a Hypothesis *Flaky* report, i.e. exit 2; the
randomness is now part of the drawn case where it matters (C14 jitter, C19 SCRAM nonce), and an oracle failure that was
observed but did not reproduce on re-execution is reported as a violation (it happened on real code) instead of a harness
error; (ii) exceptions raised by a send API used in its documented order, and a connection ending in the middle of valid
traffic, are violations of C01 rather than harness errors (found through own mutant C15/m1).

One agent (seed2-C02) also reported, as a side observation on the *unmodified* tree, that with failByDrop off a
violating frame header followed by further reads makes the endpoint drop TCP right after its 1002 close frame,
while the same octets in one read leave it waiting for the peer's close reply. I had met this while building C02
and treat it as outside the statement: delivered events, the announced status and "nothing after the violation"
are identical under every split; only the moment of the TCP drop *after* the connection was failed differs
(the schedule comparison therefore ignores the drop flag once the verdict is announced).

For every caught seeded change one shrunk counter-example is kept as `replays/<ID>/seeded_<name>.json` (it passes on
the unchanged tree and is re-run first by every check), except where the failure depends on state shared between cases
of one worker process. After strengthening, `tools/sensitivity.py` (quick tier, saved replays switched off) gives the table below;
it is regenerated, not hand-edited. The thorough tier is a superset of the
quick tier's jobs.

"""


def main():
    p = os.path.join(HERE, "DESIGN.md")
    s = open(p).read()
    if MARK in s:
        s = s[:s.index(MARK)]
    # refresh the table of repaired defects (section 5.1) from known_findings.json
    try:
        kf = json.load(open(os.path.join(HERE, "known_findings.json")))["findings"]
        rows = "\n".join("| %s | `%s` | %s |" % (f["property"], f["commit"], f["what"].replace("|", "/")) for f in sorted((x for x in kf if x["status"] == "fixed"), key=lambda f: f["property"]))
        a = s.index("| prop | commit | what failed |\n|---|---|---|\n") + len("| prop | commit | what failed |\n|---|---|---|\n")
        b = s.index("\n\nNotes on individual repairs:", a)
        s = s[:a] + rows + s[b:]
    except (ValueError, KeyError):
        pass
    s = s.rstrip() + "\n\n" + MARK + "\n\n" + NARRATIVE
    sens = os.path.join(HERE, "SENSITIVITY.md")
    if os.path.exists(sens):
        t = open(sens).read()
        s += t[t.index("| property |"):].rstrip() + "\n\n"
    s += "What each seeded change needs to manifest (from `seeded/<ID>/meta.json`, written by the seeding agent):\n\n"
    for d in sorted(glob.glob(os.path.join(HERE, "seeded", "C*"))):
        try:
            m = json.load(open(os.path.join(d, "meta.json")))
            s += "* **%s** - %s *Needs:* %s\n" % (os.path.basename(d), m.get("summary", "").strip(), re.sub(r"\s+", " ", str(m.get("needs", ""))).strip())
        except Exception:
            pass
    s += "\n---------------------------------------------------------------------------\n\n## 9. As built: the rule each check implements\n\n"
    s += "Generated from the `DESCRIPTION` of each `checks/cNN_*.py` (the same text goes into `evidence/<ID>.json` as `coverage.rule`).\n\n"
    props = {}
    for line in open(os.path.join(HERE, "properties.jsonl")):
        pr = json.loads(line)
        props[pr["id"]] = pr["title"]
    for f in sorted(glob.glob(os.path.join(HERE, "checks", "c[0-9][0-9]_*.py"))):
        name = os.path.basename(f)[:-3]
        pid = "C" + name[1:3]
        mod = importlib.import_module("checks." + name)
        d = mod.DESCRIPTION
        s += "### %s - %s\n\nLevel: `%s`. Module: `checks/%s.py`%s.\n\n%s\n\n" % (
            pid, props.get(pid, ""), d["level"], name, " (atheris targets: %s)" % ", ".join(sorted(mod.FUZZ)) if hasattr(mod, "FUZZ") else "", d["rule"])
        if d.get("assumptions"):
            s += "Assumptions / don't-cares: " + "; ".join(d["assumptions"]) + ".\n\n"
    open(p, "w").write(s)


if __name__ == "__main__":
    main()
