#!/venv/bin/python
"""Regenerate MANIFEST.json from the check modules present (checks/cNN_*.py with a MANIFEST dict or defaults)."""
import glob, importlib, json, os, subprocess, sys
HERE = os.path.dirname(os.path.dirname(os.path.realpath(__file__)))
sys.path.insert(0, HERE)
props = [json.loads(l) for l in open(os.path.join(HERE, "properties.jsonl"))]
mods = {}
for p in sorted(glob.glob(os.path.join(HERE, "checks", "c[0-9][0-9]_*.py"))):
    n = os.path.basename(p)[:-3]
    mods["C" + n[1:3]] = importlib.import_module("checks." + n)
fix_commits = subprocess.run(["git", "-C", "/repo", "log", "--format=%h %s", "69ec1dc7..HEAD"], stdout=subprocess.PIPE, text=True).stdout.strip().splitlines()
checks, na = [], []
for pr in props:
    pid = pr["id"]
    m = mods.get(pid)
    if m is None or getattr(m, "NOT_CLAIMED", None):
        na.append({"property_id": pid, "reason": getattr(m, "NOT_CLAIMED", None) or "no check built yet for this property (work in progress); it is decidable by generated search, see DESIGN.md section 4"})
        continue
    d = m.DESCRIPTION
    checks.append({
        "property_id": pid,
        "quick_cmd": "./vcheck %s --tier quick" % pid,
        "thorough_cmd": "./vcheck %s --tier thorough" % pid,
        "evidence_file": "/verif/evidence/%s.json" % pid,
        "replay_cmd_template": "./vcheck %s --replay {path}" % pid,
        "engine": "vcheck",
        "level_claimed": {"category": d.get("level", "exploration"), "text": d.get("level_text") or (
            "Generated-input search against an explicit oracle: " + d["rule"]), "design_ref": "DESIGN.md section 4, " + pid},
        "level_note": "; ".join(d.get("assumptions", [])) or "in-memory transports; virtual clock",
        "technique": d.get("technique", "property-based testing (Hypothesis) + exhaustive enumeration of finite sub-domains, reference-model / round-trip / differential oracles"),
    })
man = {
    "version": 1,
    "setup_cmd": "/venv/bin/python -c 'import hypothesis' 2>/dev/null || /venv/bin/pip install --no-index --find-links /opt/veriftools/wheels hypothesis; (/venv/bin/pip install -q --no-index --find-links /opt/veriftools/wheels --target /verif/.deps atheris >/dev/null 2>&1 || true)",
    "hooks": {"guard": "AUTOBAHN_VERIF", "enable": "no source hooks are needed: checks observe public callbacks, return values and octets written to harness-supplied transports; they run /venv/bin/python with PYTHONPATH=/repo/src (current working tree) and recompile the NVX C sources from the tree",
              "baseline_off_cmd": "/verif/tools/baseline.py", "source_commits": [c.split()[0] for c in fix_commits], "add_only": True},
    "engines": [{"name": "vcheck", "path": "/verif/vcheck", "serves_properties": [c["property_id"] for c in checks],
                 "kind_free_text": "runner: spawns per-(framework, NVX-mode, shard) worker processes running Hypothesis / exhaustive enumerations from checks/cNN_*.py; merges evidence; maps failures to finding keys"}],
    "checks": checks,
    "not_applicable": na,
    "notes": "source_commits are unguarded 'fix:' commits repairing genuine defects (see known_findings.json and DESIGN.md section 5); there are no guarded hooks.",
}
json.dump(man, open(os.path.join(HERE, "MANIFEST.json"), "w"), indent=1)
print("claimed:", [c["property_id"] for c in checks], "not_applicable:", [n["property_id"] for n in na])
try:
    import jsonschema
    jsonschema.validate(man, json.load(open("/root/.vp/MANIFEST.schema.json")))
    print("manifest valid")
except ImportError:
    print("(jsonschema not available for validation)")
