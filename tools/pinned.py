#!/venv/bin/python
"""usage: pinned.py <tree>  - run the pinned 288-test baseline inside <tree> (a worktree of the repo) and report."""
import json, os, subprocess, sys, tempfile
import xml.etree.ElementTree as ET
tree = os.path.abspath(sys.argv[1])
base = json.load(open("/root/.vp/BASELINE.json"))
out = tempfile.mktemp(suffix=".junit.xml")
env = dict(os.environ, PYTHONPATH=os.path.join(tree, "src"))
for k in ("AUTOBAHN_VERIF", "USE_TWISTED", "USE_ASYNCIO"):
    env.pop(k, None)
cmd = base["cmd"].replace("<file>", out).replace("cd /repo", "cd " + tree)
r = subprocess.run(cmd, shell=True, env=env, stdout=subprocess.PIPE, stderr=subprocess.STDOUT, text=True)
passed = set()
try:
    for tc in ET.parse(out).getroot().iter("testcase"):
        if not any(ch.tag in ("failure", "error", "skipped") for ch in tc):
            passed.add("%s::%s" % (tc.get("classname"), tc.get("name")))
    os.unlink(out)
except Exception as e:
    print("pinned: could not read junit:", e); print(r.stdout[-2000:]); sys.exit(2)
want = set(base["stable_pass"])
missing = sorted(want - passed)
print("pinned suite: %d/%d stable tests passed" % (len(want & passed), len(want)))
for m in missing[:20]:
    print("  NOT PASSED:", m)
sys.exit(1 if missing else 0)
