#!/venv/bin/python
"""Apply every kept change (own mutants in mutants/<ID>/*.diff, independently seeded ones in seeded/<ID>/patch.diff) to a scratch
copy of /repo, run the property's check (quick tier by default) against it and tabulate which were caught and by which failing key.
usage: tools/sensitivity.py [--tier quick|thorough] [--only C05,C07] [--jobs 3] [--out SENSITIVITY.md]
exit 0 iff every change was caught (rc=1 with a VIOLATION line; a harness error rc=2 counts as NOT caught)."""
import argparse
import concurrent.futures
import glob
import json
import os
import re
import subprocess
import sys

HERE = os.path.dirname(os.path.dirname(os.path.abspath(__file__)))
HARVEST = False
NO_REPLAYS = True      # the saved regression replays are switched off: the table shows what the generated search finds on its own


def run(item):
    pid, kind, path, tier = item
    env = dict(os.environ, MUT_TAIL="400")
    if NO_REPLAYS:
        env["VERIF_NO_REPLAYS"] = "1"
    p = subprocess.run([os.path.join(HERE, "tools", "mutant.sh"), path, pid, "--tier", tier], stdout=subprocess.PIPE, stderr=subprocess.STDOUT, text=True, env=env)
    out = p.stdout
    m = re.search(r"mutant rc=(\d+)", out)
    rc = int(m.group(1)) if m else -1
    keys = re.findall(r"failing key: (.*)", out)
    # keep one shrunk counter-example per seeded change as a regression replay (it passes on the unchanged tree; checked by every later run)
    if kind == "seeded" and rc == 1 and HARVEST:
        m2 = re.search(r"VIOLATION property=\S+ replay=(out/replays/\S+\.json)", out)
        dst = os.path.join(HERE, "replays", pid, "seeded_%s.json" % os.path.basename(os.path.dirname(path)))
        if m2 and not os.path.exists(dst) and os.path.exists(os.path.join(HERE, m2.group(1))):
            os.makedirs(os.path.dirname(dst), exist_ok=True)
            import shutil
            shutil.copy(os.path.join(HERE, m2.group(1)), dst)
    return pid, kind, path, rc, keys


def main():
    ap = argparse.ArgumentParser()
    ap.add_argument("--tier", default="quick")
    ap.add_argument("--only", default="")
    ap.add_argument("--jobs", type=int, default=3)
    ap.add_argument("--out", default=os.path.join(HERE, "SENSITIVITY.md"))
    ap.add_argument("--merge", action="store_true", help="with --only: replace the rows of those properties in sensitivity_results.json and rewrite the table")
    ap.add_argument("--rounds", default="", help="only seeded changes of these rounds (suffix letters, '-' for the first round), e.g. g,h,i,j; own mutants are skipped; implies no table rewrite unless --merge")
    ap.add_argument("--paths", default="", help="only these changes (comma separated substrings of the patch path, e.g. seeded/C04d/,seeded/C10c/); use with --merge")
    ap.add_argument("--harvest", action="store_true", help="copy one counter-example per caught seeded change into replays/<ID>/seeded_<name>.json")
    a = ap.parse_args()
    global HARVEST
    HARVEST = a.harvest
    only = set(x for x in a.only.split(",") if x)
    items = []
    for d in sorted(glob.glob(os.path.join(HERE, "mutants", "C*"))):
        pid = os.path.basename(d)
        if only and pid not in only:
            continue
        for f in sorted(glob.glob(os.path.join(d, "*.diff"))):
            if not a.rounds:
                items.append((pid, "own", f, a.tier))
    for d in sorted(glob.glob(os.path.join(HERE, "seeded", "C*"))):
        pid = os.path.basename(d)[:3]
        if only and pid not in only:
            continue
        f = os.path.join(d, "patch.diff")
        if a.rounds and (os.path.basename(d)[3:] or "-") not in a.rounds.split(","):
            continue
        if os.path.exists(f):
            try:        # a seeded change may be assigned to the check of a neighbouring property (stated in its meta.json)
                pid = json.load(open(os.path.join(d, "meta.json"))).get("checked_by", pid)
            except Exception:
                pass
            items.append((pid, "seeded", f, a.tier))
    if a.paths:
        want = [x for x in a.paths.split(",") if x]
        items = [it for it in items if any(w in it[2] for w in want)]
    rows = []
    with concurrent.futures.ThreadPoolExecutor(a.jobs) as ex:
        for r in ex.map(run, items):
            rows.append(r)
            print("%s %-6s %-55s rc=%d %s" % (r[0], r[1], os.path.relpath(r[2], HERE), r[3], (r[4][0][:90] if r[4] else "")), flush=True)
    rows.sort(key=lambda r: (r[0], r[1], r[2]))
    missed = [r for r in rows if r[3] != 1]
    # results are kept as JSON next to the table, so that a later run restricted to some properties (--only ... --merge) can replace just their rows
    store = os.path.join(HERE, "sensitivity_results.json")
    partial = bool(only) or bool(a.rounds) or bool(a.paths)
    if a.merge and partial and os.path.exists(store):
        old_rows = [tuple(r) for r in json.load(open(store))["rows"]]
        new_paths = set(os.path.relpath(r[2], HERE) for r in rows)
        keep = [(pid, kind, os.path.join(HERE, path), rc, keys) for pid, kind, path, rc, keys in old_rows
                if path not in new_paths and not (only and not a.rounds and not a.paths and pid in only)]
        rows = sorted(keep + rows, key=lambda r: (r[0], r[1], r[2]))
        only = set()
        partial = False
    if partial:
        only = only or {"partial"}
    if not only:
        json.dump({"tier": a.tier, "rows": [[pid, kind, os.path.relpath(path, HERE), rc, keys[:2]] for pid, kind, path, rc, keys in rows]}, open(store, "w"), indent=0)
    missed_all = [r for r in rows if r[3] != 1]
    if not only:
        with open(a.out, "w") as f:
            f.write("# Sensitivity runs (%s tier)\n\nEvery kept change applied to a scratch copy of /repo (tools/mutant.sh), then `./vcheck <ID> --tier %s` against it.\n"
                    "The saved regression replays are switched off for these runs (VERIF_NO_REPLAYS=1): the table shows what the generated search finds on its own at VERIF_SEED=1.\n"
                    "`own` = written while building the check; `seeded` = produced by an independent agent that saw only the property text (seeded/<ID>/meta.json says what it needs to manifest).\n\n"
                    "| property | origin | change | caught | first failing keys |\n|---|---|---|---|---|\n" % (a.tier, a.tier))
            for pid, kind, path, rc, keys in rows:
                what = os.path.relpath(path, HERE)
                if kind == "seeded":
                    try:
                        what += " - " + json.load(open(os.path.join(os.path.dirname(path), "meta.json")))["summary"][:160].replace("|", "/")
                    except Exception:
                        pass
                f.write("| %s | %s | %s | %s | %s |\n" % (pid, kind, what, "yes" if rc == 1 else ("NO (rc=%d)" % rc), "; ".join(k[:110].replace("|", "/") for k in keys[:2])))
            f.write("\n%d changes, %d caught.\n" % (len(rows), len(rows) - len(missed_all)))
    print("%d changes, %d not caught" % (len(rows), len(missed)))
    return 1 if missed else 0


if __name__ == "__main__":
    sys.exit(main())
