#!/venv/bin/python
"""Run the repository's pinned baseline suite (guard OFF) and compare with /root/.vp/BASELINE.json.
exit 0 iff every stable_pass test passed."""
import json, os, subprocess, sys, tempfile
import xml.etree.ElementTree as ET
base = json.load(open("/root/.vp/BASELINE.json"))
out = tempfile.mktemp(suffix=".junit.xml")
env = dict(os.environ)
for k in ("AUTOBAHN_VERIF", "USE_TWISTED", "USE_ASYNCIO"):
    env.pop(k, None)
cmd = base["cmd"].replace("<file>", out)
r = subprocess.run(cmd, shell=True, env=env, stdout=subprocess.PIPE, stderr=subprocess.STDOUT, text=True)
passed = set()
for tc in ET.parse(out).getroot().iter("testcase"):
    if not any(ch.tag in ("failure", "error", "skipped") for ch in tc):
        passed.add("%s::%s" % (tc.get("classname"), tc.get("name")))
os.unlink(out)
want = set(base["stable_pass"])
missing = sorted(want - passed)
print("baseline: %d/%d stable tests passed" % (len(want & passed), len(want)))
for m in missing[:20]:
    print("  NOT PASSED:", m)
sys.exit(1 if missing else 0)
