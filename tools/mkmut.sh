#!/bin/bash
# usage: tools/mkmut.sh <out.diff relative to /verif/mutants> <file relative to /repo> <old> <new>   (first occurrence)
set -e
cd /repo
cp "$2" /tmp/orig.$$
python3 -I - "$2" "$3" "$4" <<'PY'
import sys
p,a,b=sys.argv[1:4]
s=open(p).read()
assert a in s, 'pattern not found: '+a[:60]
open(p,'w').write(s.replace(a,b,1))
PY
mkdir -p /verif/mutants/$(dirname $1)
git diff > /verif/mutants/$1
cp /tmp/orig.$$ "$2"; rm /tmp/orig.$$
test -s /verif/mutants/$1 || echo "EMPTY $1"
