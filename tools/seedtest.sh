#!/bin/bash
# usage: tools/seedtest.sh <seeded-dir> <ID> [vcheck args...]
# Confirms a seeded change (patch.diff + demo.py): demo passes on the clean tree, fails on the patched tree,
# the pinned suite still passes on the patched tree; then runs ./vcheck <ID> against the patched tree.
# Works on a scratch copy of /repo (outside /repo and /verif) which is removed afterwards.
set -u
sd=$(realpath "$1"); id=$2; shift 2
here=$(cd "$(dirname "$(realpath "$0")")/.." && pwd)
d=$(mktemp -d /tmp/seedchk_XXXXXX)
git -C /repo worktree add -q --detach $d/tree HEAD || { echo "worktree failed"; exit 3; }
t=$d/tree
cleanup() { git -C /repo worktree remove --force $t >/dev/null 2>&1; rm -rf $d; }
trap cleanup EXIT
( cd $sd && PYTHONPATH=$t/src timeout 300 /venv/bin/python demo.py >$d/demo_clean.out 2>&1 ); rc_clean=$?
git -C $t apply "$sd/patch.diff" || { echo "PATCH DOES NOT APPLY"; exit 3; }
( cd $sd && PYTHONPATH=$t/src timeout 300 /venv/bin/python demo.py >$d/demo_mut.out 2>&1 ); rc_mut=$?
echo "demo: clean rc=$rc_clean, patched rc=$rc_mut"
tail -3 $d/demo_mut.out | cut -c1-300
"$here/tools/pinned.py" $t | tail -3
cd "$here"
VERIF_EVIDENCE_DIR=$d/ev VERIF_REPO=$t ./vcheck $id "$@" 2>&1 | grep -E "VIOLATION|KNOWN-FINDING|^\[|rc=|exit|evidence|HARNESS" | cut -c1-400 | tail -15
rc=${PIPESTATUS[0]}
echo "vcheck rc=$rc"
exit $rc
