#!/bin/bash
# usage: tools/mutant.sh <patch.diff> <ID> [vcheck args...]
# applies the patch to a scratch copy of /repo/src (outside /repo and /verif), runs the check against it, removes the copy.
set -u
patch=$(realpath "$1"); id=$2; shift 2
here=$(cd "$(dirname "$(realpath "$0")")/.." && pwd)
d=$(mktemp -d /tmp/mut_XXXXXX)
mkdir -p $d/src
rsync -a --exclude '__pycache__' /repo/src/ $d/src/
( cd $d && git init -q . >/dev/null 2>&1; patch -p1 -s < "$patch" ) || { echo "PATCH FAILED"; rm -rf $d; exit 3; }
cd "$here"
VERIF_EVIDENCE_DIR=$d/ev VERIF_REPO=$d ./vcheck $id "$@" | tail -${MUT_TAIL:-12}
rc=${PIPESTATUS[0]}
rm -rf $d
echo "mutant rc=$rc"
exit $rc
