"""C07 - the opening handshake admits exactly the valid peers and never crashes."""
import base64
import hashlib
import re

from harness.core import Violation, HarnessError, run_hypothesis, dec, exc_key, brief

DESCRIPTION = {
    "level": "exploration",
    "rule": ("(a) server: Hypothesis builds valid RFC 6455 requests from a grammar (target, Host forms, token lists in any case, 16-byte base64 key, version from the configured "
             "list, optional Origin/subprotocols/extension offers/extra headers, header order and name case shuffled) against a drawn server configuration (versions, "
             "allowedOrigins wildcards, allowNullOrigin, maxConnections with n open connections (and, as a history on one factory: peers connecting, being admitted or refused, and going away), externalPort, subprotocol chosen by onConnect, webStatus) and removes / "
             "corrupts / duplicates exactly one required element; origins are generated adjacent to each allowed pattern (suffix/prefix extension, other scheme/port, null). "
             "(b) client: the harness answers the client's real request with the correct 101 for its key and corrupts exactly one element. (c) URLs (IPv6 hosts, ports, percent-escapes in path and query) -> request target exactly as written / Host. "
             "(d) arbitrary, truncated, oversized, non-ASCII and mutated octets into both roles under several segmentations. (e) library client x library server over "
             "spec versions, subprotocol lists, origins, extension offers x accept policies.  Oracle: valid => 101 with independently computed Sec-WebSocket-Accept, "
             "subprotocol from the client's list, extensions subset of the offer, onOpen exactly once; mutated => never open, an HTTP error and/or a dropped transport; no "
             "exception leaves dataReceived/data_received or reaches the loop; the verdict is the same under every segmentation; an endpoint that opened on arbitrary bytes "
             "must have received a request that an independent validator accepts.  Thorough tier adds an atheris (libFuzzer) target over (d) for both roles.  Origin allow-lists have 1-4 entries in any order; besides a fixed list of hostile origins, origins are constructed from each configured entry (exact, port extended/truncated, host extended left/right, other scheme, port omitted) and judged by an independent whole-string matcher.  One non-ASCII octet is placed inside every element either side judges (digest at every position, Upgrade, Connection, subprotocol, extension, status code; key, version).  The interop matrix varies all four offer parameters and server policies asking for no-context-takeover / a window limit.  Non-trivial = exactly one corrupted required element, arbitrary bytes containing CRLFCRLF, "
             "or an origin adjacent to an allowed pattern; distinct by (mutation, element, config digest). The junk / near-valid octets also go to a server configured to serve the Flash socket policy file (serveFlashSocketPolicy): a policy-file request is answered and dropped, never opened."),
    "assumptions": ["duplicate Upgrade/Connection headers, HTTP versions above 1.1 and non-canonical base64 padding bits are don't-cares (must not crash, segmentation-independent)"],
}

GUID = b"258EAFA5-E914-47DA-95CA-C5AB0DC85B11"


def plan(tier, seed):
    q = tier == "quick"
    jobs = []
    for i, fw in enumerate(("twisted", "asyncio")):
        for sh in range(2 if q else 6):
            jobs.append({"func": "server_side", "fw": fw, "name": "server/%s/%d" % (fw, sh), "args": {"seed": seed * 1000 + i * 100 + sh, "n": 350 if q else 3000}})
            jobs.append({"func": "client_side", "fw": fw, "name": "client/%s/%d" % (fw, sh), "args": {"seed": seed * 1000 + i * 100 + 20 + sh, "n": 300 if q else 3000}})
        jobs.append({"func": "connlimit", "fw": fw, "name": "connlimit/%s" % fw, "args": {"seed": seed * 1000 + i * 100 + 45, "n": 150 if q else 1500}})
        jobs.append({"func": "robustness", "fw": fw, "name": "robust/%s" % fw, "args": {"seed": seed * 1000 + i * 100 + 40, "n": 500 if q else 6000}})
        if not q:
            for sh in range(2):
                jobs.append({"func": "fuzz", "fw": fw, "name": "fuzz/handshake/%s/%d" % (fw, sh), "args": {"target": "handshake", "runs": 8000 if fw == "twisted" else 4000, "seed": seed * 1000 + i * 100 + 80 + sh}, "timeout": 3000})
        jobs.append({"func": "interop", "fw": fw, "name": "interop/%s" % fw, "args": {"seed": seed * 1000 + i * 100 + 60, "n": 150 if q else 1500}})
    jobs.append({"func": "urls", "fw": "twisted", "name": "urls", "args": {"seed": seed * 1000 + 90, "n": 300 if q else 3000}})
    return jobs


def accept_for(key):
    return base64.b64encode(hashlib.sha1(key.encode("latin-1") + GUID).digest()).decode()


# ---------------------------------------------------------------- reference: origin policy + request validity

def ref_origin_allowed(origin, patterns, allow_null):
    """whole-string wildcard match on scheme://host:port (default ports filled in); 'null'/file:// only when allowNullOrigin"""
    from urllib.parse import urlsplit
    if origin.lower() == "null":
        return allow_null
    try:
        u = urlsplit(origin)
        scheme = u.scheme.lower()
        if scheme == "file":
            return allow_null
        host, port = u.hostname, u.port
    except ValueError:
        return False
    if not host:
        return False
    if port is None:
        port = {"http": 80, "https": 443}.get(scheme)
    s = "%s://%s:%s" % (scheme, host, port)
    for p in patterns:
        rx = "".join(".*" if ch == "*" else re.escape(ch) for ch in p)
        if re.fullmatch(rx, s, re.S):
            return True
    return False


def ref_request_valid(data, cfg):
    """minimal independent RFC 6455 section 4.2.1 validator (for arbitrary octets)"""
    i = data.find(b"\r\n\r\n")
    if i < 0:
        return False
    # lenient like common servers: bare LF line ends and any whitespace between request-line fields are tolerated
    lines = data[:i].decode("latin-1").splitlines()
    if not lines:
        return False
    rl = lines[0].split()
    if len(rl) != 3 or rl[0] != "GET" or not rl[2].startswith("HTTP/"):
        return False
    try:
        if float(rl[2][5:]) < 1.1:
            return False
    except ValueError:
        return False
    hdr = {}
    for ln in lines[1:]:
        if ":" in ln:
            k, v = ln.split(":", 1)
            hdr.setdefault(k.strip().lower(), []).append(v.strip())
    if len(hdr.get("host", [])) != 1:
        return False
    if not any("websocket" == t.strip().lower() for v in hdr.get("upgrade", []) for t in v.split(",")):
        return False
    if not any("upgrade" == t.strip().lower() for v in hdr.get("connection", []) for t in v.split(",")):
        return False
    keys = hdr.get("sec-websocket-key", [])
    if len(keys) != 1:
        return False
    try:
        if len(base64.b64decode(keys[0], validate=True)) != 16:
            return False
    except Exception:
        return False
    vers = hdr.get("sec-websocket-version", [])
    if len(vers) != 1:
        return False
    try:
        if int(vers[0]) not in cfg["versions"]:
            return False
    except ValueError:
        return False
    return True


# ---------------------------------------------------------------- (a) server side

PATTERN_SETS = [["*"], ["http://good.com:80"], ["https://*.example.com:443"], ["http://good.com:80", "https://good.com:443"], ["*://localhost:*"], ["http://10.0.0.*:8080"]]


def origins_near(patterns):
    out = ["null", "NULL", "file:///tmp/x.html", "http://evil.com", "https://evil.com:8443", "ws://good.com", "garbage", "http://", "http://good.com.evil.com",
           "http://evilgood.com", "http://good.com:81", "https://good.com", "http://good.com", "http://GOOD.com", "https://a.example.com", "https://a.example.com.evil.org",
           "https://example.com", "https://xexample.com", "http://a.example.com", "https://a.example.com:444", "http://localhost:1234", "https://localhost",
           "http://localhost.evil.com:80", "http://10.0.0.7:8080", "http://10.0.0.7:80800", "http://10.0.0.77.evil.com:8080", "http://110.0.0.7:8080", "http://good.com:80/path", "http://good.com:8080", "http://good.com:800", "https://good.com:4430", "https://a.example.com:4433", "https://a.example.com:44300",
           "http://user@good.com", "http://[::1]:80", "http://good.com:0x50"]
    return out


PATTERN_POOL = ["http://good.com:80", "https://good.com:443", "https://*.example.com:443", "*://localhost:*", "http://10.0.0.*:8080", "https://app.example:443",
                "http://a.example:80", "http://z.example:8080"]


def origins_adjacent(patterns):
    """constructed from the configured allow-list: for every entry an origin that matches it, and origins one edit away from that
    (port extended / truncated, host extended to the left / right, other scheme) - the whole origin has to match, never a prefix or suffix"""
    out = []
    for p in patterns:
        if p == "*":
            continue
        scheme, rest = p.split("://", 1)
        scheme = "http" if scheme == "*" else scheme
        host, port = rest.rsplit(":", 1)
        host = host.replace("*", "q7")
        port = "8081" if port == "*" else port
        base = "%s://%s:%s" % (scheme, host, port)
        out += [base, base + "0", "%s://%s:%s1" % (scheme, host, port), "%s://%s:%s" % (scheme, host, port[:-1] or "1"), "%s://%s.evil.org:%s" % (scheme, host, port),
                "%s://evil%s:%s" % (scheme, host, port), "%s://%s:%s" % ("https" if scheme == "http" else "http", host, port), "%s://%s" % (scheme, host)]
    return out or ["http://anything.example:80"]


def server_strategy():
    from hypothesis import strategies as st
    MUT = ["none", "none", "no-host", "dup-host", "no-upgrade", "upgrade-other", "no-connection", "connection-close", "no-key", "dup-key", "key-short", "key-long",
           "key-badchar", "key-nopad", "no-version", "dup-version", "version-unsupported", "version-garbage", "method", "http10", "bad-request-line", "fragment",
           "host-port-mismatch", "host-port-garbage", "origin-denied", "dup-protocol", "over-max-connections",
           "non-ascii-key", "non-ascii-upgrade", "non-ascii-connection", "non-ascii-version"]

    @st.composite
    def case(draw):
        versions = draw(st.sampled_from([[8, 13], [13], [8]]))
        pats = draw(st.one_of(st.sampled_from(PATTERN_SETS), st.lists(st.sampled_from(PATTERN_POOL), min_size=2, max_size=4, unique=True)))
        cfg = {"versions": versions, "allowedOrigins": pats, "allowNullOrigin": draw(st.booleans()), "maxConnections": draw(st.sampled_from([0, 0, 1, 3])),
               "externalPort": draw(st.sampled_from([None, None, 9000, 443])), "webStatus": draw(st.booleans()), "server_protocols": draw(st.sampled_from([[], ["wamp.2.json"], ["b", "a"]])),
               "deflate": draw(st.booleans())}
        req = {"target": draw(st.sampled_from(["/", "/ws", "/a/b?x=1&y=2", "/?redirect=http%3A%2F%2Fx.org&after=2", "*" if False else "/%7Euser"])),
               "host": draw(st.sampled_from(["localhost:9000", "localhost", "example.com:9000", "[::1]:9000"])),
               "upgrade": draw(st.sampled_from(["websocket", "WebSocket", "WEBSOCKET", "h2c, websocket", "websocket, foo"])),
               "connection": draw(st.sampled_from(["Upgrade", "upgrade", "keep-alive, Upgrade", "Upgrade, keep-alive"])),
               "key": base64.b64encode(draw(st.binary(min_size=16, max_size=16))).decode(), "version": draw(st.sampled_from(versions)),
               "origin": draw(st.one_of(st.none(), st.sampled_from(origins_near(pats)), st.sampled_from(origins_adjacent(pats)))), "protocols": draw(st.sampled_from([None, ["wamp.2.json"], ["a", "b"], ["x", "wamp.2.json", "a"]])),
               "extensions": draw(st.sampled_from([None, "permessage-deflate", "permessage-deflate; client_max_window_bits", "x-unknown-ext; a=1", "x-unknown, permessage-deflate"])),
               "extra": draw(st.lists(st.sampled_from(["User-Agent: test/1.0", "Cookie: a=b; c=d", "X-Forwarded-For: 1.2.3.4", "Accept-Encoding: gzip", "X-Weird:", "X-Utf8: caf\u00e9"]), max_size=3, unique=True)),
               "case_style": draw(st.sampled_from(["canon", "lower", "upper"])), "shuffle": draw(st.integers(0, 1000))}
        if cfg["externalPort"] == 443:
            req["host"] = draw(st.sampled_from(["localhost:443", "localhost"]))
        elif cfg["externalPort"] == 9000 and req["host"].endswith(":9000") is False and ":" in req["host"].replace("[::1]", ""):
            req["host"] = "localhost:9000"
        mut = draw(st.sampled_from(MUT))
        nopen = 0
        if cfg["maxConnections"]:
            nopen = cfg["maxConnections"] if mut == "over-max-connections" else draw(st.integers(0, cfg["maxConnections"] - 1))
        elif mut == "over-max-connections":
            mut = "none"
        return {"cfg": cfg, "req": req, "mut": mut, "nopen": nopen, "bad_version": draw(st.sampled_from(["7", "9", "12", "14", "0", "-1", "abc", "", "13.0", " 99 "])),
                "split": draw(st.sampled_from(["one", "bytes", "two", "lines"])), "with_frame": draw(st.booleans())}
    return case()


def build_request(c):
    r, mut = c["req"], c["mut"]
    H = []

    def add(name, value):
        H.append((name, value))
    request_line = "GET %s HTTP/1.1" % r["target"]
    if mut == "method":
        request_line = "POST %s HTTP/1.1" % r["target"]
    elif mut == "http10":
        request_line = "GET %s HTTP/1.0" % r["target"]
    elif mut == "bad-request-line":
        request_line = "GET %s" % r["target"]
    elif mut == "fragment":
        request_line = "GET %s#frag HTTP/1.1" % r["target"]
    host = r["host"]
    if mut == "host-port-mismatch":
        host = "localhost:9001"
    if mut == "host-port-garbage":
        host = "localhost:abc"
    if mut != "no-host":
        add("Host", host)
    if mut == "dup-host":
        add("Host", host)
    if mut == "upgrade-other":
        add("Upgrade", "h2c")
    elif mut == "non-ascii-upgrade":
        add("Upgrade", "websock\xe9t")
    elif mut != "no-upgrade":
        add("Upgrade", r["upgrade"])
    if mut == "connection-close":
        add("Connection", "close")
    elif mut == "non-ascii-connection":
        add("Connection", "Upgr\xe4de")
    elif mut != "no-connection":
        add("Connection", r["connection"])
    key = r["key"]
    if mut == "key-short":
        key = key[:-3] + "=="[:1] + "="      # 23 chars
        key = r["key"][:21] + "=="
    elif mut == "key-long":
        key = r["key"][:22] + "A=="
    elif mut == "key-badchar":
        key = "!" + r["key"][1:]
    elif mut == "key-nopad":
        key = r["key"][:22] + "AA"
    elif mut == "non-ascii-key":
        k = r["shuffle"] % 22
        key = r["key"][:k] + "\xe9" + r["key"][k + 1:]
    if mut != "no-key":
        add("Sec-WebSocket-Key", key)
    if mut == "dup-key":
        add("Sec-WebSocket-Key", key)
    ver = str(r["version"])
    if mut == "version-unsupported":
        ver = {"7": "7", "9": "9", "12": "12", "14": "14", "0": "0", "-1": "-1"}.get(c["bad_version"], "7")
        if int(ver) in c["cfg"]["versions"]:
            ver = "7"
    if mut == "version-garbage":
        ver = c["bad_version"] if c["bad_version"] in ("abc", "", "13.0") else "abc"
    if mut == "non-ascii-version":
        ver = "1\xb3"          # (superscript three: str.isdigit() is true for it)
    if mut != "no-version":
        add("Sec-WebSocket-Version", ver)
    if mut == "dup-version":
        add("Sec-WebSocket-Version", ver)
    if r["origin"] is not None:
        add("Origin" if r["version"] >= 13 else "Sec-WebSocket-Origin", r["origin"])
    protos = r["protocols"]
    if mut == "dup-protocol":
        protos = ["a", "b", "a"]
    if protos:
        add("Sec-WebSocket-Protocol", ", ".join(protos))
    if r["extensions"]:
        add("Sec-WebSocket-Extensions", r["extensions"])
    for e in r["extra"]:
        k, v = e.split(":", 1)
        add(k, v.strip())
    # shuffle header order deterministically, vary the name case
    import random
    rnd = random.Random(r["shuffle"])
    rnd.shuffle(H)
    style = r["case_style"]
    lines = [request_line]
    for k, v in H:
        k2 = k.lower() if style == "lower" else (k.upper() if style == "upper" else k)
        lines.append("%s: %s" % (k2, v))
    return ("\r\n".join(lines) + "\r\n\r\n").encode("latin-1"), key, protos


def expected_server(c):
    """is the (possibly mutated) request acceptable for this configuration? -> (valid, reason)"""
    cfg, r, mut = c["cfg"], c["req"], c["mut"]
    if mut == "host-port-mismatch" and not cfg["externalPort"]:
        mut = "none"          # the Host port is only checked against a configured externalPort
    if mut not in ("none", "origin-denied"):
        return False, mut
    if r["origin"] is not None:
        if not ref_origin_allowed(r["origin"], cfg["allowedOrigins"], cfg["allowNullOrigin"]):
            return False, "origin-not-allowed"
    elif mut == "origin-denied":
        return True, "no-origin"
    if cfg["externalPort"]:
        h = r["host"]
        if h.endswith("]"):
            port = None
        elif ":" in h:
            port = int(h.rsplit(":", 1)[1])
        else:
            port = None
        if port is not None and port != cfg["externalPort"]:
            return False, "port-mismatch"
    return True, "valid"


def run_server_case(c, split):
    from harness import drv, wsutil
    cfg = c["cfg"]
    d = drv.get_driver()
    try:
        chosen = {}

        def on_connect(proto, request):
            for p in cfg["server_protocols"]:
                if p in request.protocols:
                    chosen["p"] = p
                    return p
            return None
        opts = {"versions": cfg["versions"], "allowedOrigins": cfg["allowedOrigins"], "allowNullOrigin": cfg["allowNullOrigin"], "maxConnections": cfg["maxConnections"],
                "webStatus": cfg["webStatus"], "openHandshakeTimeout": 0}
        if cfg["deflate"]:
            from autobahn.websocket.compress import PerMessageDeflateOffer, PerMessageDeflateOfferAccept
            opts["perMessageCompressionAccept"] = lambda offers: next((PerMessageDeflateOfferAccept(o) for o in offers if isinstance(o, PerMessageDeflateOffer)), None)
        side = wsutil.server(d, url="ws://localhost:9000", opts=opts, hooks={"onConnect": on_connect}, externalPort=cfg["externalPort"])
        others = []
        for _ in range(c["nopen"]):
            o = d.connect(side.factory)
            o.feed(wsutil.raw_request())
            others.append(o)
        d.settle()
        side.log[:] = []
        ep = side.connect()
        data, key, protos = build_request(c)
        tail = b""
        if c["with_frame"]:
            from harness import ref6455
            tail = ref6455.encode_frame(1, b"first", mask=b"abcd")
        stream = data + tail
        if split == "one":
            ep.feed(stream)
        elif split == "bytes":
            for i in range(len(stream)):
                ep.feed(stream[i:i + 1])
        elif split == "two":
            k = len(data) - 2
            ep.feed(stream[:k])
            ep.feed(stream[k:])
        else:
            for ln in stream.split(b"\n"):
                ep.feed(ln + b"\n")
        d.settle()
        out = ep.t.all_written()
        opened = side.count("open")
        msgs = side.msgs()
        return {"out": out, "opened": opened, "dropped": ep.drop_requested, "escaped": list(ep.escaped) + list(d.loop_errors), "key": key, "protos": protos,
                "chosen": chosen.get("p"), "msgs": msgs, "state": side.proto.state, "pmce": getattr(side.proto, "_perMessageCompress", None) is not None}
    finally:
        d.close()


def judge_server(c, obs, case):
    from harness import wsutil
    valid, why = expected_server(c)
    key = "C07|server"
    if obs["escaped"]:
        e = obs["escaped"][0]
        raise Violation("%s|exception-escaped|%s" % (key, exc_key(e) if isinstance(e, Exception) else "loop"), "mutation=%s: %r" % (c["mut"], e), case)
    if obs["opened"] > 1:
        raise Violation(key + "|onOpen-twice", "", case)
    if not valid:
        if obs["opened"]:
            raise Violation("%s|invalid-request-admitted|%s" % (key, why), "request with fault %r opened the connection (config %r)" % (why, c["cfg"]), case)
        if not obs["dropped"] and not obs["out"].startswith(b"HTTP/1.1 "):
            raise Violation("%s|invalid-request-neither-answered-nor-dropped|%s" % (key, why), "out=%r" % obs["out"][:80], case)
        if obs["out"].startswith(b"HTTP/1.1 101"):
            raise Violation("%s|101-for-invalid-request|%s" % (key, why), "", case)
        if obs["msgs"]:
            raise Violation("%s|message-delivered-without-handshake|%s" % (key, why), "", case)
        return
    if not obs["opened"]:
        raise Violation("%s|valid-request-refused" % key, "response %r; request fields %r; config %r" % (obs["out"][:120], c["req"], c["cfg"]), case)
    parsed = wsutil.split_http(obs["out"])
    if not parsed or not parsed[0].startswith("HTTP/1.1 101"):
        raise Violation(key + "|opened-without-101", repr(obs["out"][:80]), case)
    hdrs = {}
    for k, v in parsed[1]:
        hdrs.setdefault(k, []).append(v)
    if hdrs.get("sec-websocket-accept") != [accept_for(obs["key"])]:
        raise Violation(key + "|wrong-accept-digest", "got %r expected %r" % (hdrs.get("sec-websocket-accept"), accept_for(obs["key"])), case)
    sp = hdrs.get("sec-websocket-protocol")
    if sp is not None:
        if len(sp) != 1 or sp[0] not in (obs["protos"] or []):
            raise Violation(key + "|subprotocol-not-from-client-list", "%r not in %r" % (sp, obs["protos"]), case)
    if (sp[0] if sp else None) != obs["chosen"]:
        raise Violation(key + "|subprotocol-differs-from-onConnect-choice", "%r vs %r" % (sp, obs["chosen"]), case)
    ext = hdrs.get("sec-websocket-extensions")
    offered = c["req"]["extensions"] or ""
    if ext is not None:
        for e in ",".join(ext).split(","):
            name = e.split(";")[0].strip().lower()
            if name not in [x.split(";")[0].strip().lower() for x in offered.split(",")]:
                raise Violation(key + "|extension-not-offered", "%r in response, offered %r" % (name, offered), case)
        if not c["cfg"]["deflate"]:
            raise Violation(key + "|extension-without-policy", repr(ext), case)
    if c["with_frame"] and obs["msgs"] != [(False, b"first")]:
        raise Violation(key + "|frame-following-handshake-lost", "messages %r" % (obs["msgs"],), case)


def server_side(col, seed, n):
    def body(c):
        base = None
        for split in ("one", c["split"]) if c["split"] != "one" else ("one", "bytes"):
            case = dict(c, check="server", split=split)
            obs = run_server_case(c, split)
            judge_server(c, obs, case)
            summary = (obs["opened"], obs["out"].split(b"\r\n", 1)[0], bool(obs["dropped"]))
            if base is None:
                base = summary
            elif summary != base:
                raise Violation("C07|server|segmentation-dependent-verdict", "%r vs %r (split %s)" % (base, summary, split), case)
        valid, why = expected_server(c)
        adj = c["req"]["origin"] is not None and c["cfg"]["allowedOrigins"] != ["*"]
        col.case(c["mut"] != "none" or adj, dig=c, cls=["server/" + ("valid" if valid else "invalid:" + why)] + (["server/origin-adjacent"] if adj else []),
                 sample={"mut": c["mut"], "cfg": c["cfg"], "origin": c["req"]["origin"], "valid": valid})
    run_hypothesis(col, "server", server_strategy(), body, n, seed)


# ---------------------------------------------------------------- (b) client side

CLIENT_MUT = ["none", "none", "status-200", "status-400", "status-garbage", "http10", "short-status-line", "wrong-digest", "truncated-digest", "no-accept", "dup-accept", "no-upgrade",
              "upgrade-other", "no-connection", "connection-close", "subprotocol-not-requested", "dup-subprotocol-header", "extension-not-offered", "extension-unknown",
              "non-utf8-header", "non-utf8-reason", "empty-status",
              # octets >= 0x80 inside each element the client has to judge
              "non-ascii-digest", "non-ascii-digest-tail", "non-ascii-upgrade", "non-ascii-connection", "non-ascii-subprotocol", "non-ascii-extension", "non-ascii-status-code"]


def client_side(col, seed, n):
    from hypothesis import strategies as st
    strat = st.fixed_dictionaries({
        "mut": st.sampled_from(CLIENT_MUT), "protocols": st.sampled_from([[], ["wamp.2.json"], ["a", "b"], ["wamp.2.json", "wamp.2.msgpack"]]), "offer_deflate": st.booleans(), "seed": st.integers(0, 63),
        "pick": st.integers(0, 3), "split": st.sampled_from(["one", "bytes", "two"]), "with_frame": st.booleans(), "version": st.sampled_from([18, 13, 10, 12]),
        "url": st.sampled_from(["ws://localhost:9000", "ws://example.com/chat?x=1", "ws://[::1]:8080/p"])})

    def body(c):
        base = None
        for split in ("one", c["split"]) if c["split"] != "one" else ("one", "bytes"):
            obs = run_client_case(c, split)
            case = dict(c, check="client", split=split)
            valid = c["mut"] in ("none", "non-utf8-header", "non-utf8-reason")    # extra header / reason phrase octets are ISO-8859-1: still a valid 101
            if obs["escaped"]:
                e = obs["escaped"][0]
                raise Violation("C07|client|exception-escaped|%s|%s" % (c["mut"], exc_key(e) if isinstance(e, Exception) else "loop"), repr(e)[:300], case)
            if valid:
                if obs["opened"] != 1:
                    raise Violation("C07|client|valid-response-refused", "log %r" % (obs["log"],), case)
                if obs["proto_in_use"] != obs["sent_proto"]:
                    raise Violation("C07|client|subprotocol-in-use-differs", "%r vs %r" % (obs["proto_in_use"], obs["sent_proto"]), case)
                if c["with_frame"] and obs["msgs"] != [(False, b"first")]:
                    raise Violation("C07|client|frame-following-handshake-lost", repr(obs["msgs"]), case)
            else:
                if obs["opened"]:
                    raise Violation("C07|client|invalid-response-admitted|" + c["mut"], "client opened on a response with fault %r" % c["mut"], case)
                if not obs["dropped"]:
                    raise Violation("C07|client|invalid-response-not-dropped|" + c["mut"], "", case)
                if obs["msgs"]:
                    raise Violation("C07|client|message-delivered-without-handshake|" + c["mut"], "", case)
            summary = (obs["opened"], bool(obs["dropped"]))
            if base is None:
                base = summary
            elif summary != base:
                raise Violation("C07|client|segmentation-dependent-verdict", "%r vs %r" % (base, summary), case)
        col.case(c["mut"] != "none", dig=c, cls=["client/" + c["mut"]], sample=c)
    run_hypothesis(col, "client", strat, body, n, seed)


def run_client_case(c, split):
    from harness import drv, wsutil, ref6455
    d = drv.get_driver()
    try:
        opts = {"version": c["version"], "openHandshakeTimeout": 0}
        if c["offer_deflate"]:
            from autobahn.websocket.compress import PerMessageDeflateOffer, PerMessageDeflateResponseAccept, PerMessageDeflateResponse
            opts["perMessageCompressionOffers"] = [PerMessageDeflateOffer()]
            opts["perMessageCompressionAccept"] = lambda r: PerMessageDeflateResponseAccept(r) if isinstance(r, PerMessageDeflateResponse) else None
        side = wsutil.client(d, url=c["url"], opts=opts, protocols=c["protocols"])
        ep = side.connect()
        d.settle()
        req = ep.take()
        parsed = wsutil.split_http(req)
        if not parsed:
            raise Violation("C07|client|no-request-written", repr(req[:80]), c)
        key = dict(parsed[1]).get("sec-websocket-key")
        mut = c["mut"]
        status = "HTTP/1.1 101 Switching Protocols"
        status = {"status-200": "HTTP/1.1 200 OK", "status-400": "HTTP/1.1 400 Bad", "status-garbage": "HTTP/1.1 abc nope", "http10": "HTTP/1.0 101 Switching Protocols",
                  "short-status-line": "HTTP/1.1", "empty-status": "", "non-utf8-reason": "HTTP/1.1 101 Sw\xeftching", "non-ascii-status-code": "HTTP/1.1 1\xb2 Switching Protocols"}.get(mut, status)
        H = []
        if mut == "upgrade-other":
            H.append("Upgrade: h2c")
        elif mut == "non-ascii-upgrade":
            H.append("Upgrade: websock\xe9t")
        elif mut != "no-upgrade":
            H.append("Upgrade: websocket")
        if mut == "connection-close":
            H.append("Connection: close")
        elif mut == "non-ascii-connection":
            H.append("Connection: Upgr\xe4de")
        elif mut != "no-connection":
            H.append("Connection: Upgrade")
        acc = accept_for(key)
        if mut == "wrong-digest":
            acc = accept_for(base64.b64encode(b"0123456789abcdef").decode())
        if mut == "truncated-digest":
            acc = acc[:-4]
        if mut == "non-ascii-digest":
            k = c.get("seed", 0) % len(acc)
            acc = acc[:k] + "\xe9" + acc[k + 1:]
        if mut == "non-ascii-digest-tail":
            acc = acc + "\xff"
        if mut != "no-accept":
            H.append("Sec-WebSocket-Accept: " + acc)
        if mut == "dup-accept":
            H.append("Sec-WebSocket-Accept: " + acc)
        sent_proto = None
        if c["protocols"] and c["pick"] < len(c["protocols"]):
            sent_proto = c["protocols"][c["pick"]]
        if mut == "subprotocol-not-requested":
            # a name the client did not request: unrelated, or *adjacent* to the requested ones (prefix, suffix, substring, the joined list, other case, padded)
            req = c["protocols"]
            near = ["evil.proto"]
            if req:
                near += [req[0][:-1] or "x", req[0] + "x", req[0][1:] or "y", ",".join(req), ", ".join(req), req[0].upper() if req[0].upper() != req[0] else req[0].lower() + "_", req[0].split(".")[0] + "."]
            near = [x for x in near if x and x not in req and x.strip() not in req]
            sent_proto = near[c.get("seed", c.get("pick", 0)) % len(near)] if near else "evil.proto"
        if mut == "non-ascii-subprotocol":
            sent_proto = ((c["protocols"][0][:-1] if c["protocols"] else "wamp") + "\xe9")
        if sent_proto:
            H.append("Sec-WebSocket-Protocol: " + sent_proto)
        if mut == "dup-subprotocol-header":
            H.append("Sec-WebSocket-Protocol: " + (sent_proto or "a"))
            H.append("Sec-WebSocket-Protocol: " + (sent_proto or "a"))
        if mut == "extension-not-offered" and not c["offer_deflate"]:
            H.append("Sec-WebSocket-Extensions: permessage-deflate")
        elif mut == "extension-not-offered":
            H.append("Sec-WebSocket-Extensions: permessage-bzip2")
        elif mut == "extension-unknown":
            H.append("Sec-WebSocket-Extensions: x-foo-bar")
        elif mut == "non-ascii-extension":
            H.append("Sec-WebSocket-Extensions: permessage-deflat\xe9" if c["pick"] % 2 else "Sec-WebSocket-Extensions: permessage-deflate; server_max_window_bits=1\xb2")
        elif c["offer_deflate"] and c["pick"] % 2 == 0:
            H.append("Sec-WebSocket-Extensions: permessage-deflate")
        if mut == "non-utf8-header":
            H.append("X-Bin: \xff\xfe\xfd")
        resp = ("\r\n".join([status] + H) + "\r\n\r\n").encode("latin-1")
        tail = b""
        if c["with_frame"]:
            compressed = any("permessage-deflate" in h for h in H)
            tail = ref6455.encode_frame(1, b"first")
        stream = resp + tail
        if split == "one":
            ep.feed(stream)
        elif split == "bytes":
            for i in range(len(stream)):
                ep.feed(stream[i:i + 1])
        else:
            ep.feed(stream[:len(resp) - 1])
            ep.feed(stream[len(resp) - 1:])
        d.settle()
        return {"opened": side.count("open"), "dropped": ep.drop_requested, "escaped": list(ep.escaped) + list(d.loop_errors), "log": side.log[:4], "msgs": side.msgs(),
                "proto_in_use": getattr(side.proto, "websocket_protocol_in_use", None), "sent_proto": sent_proto if mut != "dup-subprotocol-header" else None}
    finally:
        d.close()


# ---------------------------------------------------------------- (c) URL -> request

def urls(col, seed, n):
    from hypothesis import strategies as st
    from harness import drv, wsutil
    from urllib.parse import quote
    host = st.sampled_from(["localhost", "example.com", "a.b-c.example.org", "127.0.0.1", "[::1]", "[2001:db8::1]"])
    # unreserved characters and percent-escapes (space, '/', '?', '#', '%', non-ASCII): the request target must carry them exactly as written in the URL
    seg = st.lists(st.sampled_from(list("abcXYZ019-_~.") + ["%20", "%2F", "%3F", "%23", "%25", "%C3%A4", "%e2%82%ac"]), min_size=1, max_size=6).map("".join)
    path = st.lists(seg, max_size=3).map(lambda p: "/" + "/".join(p) if p else "")
    query = st.one_of(st.just(""), st.lists(st.tuples(seg, seg), min_size=1, max_size=3).map(lambda kv: "?" + "&".join("%s=%s" % x for x in kv)))
    strat = st.tuples(st.sampled_from(["ws", "wss"]), host, st.one_of(st.none(), st.sampled_from([80, 443, 8080, 9000, 1, 65535])), path, query)

    def body(t):
        url_one(col, *t)
    run_hypothesis(col, "url", strat, body, n, seed)


def url_one(col, scheme, h, port, p, q):
    from harness import drv, wsutil
    if True:
        url = "%s://%s%s%s%s" % (scheme, h, ":%d" % port if port else "", p, q)
        case = {"check": "url", "url": url, "parts": [scheme, h, port, p, q]}
        d = drv.get_driver()
        try:
            side = wsutil.client(d, url=url, opts={"openHandshakeTimeout": 0})
            f = side.factory
            ep = side.connect()
            d.settle()
            req = ep.take()
            parsed = wsutil.split_http(req)
            if not parsed:
                raise Violation("C07|url|no-request", url, case)
            rl = parsed[0].split(" ")
            want_target = (p or "/") + q
            if len(rl) != 3 or rl[0] != "GET" or rl[2] != "HTTP/1.1" or rl[1] != want_target:
                raise Violation("C07|url|request-target-differs", "url %s -> request line %r (expected target %r)" % (url, parsed[0], want_target), case)
            hh = dict(parsed[1]).get("host", "")
            want_port = port or (443 if scheme == "wss" else 80)
            hostpart, _, portpart = hh.rpartition(":")
            if portpart != str(want_port) or hostpart.strip("[]").lower() != h.strip("[]").lower():
                raise Violation("C07|url|host-header-differs", "url %s -> Host %r" % (url, hh), case)
            if f.port != want_port or f.host.strip("[]") != h.strip("[]") or f.isSecure != (scheme == "wss"):
                raise Violation("C07|url|factory-target-differs", "url %s -> host=%r port=%r secure=%r" % (url, f.host, f.port, f.isSecure), case)
        finally:
            d.close()
        col.case(port is None or h.startswith("[") or "%" in url, dig=url, cls=["url/" + scheme, "url/" + ("ipv6" if h.startswith("[") else "name")] + (["url/percent-escapes"] if "%" in url else []), sample=url)


# ---------------------------------------------------------------- (c') connection limit over a history of connections

def connlimit_one(c):
    """one server factory with maxConnections=N; a history of peers connecting (valid or invalid handshake) and of established/rejected connections going away.
    A valid handshake is completed iff fewer than N connections are established at that moment."""
    from harness import drv, wsutil
    d = drv.get_driver()
    try:
        side = wsutil.server(d, opts={"maxConnections": c["limit"], "openHandshakeTimeout": 0, "closeHandshakeTimeout": 0})
        established = []
        for k, op in enumerate(c["ops"]):
            if op[0] == "connect":
                ep = d.connect(side.factory, peer=("127.0.0.1", 40000 + k))
                ep.feed(wsutil.raw_request() if op[1] == "valid" else wsutil.raw_request(version=99))
                d.settle()
                out = ep.take()
                status = out.split(b" ", 2)[1] if out.startswith(b"HTTP/1.1 ") and out.count(b" ") >= 2 else None
                if ep.escaped or d.loop_errors:
                    raise Violation("C07|connlimit|exception-escaped", repr((ep.escaped or d.loop_errors)[0])[:300], c)
                if op[1] == "valid":
                    room = len(established) < c["limit"]
                    if room and status != b"101":
                        raise Violation("C07|connlimit|refused-below-limit", "op #%d: %d established, limit %d, response %r" % (k, len(established), c["limit"], out[:60]), c)
                    if not room and status == b"101":
                        raise Violation("C07|connlimit|admitted-above-limit", "op #%d: %d connections established, limit %d, yet the handshake was completed" % (k, len(established), c["limit"]), c)
                elif status == b"101":
                    raise Violation("C07|connlimit|invalid-handshake-admitted", repr(out[:60]), c)
                if status == b"101":
                    established.append(ep)
                else:
                    if not ep.drop_requested:
                        raise Violation("C07|connlimit|rejected-connection-not-dropped", "op #%d response %r" % (k, out[:60]), c)
                    ep.deliver_loss("done")     # the refused connection goes away
                    d.settle()
            elif established:
                ep = established.pop(op[1] % len(established))
                ep.deliver_loss("lost")
                d.settle()
        return len(established)
    finally:
        d.close()


def connlimit(col, seed, n):
    from hypothesis import strategies as st
    strat = st.fixed_dictionaries({"limit": st.integers(1, 3), "ops": st.lists(st.one_of(
        st.tuples(st.just("connect"), st.sampled_from(["valid", "valid", "valid", "invalid"])), st.tuples(st.just("close"), st.integers(0, 8))), min_size=2, max_size=14)})

    def body(c):
        case = dict(c, check="connlimit")
        connlimit_one(case)
        rejected = 0
        est = 0
        for op in c["ops"]:
            if op[0] == "connect" and op[1] == "valid":
                if est >= c["limit"]:
                    rejected += 1
                else:
                    est += 1
            elif op[0] == "close" and est:
                est -= 1
        col.case(rejected >= 1, dig=c, cls=["connlimit/limit:%d" % c["limit"]] + (["connlimit/rejection-then-more-connects"] if rejected >= 1 else []), sample=c)
    run_hypothesis(col, "connlimit", strat, body, n, seed)


# ---------------------------------------------------------------- (d) robustness

def robust_one(col, role, data, split, webstatus, judge_client_open=True):
    """junk octets into an endpoint that awaits the opening handshake: nothing escapes, no session opens on invalid octets, same verdict under every split"""
    from harness import drv, wsutil
    case = {"check": "robust", "role": role, "data": data, "split": split, "webstatus": webstatus}
    results = []
    for sp in ("one", split) if split != "one" else ("one",):
        d = drv.get_driver()
        try:
            if role == "server":
                # webstatus == "flash": the server additionally serves a Flash socket policy file for a policy-file request (and drops the connection)
                side = wsutil.server(d, opts={"webStatus": bool(webstatus), "openHandshakeTimeout": 0, "serveFlashSocketPolicy": webstatus == "flash"})
            else:
                side = wsutil.client(d, opts={"openHandshakeTimeout": 0})
            ep = side.connect()
            d.settle()
            ep.take()
            if sp == "one":
                ep.feed(data)
            elif sp == "bytes":
                step = 1 if len(data) < 2000 else 997
                for i in range(0, len(data), step):
                    ep.feed(data[i:i + step])
            else:
                ep.feed(data[:len(data) // 2])
                ep.feed(data[len(data) // 2:])
            d.settle()
            esc = list(ep.escaped) + list(d.loop_errors)
            if esc:
                e = esc[0]
                ek = exc_key(e) if isinstance(e, Exception) else ("loop|" + (exc_key(e.get("exception")) if isinstance(e, dict) and e.get("exception") else "?"))
                raise Violation("C07|robust|%s|exception-escaped|%s" % (role, ek), "%r on %r" % (e, data[:80]), case)
            opened = side.count("open")
            if opened and role == "server" and not ref_request_valid(data, {"versions": [8, 13]}):
                raise Violation("C07|robust|server-opened-on-invalid-octets", repr(data[:120]), case)
            if opened and role == "client" and judge_client_open:
                raise Violation("C07|robust|client-opened-on-junk", repr(data[:120]), case)
            results.append((opened, bool(ep.drop_requested)))
        finally:
            d.close()
    if len(set(results)) > 1:
        raise Violation("C07|robust|segmentation-dependent-verdict", "%r for %r" % (results, data[:80]), case)
    col.case(b"\r\n\r\n" in data, dig=[role, data, webstatus], cls=["robust/" + role + ("/with-crlfcrlf" if b"\r\n\r\n" in data else "/no-terminator")], sample={"role": role, "data": data[:60]})


def robustness(col, seed, n):
    from hypothesis import strategies as st
    from harness import drv, wsutil
    valid_req = wsutil.raw_request()
    junk = st.one_of(
        st.binary(max_size=200),
        st.binary(max_size=60).map(lambda b: b + b"\r\n\r\n"),
        st.binary(max_size=40).map(lambda b: b"GET / HTTP/1.1\r\n" + b + b"\r\n\r\n"),
        st.lists(st.sampled_from([b"GET / HTTP/1.1", b"Host: x", b"Host:", b": novalue", b"Upgrade: websocket", b"Connection: Upgrade", b"Sec-WebSocket-Key: AAECAwQFBgcICQoLDA0ODw==",
                                  b"Sec-WebSocket-Version: 13", b"Sec-WebSocket-Version: 8", b"\xff\xfe\x00garbage", b"Origin: http://[", b"Origin: \xe9", b"Sec-WebSocket-Protocol: ,,",
                                  b"Sec-WebSocket-Extensions: ;;;=,", b"Sec-WebSocket-Extensions: permessage-deflate; client_max_window_bits=\"", b"HTTP/1.1 101 Switching Protocols",
                                  b"Sec-WebSocket-Accept: x", b"", b" ", b"GET /?redirect=http://[&after=abc HTTP/1.1", b"GET /?redirect=http%3A%2F%2Fx&after=-1 HTTP/1.1",
                                  b"GET http://[::1/ HTTP/1.1", b"X" * 300]), max_size=10).map(lambda ls: b"\r\n".join(ls) + b"\r\n\r\n"),
        st.tuples(st.sampled_from([b"/", b"/?redirect=http%3A%2F%2Fcrossbar.io", b"/?redirect=http%3A%2F%2Fx.org&after=3", b"/?redirect=http%3A%2F%2Fx.org&after=abc",
                                   b"/?redirect=http%3A%2F%2Fx.org&after=-1", b"/?redirect=http://[", b"/?redirect=http://[::1", b"/?redirect=%00&after=", b"/?redirect=&after=1",
                                   b"/?redirect=//x&after=1e3", b"/?after=5", b"/?redirect=javascript:alert(1)", b"/?redirect=http%3A%2F%2Fx.org%0d%0aSet-Cookie:%20a=b"]),
                  st.sampled_from([b"Host: localhost:9000", b"Host: x", b"Host: [::1]:9000"]), st.lists(st.sampled_from([b"Accept: */*", b"Connection: keep-alive", b"User-Agent: \xe9"]), max_size=2)
                  ).map(lambda t: b"GET " + t[0] + b" HTTP/1.1\r\n" + t[1] + b"\r\n" + b"".join(x + b"\r\n" for x in t[2]) + b"\r\n"),
        st.tuples(st.integers(0, len(valid_req) - 1), st.integers(0, 255)).map(lambda t: valid_req[:t[0]] + bytes([t[1]]) + valid_req[t[0] + 1:]),
        st.integers(0, len(valid_req)).map(lambda k: valid_req[:k]),
        st.just(b"GET / HTTP/1.1\r\n" + b"X-Pad: " + b"a" * 70000 + b"\r\n"),
        st.just(b"\r\n\r\n"), st.just(b"<policy-file-request/>\x00"))
    strat = st.tuples(st.sampled_from(["server", "server", "client"]), junk, st.sampled_from(["one", "bytes", "halves"]), st.sampled_from([False, True, True, "flash"]))

    def body(t):
        robust_one(col, *t)
    run_hypothesis(col, "robust", strat, body, n, seed)


# ---------------------------------------------------------------- (e) interop matrix

def interop(col, seed, n):
    from hypothesis import strategies as st
    strat = st.fixed_dictionaries({
        "cversion": st.sampled_from([10, 11, 12, 13, 14, 15, 16, 17, 18]), "sversions": st.sampled_from([[8, 13], [13], [8]]),
        "cprotos": st.sampled_from([[], ["a"], ["a", "b"], ["wamp.2.json", "wamp.2.cbor"]]), "sprotos": st.sampled_from([[], ["b", "a"], ["wamp.2.cbor"], ["zzz"]]),
        "origin": st.sampled_from([None, "http://good.com", "null"]), "headers": st.sampled_from([None, {"X-Custom": "1"}, {"Cookie": "a=b"}]),
        "coffer": st.booleans(), "saccept": st.booleans(),
        # non-default offers (accept_no_context_takeover, accept_max_window_bits, request_no_context_takeover, request_max_window_bits) and server policies
        # (ask the client for no-context-takeover / a window limit; RFC 7692 lets a server ask for the former even when the offer carries no hint)
        "offer_p": st.one_of(st.none(), st.tuples(st.booleans(), st.booleans(), st.booleans(), st.sampled_from([0, 9, 12, 15]))),
        "accept_p": st.one_of(st.none(), st.fixed_dictionaries({"rnct": st.booleans(), "rmwb": st.sampled_from([0, 9, 12])})), "useragent": st.sampled_from([None, "", "ua/1"]), "schedule": st.lists(st.tuples(st.integers(0, 1), st.integers(1, 40)), max_size=8)})

    def body(c):
        from harness import drv, wsutil
        from autobahn.websocket.protocol import WebSocketProtocol
        if WebSocketProtocol.SPEC_TO_PROTOCOL_VERSION[c["cversion"]] not in c["sversions"]:
            return
        case = dict(c, check="interop")
        d = drv.get_driver()
        try:
            copts = {"version": c["cversion"], "openHandshakeTimeout": 0}
            sopts = {"versions": c["sversions"], "allowNullOrigin": True, "openHandshakeTimeout": 0}
            if c["coffer"]:
                from autobahn.websocket.compress import PerMessageDeflateOffer, PerMessageDeflateResponseAccept
                copts["perMessageCompressionOffers"] = [PerMessageDeflateOffer(*c["offer_p"]) if c.get("offer_p") else PerMessageDeflateOffer()]
                copts["perMessageCompressionAccept"] = lambda r: PerMessageDeflateResponseAccept(r)
            if c["saccept"]:
                from autobahn.websocket.compress import PerMessageDeflateOfferAccept
                ap = c.get("accept_p") or {"rnct": False, "rmwb": 0}
                sopts["perMessageCompressionAccept"] = lambda offers: PerMessageDeflateOfferAccept(
                    offers[0], request_no_context_takeover=ap["rnct"], request_max_window_bits=(ap["rmwb"] if offers[0].accept_max_window_bits else 0))

            def on_connect(proto, request):
                for p in c["sprotos"]:
                    if p in request.protocols:
                        return p
                return None
            srv = wsutil.server(d, opts=sopts, hooks={"onConnect": on_connect})
            kw = {"protocols": c["cprotos"]}
            if c["origin"]:
                kw["origin"] = c["origin"]
            if c["headers"]:
                kw["headers"] = c["headers"]
            if c["useragent"] is not None:
                kw["useragent"] = c["useragent"]
            cli = wsutil.client(d, opts=copts, **kw)
            se, ce = srv.connect(), cli.connect()
            pipe = wsutil.Pipe(d, ce, se)
            pipe.run(c["schedule"])
            esc = list(se.escaped) + list(ce.escaped) + list(d.loop_errors)
            if esc:
                raise Violation("C07|interop|exception-escaped|" + (exc_key(esc[0]) if isinstance(esc[0], Exception) else "loop"), repr(esc[0])[:300], case)
            if srv.count("open") != 1 or cli.count("open") != 1:
                raise Violation("C07|interop|library-pair-did-not-open", "server log %r client log %r; server wrote %r" % (srv.log, cli.log, se.t.all_written()[:100]), case)
            sp, cp_ = srv.proto.websocket_protocol_in_use, cli.proto.websocket_protocol_in_use
            want = next((p for p in c["sprotos"] if p in c["cprotos"]), None)
            if sp != cp_ or sp != want:
                raise Violation("C07|interop|subprotocol-disagreement", "server %r client %r expected %r" % (sp, cp_, want), case)
            se_, ce_ = srv.proto._perMessageCompress is not None, cli.proto._perMessageCompress is not None
            if se_ != ce_ or se_ != (c["coffer"] and c["saccept"]):
                raise Violation("C07|interop|extension-disagreement", "server %r client %r expected %r" % (se_, ce_, c["coffer"] and c["saccept"]), case)
        finally:
            d.close()
        col.case(True, dig=c, cls=["interop/v%d" % c["cversion"], "interop/" + ("deflate" if c["coffer"] and c["saccept"] else "plain")], sample=c)
    run_hypothesis(col, "interop", strat, body, n, seed)


def replay(col, case):
    case = dec(case)
    c = case.get("case", case)
    kind = c.get("check")
    if kind == "server":
        obs = run_server_case(c, c.get("split", "one"))
        judge_server(c, obs, c)
    elif kind == "client":
        obs = run_client_case(c, c.get("split", "one"))
        if obs["escaped"]:
            e = obs["escaped"][0]
            raise Violation("C07|client|exception-escaped|%s|%s" % (c["mut"], exc_key(e) if isinstance(e, Exception) else "loop"), repr(e)[:300], c)
        if c["mut"] not in ("none", "non-utf8-header", "non-utf8-reason") and obs["opened"]:
            raise Violation("C07|client|invalid-response-admitted|" + c["mut"], "", c)
    elif kind == "url":
        if "parts" in c:
            url_one(col, *c["parts"])
        else:       # older replay files carry the URL only
            import re as _re
            m = _re.match(r"^(wss?)://(\[[^\]]+\]|[^:/?]+)(?::(\d+))?([^?]*)(\?.*)?$", c["url"])
            url_one(col, m.group(1), m.group(2), int(m.group(3)) if m.group(3) else None, m.group(4), m.group(5) or "")
        return
    elif kind == "connlimit":
        c["ops"] = [tuple(o) for o in c["ops"]]
        connlimit_one(c)
    elif kind == "robust":
        robust_one(col, c["role"], c["data"], c.get("split", "one"), c.get("webstatus", True), judge_client_open=c.get("judge_client_open", True))
        return
    col.case()


# ---------------------------------------------------------------- coverage-guided second opinion (atheris, thorough tier)

def _fuzz_handshake_make(col):
    """first octet: role (server / server+webStatus / client) and split; the rest is what the peer sends instead of (or as) its opening handshake"""
    def one(data):
        if len(data) < 1:
            return
        sel = data[0]
        role, webstatus = [("server", False), ("server", True), ("client", False), ("server", True)][sel & 3]
        split = ["one", "bytes", "halves", "one"][(sel >> 2) & 3]
        # a client can only be opened by a response carrying the accept value for its own (random) key: not judged for fuzzed octets
        robust_one(col, role, data[1:], split, webstatus, judge_client_open=False)
    return one


def _fuzz_handshake_seeds():
    from harness import wsutil
    req = wsutil.raw_request()
    out = [bytes([0]) + req, bytes([1]) + req, bytes([5]) + wsutil.raw_request(version=8, origin="http://example.com"), bytes([9]) + wsutil.raw_request(extensions="permessage-deflate; client_max_window_bits"),
           bytes([1]) + b"GET /?redirect=http%3A%2F%2Fx.org&after=3 HTTP/1.1\r\nHost: localhost:9000\r\n\r\n",
           bytes([2]) + wsutil.raw_response(None) if False else bytes([2]) + b"HTTP/1.1 101 Switching Protocols\r\nUpgrade: websocket\r\nConnection: Upgrade\r\nSec-WebSocket-Accept: AAAAAAAAAAAAAAAAAAAAAAAAAAA=\r\n\r\n",
           bytes([2]) + b"HTTP/1.1 404 Not Found\r\nServer: x\r\n\r\n"]
    return out


FUZZ = {"handshake": {"make": _fuzz_handshake_make, "seeds": _fuzz_handshake_seeds, "imports": ["autobahn.websocket.protocol", "autobahn.websocket.util", "autobahn.util"]}}


def fuzz(col, target, runs, seed, max_len=1024):
    from harness import fuzzjob
    fuzzjob.run(col, "c07_ws_handshake", target, runs, seed, max_len)
