"""C14 - components reconnect within their retry budget and finish exactly once."""
import struct

from harness.core import Violation, HarnessError, run_hypothesis, dec, exc_key, brief, in_autobahn, via_autobahn

DESCRIPTION = {
    "level": "exploration",
    "rule": ("A Component is driven through its public connection surfaces on a virtual clock: under Twisted every transport's `endpoint` is a harness IStreamClientEndpoint, under "
             "asyncio the virtual loop's create_connection() is scripted; the router side speaks raw bytes (WebSocket via the reference framer, RawSocket 4-octet handshake).  "
             "Hypothesis draws 1-3 transports (websocket/rawsocket), max_retries in {0,1,2,5,-1}, initial/growth/jitter/maximum retry delays from a grid, an is_fatal classifier, "
             "main present or not, a per-attempt outcome list {refused, connected-then-handshake-rejected, connected-then-ABORT, joined-then-lost (clean/unclean), "
             "joined-then-GOODBYE (normal / shutdown), main returns, main raises} and an optional stop() point (during a delay, during connect, while joined - the router then answers the GOODBYE or just drops the connection).  Oracle = model of "
             "the documented policy: attempts visit transports round-robin skipping exhausted/failed ones; per transport attempts since its last successful join <= max_retries+1; "
             "none after a fatal error; first attempt on a transport without delay, later gaps <= max_retry_delay; after a failed/lost connection a new attempt appears within "
             "max_retry_delay while any transport has budget; start()'s result completes exactly once - success on normal leave / main finished / stop(), error when main fails or "
             "all transports are exhausted - and never earlier; connect/join/ready/leave/disconnect listeners fire for every session created.  The peer may reset the connection after a GOODBYE exchange; no attempt may follow a session that left normally.  Non-trivial = >=2 failed attempts "
             "followed by a join or exhaustion, or stop() during a delay/connect; distinct by (config, outcome sequence, stop point). Outcome 'lost-before-welcome': the transport is up, the session has said HELLO, then the connection breaks uncleanly before the router answered (a clean close at that point is treated by the component as done; the statement does not list it and it is not generated)."),
    "assumptions": ["arg-less random.seed() calls made by WebSocket factories are routed to a case-derived seed inside the worker so that the jitter is a function of the case", "exact delay values (jitter is random by design) are not asserted, only the bounds", "time advances only through the harness; unbounded liveness is checked as bounded liveness"],
}

OUTCOMES = ["refused", "refused", "hs-rejected", "abort", "lost-before-welcome", "lost-unclean", "lost-clean", "goodbye-shutdown", "goodbye-normal", "main-returns", "main-raises"]


def plan(tier, seed):
    n = 500 if tier == "quick" else 10000
    jobs = []
    for i, fw in enumerate(("twisted", "asyncio")):
        for sh in range(3 if tier == "quick" else 8):
            jobs.append({"func": "histories", "fw": fw, "name": "hist/%s/%d" % (fw, sh), "args": {"seed": seed * 1000 + i * 100 + sh, "n": n}})
    return jobs


def strategy():
    from hypothesis import strategies as st
    tr = st.fixed_dictionaries({"kind": st.sampled_from(["websocket", "websocket", "rawsocket"]), "max_retries": st.sampled_from([0, 1, 2, 5, -1]),
                                "initial_retry_delay": st.sampled_from([0.5, 1.5]), "retry_delay_growth": st.sampled_from([1.0, 1.5, 3.0]),
                                "retry_delay_jitter": st.sampled_from([0.0, 0.1]), "max_retry_delay": st.sampled_from([1.0, 4.0, 300.0])})
    return st.fixed_dictionaries({
        "transports": st.lists(tr, min_size=1, max_size=3), "outcomes": st.lists(st.sampled_from(OUTCOMES), min_size=1, max_size=10),
        "main": st.booleans(), "fatal": st.sampled_from([None, None, "refused", "abort", "transport1"]),
        "stop": st.one_of(st.none(), st.tuples(st.sampled_from(["delay", "connect", "joined"]), st.integers(0, 6))), "hold": st.sampled_from([0.0, 0.7, 3.0]), "seed": st.integers(0, 1 << 20),
        "stop_reply": st.sampled_from(["reply", "reply", "drop"]), "reset_after_leave": st.sampled_from([False, False, True])})


class Conn:
    def __init__(self, idx, kind, outcome, ep, t0):
        self.idx, self.kind, self.outcome, self.ep, self.t0 = idx, kind, outcome, ep, t0
        self.inbox = b""
        self.stage = "connected"
        self.joined = False
        self.ended_at = None
        self.events = []
        self.goodbye_seen = False


class World:
    def __init__(self, c):
        import random
        import txaio
        from harness import drv
        self.c = c
        self.d = drv.get_driver()
        d = self.d
        # WebSocket factories call random.seed() (re-seeding from the OS) when they are built, i.e. on every connection attempt;
        # route arg-less calls to a case-derived value so that the jitter stays a pure function of the drawn case
        if not hasattr(random, "_verif_orig_seed"):
            random._verif_orig_seed = random.seed
        cnt = [0]

        def det_seed(a=None, *args, **kw):
            if a is None:
                cnt[0] += 1
                a = c["seed"] * 1000 + cnt[0]
            return random._verif_orig_seed(a)
        random.seed = det_seed
        random.seed(c["seed"])
        self.attempts = []        # dicts: t, idx, outcome, conn, end (time the attempt's connection failed/ended), joined
        self.outcomes = list(c["outcomes"])
        self.listener_log = []
        self.conns = []
        self.main_calls = 0
        self.stop_called_at = None
        self.pending_connects = []
        tcfgs = []
        for i, t in enumerate(c["transports"]):
            cfg = {"type": t["kind"], "url": ("ws://host%d:%d/ws" % (i, 8000 + i)) if t["kind"] == "websocket" else ("rs://host%d:%d" % (i, 8000 + i)),
                   "max_retries": t["max_retries"], "initial_retry_delay": t["initial_retry_delay"], "retry_delay_growth": t["retry_delay_growth"],
                   "retry_delay_jitter": t["retry_delay_jitter"], "max_retry_delay": t["max_retry_delay"]}
            if t["kind"] == "websocket":
                cfg["serializers"] = ["json"]
                cfg["options"] = {"openHandshakeTimeout": 0, "closeHandshakeTimeout": 0, "serverConnectionDropTimeout": 0}
            else:
                cfg["serializer"] = "json"
            if d.fw == "twisted":
                cfg["endpoint"] = self.make_tx_endpoint(i)
            tcfgs.append(cfg)
        world = self

        def is_fatal(e):
            f = c["fatal"]
            if f == "refused":
                return isinstance(e, ConnectionRefusedError) or "refused" in repr(e).lower()
            if f == "abort":
                from autobahn.wamp.exception import ApplicationError
                return isinstance(e, ApplicationError) and e.error == "wamp.error.no_such_realm"
            if f == "transport1":
                return world.attempts and world.attempts[-1]["idx"] == 1
            return False

        def main(reactor, session):
            world.main_calls += 1
            a = world.attempts[-1]
            a["main_called"] = True
            if a["outcome"] == "main-raises":
                raise RuntimeError("main failed")
            if a["outcome"] == "main-returns":
                return "done"
            f = txaio.create_future()       # main keeps running until the session ends
            a["main_future"] = f
            return f
        if d.fw == "twisted":
            from autobahn.twisted.component import Component
        else:
            from autobahn.asyncio.component import Component
            d.loop.create_connection = self.aio_create_connection
        kw = {"transports": tcfgs, "realm": "realm1", "is_fatal": is_fatal if c["fatal"] else None}
        if c["main"]:
            kw["main"] = main
        self.comp = Component(**kw)
        self.sess_to_att = {}

        def listener(ev, a):
            sess = a[0] if a else None
            if ev == "connect" and sess is not None:
                tr_ = getattr(sess, "_transport", None)
                for k_, att in enumerate(world.attempts):
                    if att.get("conn") is not None and att["conn"].ep.proto is tr_:
                        world.sess_to_att[id(sess)] = k_
            world.listener_log.append((ev, d.now(), world.sess_to_att.get(id(sess), -1)))
        for ev in ("connect", "join", "ready", "leave", "disconnect"):
            self.comp.on(ev, lambda *a, ev=ev, **k: listener(ev, a))
        self.comp.on("connectfailure", lambda *a, **k: world.listener_log.append(("connectfailure", d.now(), -2)))

    # ------------------------------------------------------------ connection surfaces
    def connect_latency(self):
        # a stop() "during connect" needs a window in which the connection attempt is in flight
        return 0.3 if (self.c["stop"] and self.c["stop"][0] == "connect") else 0

    def next_outcome(self):
        return self.outcomes.pop(0) if self.outcomes else "refused"

    def make_tx_endpoint(self, idx):
        from zope.interface import implementer
        from twisted.internet.interfaces import IStreamClientEndpoint
        from twisted.internet.defer import Deferred
        world = self

        @implementer(IStreamClientEndpoint)
        class EP:
            def connect(self_, factory):
                dfr = Deferred()
                outcome = world.next_outcome()
                att = {"t": world.d.now(), "idx": idx, "outcome": outcome, "end": None, "joined": False}
                world.attempts.append(att)
                world.d.clock.callLater(world.connect_latency(), world.tx_complete_connect, att, factory, dfr)
                return dfr
        return EP()

    def tx_complete_connect(self, att, factory, dfr):
        from twisted.internet.address import IPv4Address
        from twisted.python.failure import Failure
        if att["outcome"] == "refused":
            att["end"] = self.d.now()
            dfr.errback(Failure(ConnectionRefusedError("connection refused")))
            return
        proto = factory.buildProtocol(IPv4Address("TCP", "127.0.0.1", 8000 + att["idx"]))
        ep = self.d.connect(factory, proto=proto)
        conn = Conn(att["idx"], self.c["transports"][att["idx"]]["kind"], att["outcome"], ep, self.d.now())
        att["conn"] = conn
        self.conns.append(conn)
        dfr.callback(proto)

    async def aio_create_connection(self, protocol_factory, host=None, port=None, ssl=None, server_hostname=None, **kw):
        import asyncio
        idx = int(port) - 8000
        outcome = self.next_outcome()
        att = {"t": self.d.now(), "idx": idx, "outcome": outcome, "end": None, "joined": False}
        self.attempts.append(att)
        await asyncio.sleep(self.connect_latency())
        if outcome == "refused":
            att["end"] = self.d.now()
            raise ConnectionRefusedError("connection refused")
        from harness.drv import FakeAioTransport, Endpoint
        proto = protocol_factory()
        t = FakeAioTransport(self.d)
        t._proto = proto
        ep = Endpoint(self.d, proto, t)
        proto.connection_made(t)
        conn = Conn(idx, self.c["transports"][idx]["kind"], outcome, ep, self.d.now())
        att["conn"] = conn
        self.conns.append(conn)
        return t, proto

    # ------------------------------------------------------------ scripted router
    def send_wamp(self, conn, obj):
        import json
        from harness import ref6455
        data = json.dumps(obj).encode()
        if conn.kind == "websocket":
            conn.ep.feed(ref6455.encode_frame(1, data))
        else:
            conn.ep.feed(struct.pack("!L", len(data)) + data)

    def read_wamp(self, conn):
        import json
        from harness import ref6455
        out = []
        if conn.kind == "websocket":
            frames, rest = ref6455.parse_frames(conn.inbox)
            conn.inbox = rest
            for ev in ref6455.reassemble(frames):
                if ev[0] == "msg":
                    out.append(json.loads(ev[2].decode()))
                elif ev[0] == "close":
                    out.append(["CLOSE"])
        else:
            while len(conn.inbox) >= 4:
                n = struct.unpack("!L", conn.inbox[:4])[0]
                if len(conn.inbox) < 4 + n:
                    break
                out.append(json.loads(conn.inbox[4:4 + n].decode()))
                conn.inbox = conn.inbox[4 + n:]
        return out

    def end_conn(self, conn, kind):
        if not conn.ep.loss_delivered:
            conn.ep.deliver_loss(kind)
        if conn.ended_at is None:
            conn.ended_at = self.d.now()
            for a in self.attempts:
                if a.get("conn") is conn and a["end"] is None:
                    a["end"] = self.d.now()

    def pump(self):
        """let the scripted router react to everything the component's connections wrote"""
        from harness import wsutil, ref6455
        progressed = True
        rounds = 0
        while progressed and rounds < 50:
            progressed = False
            rounds += 1
            self.d.settle()
            for conn in self.conns:
                if conn.ep.loss_delivered:
                    continue
                data = conn.ep.take()
                if conn.ep.drop_requested and not data and conn.stage != "connected":
                    self.end_conn(conn, "aborted" if conn.ep.drop_requested == "abort" else "done")
                    progressed = True
                    continue
                if not data and conn.stage not in ("hold",):
                    if conn.ep.drop_requested:
                        self.end_conn(conn, "done")
                        progressed = True
                    continue
                conn.inbox += data
                if conn.stage == "connected":
                    if conn.kind == "websocket":
                        parsed = wsutil.split_http(conn.inbox)
                        if not parsed:
                            continue
                        conn.inbox = parsed[2]
                        if conn.outcome == "hs-rejected":
                            conn.ep.feed(b"HTTP/1.1 403 Forbidden\r\n\r\n")
                            conn.stage = "rejected"
                        else:
                            conn.ep.feed(wsutil.raw_response(dict(parsed[1]).get("sec-websocket-key"), protocol="wamp.2.json"))
                            conn.stage = "transport-up"
                    else:
                        if len(conn.inbox) < 4:
                            continue
                        conn.inbox = conn.inbox[4:]
                        if conn.outcome == "hs-rejected":
                            conn.ep.feed(b"\x00\x00\x00\x00")
                            conn.stage = "rejected"
                        else:
                            conn.ep.feed(bytes([0x7F, 0xF1, 0, 0]))
                            conn.stage = "transport-up"
                    progressed = True
                    continue
                for m in self.read_wamp(conn):
                    progressed = True
                    if m[0] == "CLOSE":
                        # WebSocket closing handshake from the client: reply and drop
                        conn.ep.feed(ref6455.encode_frame(8, struct.pack("!H", 1000)))
                        self.end_conn(conn, "done")
                        break
                    if m[0] == 1:       # HELLO
                        if conn.outcome == "lost-before-welcome":
                            # the transport is up and the session has said HELLO, then the connection breaks (uncleanly) before the router answered:
                            # a lost connection like any other.  (A *clean* close at this point is treated by the component as "done" - the
                            # statement does not list that outcome and it is not generated.)
                            conn.stage = "lost-early"
                            self.end_conn(conn, "lost")
                            break
                        if conn.outcome == "abort":
                            self.send_wamp(conn, [3, {"message": "no"}, "wamp.error.no_such_realm"])
                            conn.stage = "aborted"
                        else:
                            self.send_wamp(conn, [2, 4000 + len(self.attempts), {"roles": {"broker": {}, "dealer": {}}, "realm": "realm1"}])
                            conn.joined = True
                            conn.stage = "hold"
                            conn.hold_until = self.d.now() + self.c["hold"]
                            for a in self.attempts:
                                if a.get("conn") is conn:
                                    a["joined"] = True
                                    a["joined_at"] = self.d.now()
                    elif m[0] == 6:     # GOODBYE from the client
                        conn.goodbye_seen = True
                        if self.stop_called_at is not None and self.c.get("stop_reply") == "drop" and conn.stage != "goodbye-sent":
                            # the router never answers the GOODBYE that stop() caused: the connection just goes away
                            conn.stage = "left"
                            self.end_conn(conn, "lost")
                            progressed = True
                            continue
                        if conn.stage != "goodbye-sent":
                            self.send_wamp(conn, [6, {}, "wamp.close.goodbye_and_out"])
                        conn.stage = "left"
            # timed router actions
            for conn in self.conns:
                if conn.stage == "hold" and not conn.ep.loss_delivered and self.d.now() >= conn.hold_until - 1e-9:
                    o = conn.outcome
                    if o == "lost-unclean":
                        self.end_conn(conn, "lost")
                        progressed = True
                    elif o == "lost-clean":
                        self.end_conn(conn, "done")
                        progressed = True
                    elif o == "goodbye-shutdown":
                        self.send_wamp(conn, [6, {}, "wamp.close.system_shutdown"])
                        conn.stage = "goodbye-sent"
                        progressed = True
                    elif o == "goodbye-normal":
                        self.send_wamp(conn, [6, {}, "wamp.close.normal"])
                        conn.stage = "goodbye-sent"
                        progressed = True
                    elif o in ("main-returns", "main-raises") and not self.c["main"]:
                        # without a main function these outcomes degrade to an unclean loss
                        self.end_conn(conn, "lost")
                        progressed = True
                    else:
                        conn.stage = "held"
            for conn in self.conns:
                if conn.ep.drop_requested and not conn.ep.loss_delivered and conn.stage in ("rejected", "aborted", "left", "goodbye-sent", "held", "hold", "transport-up"):
                    if not conn.ep.t.pending:
                        if self.c.get("reset_after_leave") and conn.stage in ("left", "goodbye-sent"):
                            # the GOODBYE exchange is over, then the peer tears TCP down with a reset: an unclean end of the transport *after* the session has left
                            self.end_conn(conn, "lost")
                        else:
                            self.end_conn(conn, "aborted" if conn.ep.drop_requested == "abort" else "done")
                        progressed = True

    def next_harness_deadline(self):
        ts = [c_.hold_until for c_ in self.conns if c_.stage == "hold" and not c_.ep.loss_delivered]
        return min(ts) if ts else None


def run_history(c):
    try:
        return _run_history(c)
    except (Violation, HarnessError):
        raise
    except Exception as e:
        if via_autobahn(e):
            raise Violation("C14|exception-in-reactor|" + exc_key(e), "%r escaped from a timer / I/O callback" % (e,), c)
        raise


def _run_history(c):
    import txaio
    from harness.wampsess import Track
    w = World(c)
    d = w.d
    try:
        done_f = d.call(lambda: w.comp.start(d.clock if d.fw == "twisted" else d.loop))
        tr = Track(d, done_f)
        done_time = [None]
        horizon = 0.0
        stop = c["stop"]
        stopped = False
        max_delay = max(t["max_retry_delay"] for t in c["transports"])
        steps = 0
        last_activity = 0.0
        while steps < 400:
            steps += 1
            w.pump()
            if tr.done and done_time[0] is None:
                done_time[0] = d.now()
            # stop() injection
            if stop and not stopped and not tr.done:
                where, k = stop
                n_att = len(w.attempts)
                fire = False
                if where == "joined" and n_att > k and any(a.get("joined") and a["end"] is None for a in w.attempts):
                    fire = True
                elif where == "delay" and n_att > k and all(a["end"] is not None for a in w.attempts) and w.comp._delay_f is not None:
                    fire = True
                elif where == "connect" and n_att > k and w.attempts[-1]["end"] is None and not w.attempts[-1].get("joined") and w.attempts[-1].get("conn") is None:
                    fire = True
                if fire:
                    stopped = True
                    w.stop_called_at = d.now()
                    w.stop_where = where
                    try:
                        r = d.call(w.comp.stop)
                        if r is not None and txaio.is_future(r):
                            txaio.add_callbacks(r, lambda x: None, lambda f: None)
                    except Exception as e:
                        raise Violation("C14|stop-raised|" + exc_key(e), repr(e), c)
                    continue
            if tr.done:
                # run on for a while: nothing more may happen
                break
            nxt = d.next_deadline()
            hn = w.next_harness_deadline()
            cands = [x for x in (nxt, hn) if x is not None]
            if not cands:
                break
            target = min(cands)
            if target - d.now() > max_delay + 5 and all(a["end"] is not None for a in w.attempts):
                # waiting longer than any permitted retry delay
                d.advance(max_delay + 5)
                w.pump()
                break
            if target > d.now():
                try:
                    d.advance(target - d.now())
                except Exception as e:
                    raise Violation("C14|exception-in-timer|" + exc_key(e), repr(e), c)
            else:
                try:
                    d.settle()
                except Exception as e:
                    raise Violation("C14|exception-in-timer|" + exc_key(e), repr(e), c)
            if len(w.attempts) > 14 + len(c["outcomes"]):
                break
        w.pump()
        if tr.done and done_time[0] is None:
            done_time[0] = d.now()
        n_att_at_done = len(w.attempts)
        if tr.done:
            t_done = d.now()
            try:
                d.advance(max_delay * 2 + 10)
            except Exception as e:
                raise Violation("C14|exception-after-completion|" + exc_key(e), repr(e), c)
            w.pump()
        judge(c, w, tr, done_time[0], n_att_at_done, stopped)
        return w, tr
    finally:
        d.close()


def judge(c, w, tr, done_time, n_att_at_done, stopped):
    d = w.d
    errs = [e for e in d.loop_errors if "never retrieved" not in repr(e)]
    if errs:
        raise Violation("C14|loop-exception", repr(errs[0])[:400], c)
    T = c["transports"]
    atts = w.attempts
    # ---- model of budgets
    since_join = [0] * len(T)
    fatal = [False] * len(T)
    prev = None
    for k, a in enumerate(atts):
        i = a["idx"]

        def eligible(j):
            return (not fatal[j]) and (T[j]["max_retries"] == -1 or since_join[j] < T[j]["max_retries"] + 1)
        if not eligible(i):
            why = "fatal error" if fatal[i] else "retry budget (max_retries=%d, %d attempts since last join)" % (T[i]["max_retries"], since_join[i])
            raise Violation("C14|attempt-beyond-budget|" + ("fatal" if fatal[i] else "retries"), "attempt #%d on transport %d although %s; attempts %r" % (
                k, i, why, [(x["idx"], x["outcome"], x.get("joined")) for x in atts[:k + 1]]), c)
        # round robin
        start = 0 if prev is None else (prev + 1) % len(T)
        order = [(start + s) % len(T) for s in range(len(T))]
        want = next((j for j in order if eligible(j)), None)
        if want != i:
            raise Violation("C14|not-round-robin", "attempt #%d went to transport %d, round-robin order (skipping exhausted) gives %r; history %r" % (
                k, i, want, [(x["idx"], x["outcome"]) for x in atts[:k + 1]]), c)
        # timing
        if k > 0:
            prev_end = atts[k - 1]["end"]
            if prev_end is None:
                raise Violation("C14|overlapping-attempts", "attempt #%d started at %.2f while attempt #%d was still in progress" % (k, a["t"], k - 1), c)
            gap = a["t"] - prev_end
            if gap > T[i]["max_retry_delay"] + 1e-6:
                raise Violation("C14|retry-delay-above-maximum", "transport %d: waited %.3fs before attempt #%d, max_retry_delay=%.1f" % (i, gap, k, T[i]["max_retry_delay"]), c)
            if since_join[i] == 0 and gap > 1e-6 and not any(x["idx"] == i for x in atts[:k]):
                raise Violation("C14|first-attempt-delayed", "first attempt on transport %d delayed by %.3fs" % (i, gap), c)
        elif a["t"] > 1e-6:
            raise Violation("C14|first-attempt-delayed", "first attempt at t=%.3f" % a["t"], c)
        since_join[i] += 1
        if a.get("joined"):
            since_join[i] = 0
        if c["fatal"]:
            # every attempt that ends with an error is shown to the classifier (also a lost connection after a join)
            if (c["fatal"] == "refused" and a["outcome"] == "refused") or (c["fatal"] == "abort" and a["outcome"] == "abort") or (c["fatal"] == "transport1" and i == 1):
                fatal[i] = True
        prev = i
    any_eligible = any((not fatal[j]) and (T[j]["max_retries"] == -1 or since_join[j] < T[j]["max_retries"] + 1) for j in range(len(T)))
    # ---- completion
    for k, a in enumerate(atts):
        if a.get("joined") and a["outcome"] == "main-raises" and c["main"] and a.get("main_called"):
            if k < len(atts) - 1 or not tr.done or tr.ok:
                raise Violation("C14|main-failure-did-not-fail-start", "main raised in attempt #%d but the component went on (%d attempts in total) and start() is %s" % (
                    k, len(atts), "pending" if not tr.done else ("success" if tr.ok else "error %r" % (tr.value,))), c)
    if tr.n > 1:
        raise Violation("C14|start-result-completed-twice", "", c)
    for k, a in enumerate(atts[:-1]):
        if a.get("joined") and (a["outcome"] == "goodbye-normal" or (a["outcome"] == "main-returns" and c["main"] and a.get("main_called"))):
            # the session of this attempt left normally: the component is done - however the transport is torn down afterwards
            raise Violation("C14|attempt-after-normal-leave", "the session of attempt #%d (%s) left normally, yet %d more attempt(s) followed; start() is %s" % (
                k, a["outcome"], len(atts) - 1 - k, "pending" if not tr.done else ("success" if tr.ok else "error %r" % (tr.value,))), c)
    last = atts[-1] if atts else None
    terminal = None
    if last is not None:
        o = last["outcome"]
        if last.get("joined") and o == "goodbye-normal":
            terminal = "ok"
        if last.get("joined") and o == "main-returns" and c["main"]:
            terminal = "ok"
        if last.get("joined") and o == "main-raises" and c["main"]:
            terminal = "main-error"
    if stopped:
        terminal = terminal or "ok"
    if len(atts) > n_att_at_done and tr.done:
        raise Violation("C14|attempt-after-completion", "start() completed after %d attempts, but %d more connection attempt(s) followed (stopped=%r)" % (
            n_att_at_done, len(atts) - n_att_at_done, stopped), c)
    if terminal == "ok":
        if not tr.done:
            raise Violation("C14|not-completed|" + ("stop" if stopped else last["outcome"]), "start() result still pending at t=%.2f (stop at %r/%r); attempts %r" % (
                d.now(), w.stop_called_at, getattr(w, "stop_where", None), [(x["idx"], x["outcome"], x.get("joined")) for x in atts]), c)
        if not tr.ok:
            raise Violation("C14|completed-with-error-instead-of-success|" + ("stop" if stopped else last["outcome"]), repr(tr.value), c)
    elif terminal == "main-error":
        if not tr.done or tr.ok:
            raise Violation("C14|main-failure-did-not-fail-start", "main raised in attempt #%d but start() result is %s; %d attempts total" % (
                len(atts) - 1, "pending" if not tr.done else "success", len(atts)), c)
    else:
        if not any_eligible:
            if not tr.done:
                raise Violation("C14|not-completed|exhausted", "all transports exhausted but start() result pending", c)
            if tr.ok:
                raise Violation("C14|exhaustion-reported-as-success", "", c)
        else:
            if tr.done and not stopped:
                raise Violation("C14|completed-early", "start() completed (%s: %r) although transports have attempts left and the last session did not end normally; attempts %r" % (
                    "ok" if tr.ok else "error", tr.value, [(x["idx"], x["outcome"], x.get("joined")) for x in atts]), c)
            if not tr.done and last is not None and last["end"] is not None and len(atts) <= 14 + len(c["outcomes"]):
                raise Violation("C14|no-new-attempt-within-max-delay", "last attempt ended at %.2f, clock now %.2f, transports have budget, no new attempt" % (last["end"], d.now()), c)
    # ---- listeners
    for k, a in enumerate(atts):
        evs = [e[0] for e in w.listener_log if e[2] == k]
        if a.get("conn") is None:
            continue
        if a["conn"].stage != "rejected" and a["conn"].stage != "connected" and "connect" not in evs:
            raise Violation("C14|listener-missing|connect", "attempt #%d (%s): listeners %r" % (k, a["outcome"], evs), c)
        if a.get("joined"):
            for need in ("join", "ready"):
                if need not in evs:
                    raise Violation("C14|listener-missing|" + need, "attempt #%d (%s): listeners %r" % (k, a["outcome"], evs), c)
            if a["end"] is not None:
                for need in ("leave", "disconnect"):
                    if need not in evs:
                        raise Violation("C14|listener-missing|" + need, "attempt #%d (%s) ended: listeners %r" % (k, a["outcome"], evs), c)


def histories(col, seed, n):
    def body(c):
        try:
            w, tr = run_history(c)
        except (Violation, HarnessError):
            raise
        except Exception as e:
            if in_autobahn(e):
                raise Violation("C14|exception|" + exc_key(e), repr(e), c)
            raise
        fails = sum(1 for a in w.attempts if not a.get("joined"))
        nt = (fails >= 2 and (any(a.get("joined") for a in w.attempts) or (tr.done and not tr.ok))) or (c["stop"] is not None and w.stop_called_at is not None)
        col.case(bool(nt), dig=c, cls=["transports:%d" % len(c["transports"]), "attempts:%d" % min(len(w.attempts), 8), "result:" + ("pending" if not tr.done else ("ok" if tr.ok else "error"))] +
                 (["stop:" + getattr(w, "stop_where", "?")] if w.stop_called_at is not None else []) + ["outcome:" + a["outcome"] for a in w.attempts[:6]],
                 sample={"transports": [(t["kind"], t["max_retries"], t["max_retry_delay"]) for t in c["transports"]], "outcomes": c["outcomes"], "main": c["main"], "fatal": c["fatal"],
                         "stop": c["stop"], "attempts": [(a["idx"], round(a["t"], 2), a["outcome"]) for a in w.attempts[:10]]})
    run_hypothesis(col, "hist", strategy(), body, n, seed)


def replay(col, case):
    case = dec(case)
    c = case.get("case", case)
    c.pop("check", None)
    if c.get("stop") is not None:
        c["stop"] = tuple(c["stop"])
    run_history(c)
    col.case()
