"""C01 - WebSocket messages arrive intact, exactly once and in order."""
from harness.core import Violation, run_hypothesis, dec, exc_key

DESCRIPTION = {
    "level": "exploration",
    "rule": ("Hypothesis draws a client/server option combination from the interoperable set, <=8 messages per direction "
             "(payload lengths biased to 0/125/126/127/65535/65536/2^17 boundaries, text with multi-byte code points or binary), a send API "
             "per message (sendMessage w/ fragmentSize+sync, frame API, streaming API, prepared message, chopped sendFrame, sends from onOpen), "
             "a send interleaving and a read schedule.  Each case runs under four schedules (drawn splits, all-at-once, byte-wise/odd-chunk, and bursts of several reads per event-loop turn). "
             "Oracle: receiver onMessage log == sent list per direction; the octets each side wrote parse under an independent strict RFC 6455 "
             "parser and reassemble (independent inflater when compressed) to the sent messages; schedules agree.  Compression settings include requested window sizes and context-takeover flags on both sides, and payloads of kind 'dup' (prefixes of one incompressible stream) make later messages refer back over 600-20000 octets.  Non-trivial = a boundary "
             "length, a fragmented message, a split inside a frame header, or frames coalesced with the handshake; distinct by digest of the case. Enumerated in addition: the streaming API used across event-loop turns - a frame announced with beginMessageFrame(L) is open (0, 1, L/2 or L-1 octets sent) when one or two pings of the peer arrive and are answered automatically: the sender's octets must remain a well-formed frame sequence, the peer gets the message and the pongs."),
    "assumptions": [
        "transport contract emulated in memory (Twisted ITransport / asyncio.Transport); real kernels and TLS are out of scope",
        "option combinations that cannot interoperate by design (client not masking vs server requiring masks; applyMask differing) are not generated",
        "an extra empty final continuation frame (payload length a multiple of the fragment size) is well-formed and accepted",
    ],
}


def plan(tier, seed):
    n = 110 if tier == "quick" else 600
    big = 300 * 1024 if tier == "quick" else 4 * 1024 * 1024
    jobs = []
    shards = 4 if tier == "quick" else 8
    for fw in ("twisted", "asyncio"):
        for sh in range(shards):
            jobs.append({"func": "pairs", "fw": fw, "nvx": "1" if sh % 2 == 0 else "0", "name": "pairs/%s/%d" % (fw, sh),
                         "args": {"seed": seed * 1000 + sh + (100 if fw == "asyncio" else 0), "n": n, "big": big}})
        jobs.append({"func": "stream_interleaved", "fw": fw, "name": "stream_interleaved/" + fw, "args": {}})
    return jobs


def strategy(big):
    from hypothesis import strategies as st
    from checks.wsdrive import BOUNDARY_LENS, FRAG_SIZES

    lens = st.one_of(st.sampled_from(BOUNDARY_LENS), st.integers(0, 300), st.integers(0, 70000), st.integers(0, big), st.sampled_from([600, 1100, 2500, 5000, 20000]))
    frag = st.sampled_from([0, 0] + FRAG_SIZES)

    @st.composite
    def msg(draw):
        n = draw(lens)
        api = draw(st.sampled_from(["msg", "msg", "frames", "stream", "prepared", "chop"]))
        m = {"len": n, "bin": draw(st.booleans()), "salt": draw(st.integers(0, 9999)), "api": api,
             "kind": draw(st.sampled_from(["rand", "comp", "dup"])), "in_onopen": draw(st.integers(0, 9)) == 0}
        if api == "msg":
            f = draw(frag)
            if f and n // f > 3000:
                f = max(f, n // 3000)
            m.update(frag=f, sync=draw(st.integers(0, 4)) == 0, dnc=draw(st.booleans()))
        elif api in ("frames", "stream", "chop"):
            m["cuts"] = draw(st.lists(st.one_of(st.integers(0, n), st.sampled_from([125, 126, 127, 65535, 65536])), max_size=4))
            m["sync"] = draw(st.integers(0, 4)) == 0
            if api == "stream":
                m["sub"] = draw(st.booleans())
                m["dnc"] = draw(st.booleans())
            elif api == "frames":
                m["dnc"] = draw(st.booleans())
            else:
                m["chop"] = draw(st.sampled_from([0, 1, 2, 7, 1000, 70000]))
                if m["chop"] and n // m["chop"] > 2000:
                    m["chop"] = n // 2000 + 1
        else:
            m["dnc"] = draw(st.booleans())
        return m

    @st.composite
    def case(draw):
        mask_c = draw(st.sampled_from([True, True, False]))
        mask_s = draw(st.sampled_from([False, False, True]))
        apply_mask = draw(st.sampled_from([True, True, True, False]))
        copts = {"maskClientFrames": mask_c, "acceptMaskedServerFrames": True if mask_s else draw(st.booleans()),
                 "applyMask": apply_mask, "autoFragmentSize": draw(frag), "utf8validateIncoming": draw(st.booleans())}
        sopts = {"maskServerFrames": mask_s, "requireMaskedClientFrames": mask_c and draw(st.booleans()),
                 "applyMask": apply_mask, "autoFragmentSize": draw(frag), "utf8validateIncoming": draw(st.booleans())}
        cm = draw(st.lists(msg(), max_size=8))
        sm = draw(st.lists(msg(), max_size=8))
        total = sum(m["len"] for m in cm + sm)
        # keep auto-fragmentation from exploding into millions of frames
        for o in (copts, sopts):
            if o["autoFragmentSize"] and total // o["autoFragmentSize"] > 6000:
                o["autoFragmentSize"] = 0
        sched = draw(st.lists(st.tuples(st.integers(0, 1), st.one_of(st.none(), st.integers(1, 16), st.integers(1, 70000))), max_size=30))
        return {"seed": draw(st.integers(0, 1 << 30)), "copts": copts, "sopts": sopts, "compress": draw(st.sampled_from([False, False, False, False, True, True,
                                                  {"req_wb": 9}, {"req_wb": 10, "offer_wb": 9}, {"req_wb": 12, "req_nct": True}, {"offer_wb": 10, "offer_nct": True}, {"req_wb": 9, "offer_wb": 12}])),
                "msgs": [cm, sm], "order": draw(st.lists(st.integers(0, 1), max_size=16)), "schedule": sched}
    return case()


def classify(case):
    from checks.wsdrive import BOUNDARY_LENS
    cls = []
    allm = case["msgs"][0] + case["msgs"][1]
    if any(m["len"] in BOUNDARY_LENS for m in allm):
        cls.append("boundary-length")
    if any((m.get("frag") or m.get("cuts")) for m in allm) or case["copts"]["autoFragmentSize"] or case["sopts"]["autoFragmentSize"]:
        cls.append("fragmented")
    if any(m.get("in_onopen") for m in allm):
        cls.append("sent-from-onOpen(coalesced-with-handshake)")
    if any(n is not None and n < 14 for _, n in case["schedule"]):
        cls.append("small-read-splits")
    if case["compress"]:
        cls.append("compression")
    if any(m["len"] >= 65536 for m in allm):
        cls.append("len>=64KiB")
    for m in allm:
        cls.append("api:" + m["api"])
    return sorted(set(cls))


def check_case(case):
    from checks import wsdrive
    wsdrive.run_modes(case, "C01")


def pairs(col, seed, n, big):
    def body(case):
        check_case(case)
        cls = classify(case)
        nt = any(c in cls for c in ("boundary-length", "fragmented", "sent-from-onOpen(coalesced-with-handshake)", "small-read-splits"))
        col.case(nt, dig=case, cls=cls, sample=summarize(case))
    run_hypothesis(col, "pairs", strategy(big), body, n, seed)


def stream_interleaved_one(col, c):
    """streaming API used across event-loop turns (a producer sending a frame piece by piece): while a frame announced with beginMessageFrame(L) is
    still open, the peer's ping arrives and is answered automatically.  What the sender writes must still be a well-formed frame sequence, the
    peer gets the message intact and exactly one pong with the ping's payload"""
    from checks import wsdrive
    from harness import ref6455
    role, L, k, npings = c["role"], c["len"], c["sent_before"], c["pings"]
    case = {"seed": 1, "copts": {}, "sopts": {}, "compress": False, "msgs": [[], []], "order": [], "schedule": []}
    r = wsdrive.PairRun(case, "all")
    try:
        r.run()
        o = 0 if role == "client" else 1
        me, peer = r.sides[o], r.sides[1 - o]
        payload = wsdrive.pattern(L, 5)
        before = len(bytes(r.pipe.delivered[o])) + len(r.pipe.buf[o])

        def first():
            me.proto.beginMessage(True)
            me.proto.beginMessageFrame(L)
            if k:
                me.proto.sendMessageFrameData(payload[:k])
        r.d.call(first)
        r.d.settle()
        for j in range(npings):
            r.d.call(peer.proto.sendPing, b"hb%d" % j)
            r.pipe.step(1 - o, None)        # the ping reaches the sender while its frame is open; it answers
        r.d.settle()

        def rest():
            me.proto.sendMessageFrameData(payload[k:])
            me.proto.endMessage()
        r.d.call(rest)
        r.pipe.run()
        r.d.settle()
        r.pipe.run()
        raw = bytes(r.pipe.delivered[o])
        body = raw[raw.find(b"\r\n\r\n") + 4:]
        frames, rest_ = ref6455.parse_frames(body)
        probs = [] if rest_ else ref6455.wire_problems(frames, o == 0, compression=False, expect_masked=(o == 0))
        data = [f for f in frames if f.opcode in (0, 1, 2)]
        pongs = [f for f in frames if f.opcode == 10]
        ok_wire = not rest_ and not probs and len(data) >= 1 and b"".join((ref6455.xor_mask(f.payload, f.mask) if False else f.payload) for f in data) == payload and \
            [f.payload for f in pongs] == [b"hb%d" % j for j in range(npings)]
        got = peer.msgs()
        got_pongs = [e[1] for e in peer.log if e[0] == "pong"]
        if not ok_wire or got != [(True, payload)] or got_pongs != [b"hb%d" % j for j in range(npings)]:
            col.finding("C01|stream-api|control-frame-written-inside-open-frame",
                        "%s sender, frame of %d octets, %d sent when %d ping(s) arrived: wire well-formed=%s (%s), peer got %d message(s) %r and pongs %r; peer close events %r" % (
                            role, L, k, npings, ok_wire, (probs or [rest_[:20]])[:2], len(got), [(b, len(p_)) for b, p_ in got[:3]], got_pongs, [e for e in peer.log if e[0] == "close"]),
                        dict(c, check="stream_interleaved"))
        for s_ in r.sides:
            if s_.ep.escaped:
                col.finding("C01|stream-api|exception-escaped|" + exc_key(s_.ep.escaped[0]), repr(s_.ep.escaped[0]), dict(c, check="stream_interleaved"))
    finally:
        r.close()


def stream_interleaved(col):
    n = 0
    for role in ("client", "server"):
        for L in (1, 2, 10, 125, 126, 200, 70000):
            for k in sorted(set([0, 1, L // 2, L - 1])):
                if k >= L and L > 0 and k != 0:
                    continue
                for npings in (1, 2):
                    c = {"role": role, "len": L, "sent_before": k, "pings": npings}
                    stream_interleaved_one(col, c)
                    n += 1
                    col.case(True, enum=True, cls=["stream-interleaved/" + role], sample=c if n % 9 == 1 else None)
    col.exhaustive.append("C01 streaming API with a peer ping arriving while a frame is open: 2 roles x 7 frame lengths x octets already sent {0,1,L/2,L-1} x {1,2} pings")


def summarize(case):
    return {"copts": case["copts"], "sopts": case["sopts"], "compress": case["compress"],
            "client_msgs": [(m["len"], "bin" if m["bin"] else "text", m["api"], m.get("frag") or m.get("cuts") or "") for m in case["msgs"][0]],
            "server_msgs": [(m["len"], "bin" if m["bin"] else "text", m["api"], m.get("frag") or m.get("cuts") or "") for m in case["msgs"][1]],
            "schedule": case["schedule"][:8]}


def replay(col, case):
    case = dec(case)
    c = case.get("case", case)
    if c.get("check") == "stream_interleaved":
        stream_interleaved_one(col, c)
        col.case()
        return
    if isinstance(c.get("msgs"), tuple):
        c["msgs"] = list(c["msgs"])
    check_case(c)
    col.case()
