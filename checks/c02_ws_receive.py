"""C02 - incoming byte streams are judged exactly as RFC 6455 prescribes."""
import struct
import zlib

from harness.core import Violation, HarnessError, run_hypothesis, dec, exc_key, brief

DESCRIPTION = {
    "level": "exploration",
    "rule": ("(a) Exhaustive header table: every value of the first two frame octets (65536) in receiver contexts {server,client} x {outside,inside a "
             "fragmented message} x {compression off,on} x {failByDrop on,off}; each value is completed canonically (mask key, minimal extended length, payload; "
             "for 126/127 also a non-minimal and a >=2^63 completion; oversized/compressed payloads are delivered header-only) and followed by a valid text frame. "
             "Quick tier enumerates all 65536 values for the contexts selected by the seed and a 1/16 stratified sample for the others; thorough all 16 contexts. "
             "(b) Hypothesis frame sequences from a grammar (1-5 fragments, control frames inside fragmented messages, multi-byte text straddling fragments, "
             "close frames) with at most one violation from the catalogue - including a generated bad-text family: 18 RFC 3629 malformations (truncated 2/3/4-octet sequences, "
             "lone/bad continuation, overlong, surrogates, >U+10FFFF, F5..FF) after a valid prefix of drawn length, cut into fragments at drawn points, at the bad octet -4..0, with empty "
             "fragments and an empty final fragment, optionally a ping before the final fragment - followed by more valid frames, each delivered under five read schedules (several reads per event-loop turn, two connections of one process fed the same stream with interleaved reads, one read, "
             "byte-wise, drawn splits, header-boundary splits).  Oracle: an independent receiver model that is given the frame list (not the bytes) yields "
             "the expected events for the well-formed prefix and the verdict; checked: callbacks == events, one pong per ping with equal payload, on violation "
             "exactly one close frame 1002/1007 (failByDrop off) or abort + onClose(False,1006) (on), nothing delivered after the violation, all schedules "
             "agree.  With compression negotiated each message of a sequence is sent compressed (one compressor per connection) or plain.  Non-trivial = stream with a violation or >=3 frames with a control frame inside a fragmented message; header values count once per context.  "
             "Thorough tier adds an atheris (libFuzzer) target: raw octets are walked by an independent header walker into the same reference receiver (complete frames up to the verdict, plus "
             "the bare header of a frame whose header alone is a violation), fed in one read and byte-wise, and judged by the same oracle."),
    "assumptions": [
        "close codes 1012-1014 (registered after the RFC) are not generated; corrupt compressed payloads are outside the statement",
        "a valid peer close frame ends the judged stream (close handling is C05)",
    ],
}

CONTEXTS = [(srv, inside, comp, fbd) for srv in (True, False) for inside in (False, True) for comp in (False, True) for fbd in (False, True)]


def plan(tier, seed):
    jobs = []
    if tier == "quick":
        full = {seed % 16, (seed * 7 + 5) % 16}
        for ci in range(16):
            fw = "twisted" if ci % 2 == 0 else "asyncio"
            if ci in full:
                for sh in range(4):
                    jobs.append({"func": "header_table", "fw": fw, "name": "hdr/ctx%d/full/%d" % (ci, sh),
                                 "args": {"ctx": ci, "stride": 1, "offset": 0, "shard": sh, "nshards": 4}})
            else:
                jobs.append({"func": "header_table", "fw": fw, "name": "hdr/ctx%d/sample" % ci,
                             "args": {"ctx": ci, "stride": 16, "offset": (seed + ci) % 16, "shard": 0, "nshards": 1}})
        for k, (srv, fbd) in enumerate([(True, False), (True, True), (False, False), (False, True)]):
            jobs.append({"func": "close_codes", "fw": "twisted" if k % 2 else "asyncio", "name": "closecodes/%d" % k,
                         "args": {"server": srv, "fbd": fbd, "stride": 16, "offset": (seed + k) % 16}})
        n = 220
        for i, fw in enumerate(("twisted", "asyncio")):
            for sh in range(3):
                jobs.append({"func": "sequences", "fw": fw, "nvx": str(sh % 2), "name": "seq/%s/%d" % (fw, sh), "args": {"seed": seed * 1000 + i * 10 + sh, "n": n}})
    else:
        for ci in range(16):
            for fw in ("twisted", "asyncio"):
                for sh in range(2):
                    jobs.append({"func": "header_table", "fw": fw, "name": "hdr/ctx%d/%s/%d" % (ci, fw, sh),
                                 "args": {"ctx": ci, "stride": 1, "offset": 0, "shard": sh, "nshards": 2}})
        for k, (srv, fbd) in enumerate([(True, False), (True, True), (False, False), (False, True)]):
            for fw in ("twisted", "asyncio"):
                jobs.append({"func": "close_codes", "fw": fw, "name": "closecodes/%d/%s" % (k, fw), "args": {"server": srv, "fbd": fbd, "stride": 1, "offset": 0}})
        for i, fw in enumerate(("twisted", "asyncio")):
            for sh in range(8):
                jobs.append({"func": "sequences", "fw": fw, "nvx": str(sh % 2), "name": "seq/%s/%d" % (fw, sh), "args": {"seed": seed * 1000 + i * 10 + sh, "n": 1500}})
            for sh in range(2):
                jobs.append({"func": "fuzz", "fw": fw, "nvx": str(sh % 2), "name": "fuzz/stream/%s/%d" % (fw, sh), "args": {"target": "stream", "runs": 20000, "seed": seed * 1000 + i * 10 + 500 + sh},
                             "timeout": 3000})
    return jobs


# ---------------------------------------------------------------------------
# endpoint under test

class Rx:
    def __init__(self, is_server, compression, fail_by_drop, extra_opts=None, d=None):
        from harness import drv, wsutil
        self.owns_driver = d is None
        self.d = d or drv.get_driver()
        self.is_server = is_server
        opts = {"failByDrop": fail_by_drop, "openHandshakeTimeout": 0, "closeHandshakeTimeout": 0}
        opts.update(extra_opts or {})
        if is_server:
            if compression:
                from autobahn.websocket.compress import PerMessageDeflateOffer, PerMessageDeflateOfferAccept

                def accept(offers):
                    for o in offers:
                        if isinstance(o, PerMessageDeflateOffer):
                            return PerMessageDeflateOfferAccept(o)
                opts["perMessageCompressionAccept"] = accept
            self.side = wsutil.server(self.d, opts=opts)
            wsutil.open_server(self.side, extensions="permessage-deflate" if compression else None)
        else:
            opts["serverConnectionDropTimeout"] = 0
            if compression:
                from autobahn.websocket.compress import PerMessageDeflateOffer, PerMessageDeflateResponseAccept
                opts["perMessageCompressionOffers"] = [PerMessageDeflateOffer()]
                opts["perMessageCompressionAccept"] = lambda r: PerMessageDeflateResponseAccept(r)
            self.side = wsutil.client(self.d, opts=opts)
            wsutil.open_client(self.side, extensions="permessage-deflate" if compression else None)
        self.ep = self.side.ep
        if compression and self.side.proto._perMessageCompress is None:
            raise HarnessError("compression was not negotiated in harness handshake")
        self.side.log[:] = []
        self.ep.take()
        self.out = b""

    def feed(self, data, settle=True):
        self.ep.feed(data, settle)
        if settle:
            self.d.settle()
            self.out += self.ep.take()

    def finish(self):
        """deliver our own drop if requested; returns observation dict"""
        from harness import ref6455
        self.d.settle()
        self.out += self.ep.take()
        dropped = self.ep.drop_requested
        state_before = self.side.proto.state
        if dropped:
            self.ep.deliver_loss("aborted" if dropped == "abort" else "done")
            self.d.settle()
        frames, rest = ref6455.parse_frames(self.out)
        events = [e for e in self.side.log if e[0] in ("msg", "ping", "pong")]
        closes = [e for e in self.side.log if e[0] == "close"]
        obs = {"events": events, "closes": closes, "dropped": dropped, "frames": frames, "rest": rest, "escaped": list(self.ep.escaped),
               "loop_errors": list(self.d.loop_errors), "state": state_before}
        if self.owns_driver:
            self.d.close()
        return obs


def deflate_msg(data):
    c = zlib.compressobj(zlib.Z_DEFAULT_COMPRESSION, zlib.DEFLATED, -15)
    return (c.compress(data) + c.flush(zlib.Z_SYNC_FLUSH))[:-4]


def judge(model, frames_spec, obs, key, case, fail_by_drop, is_server):
    """compare the endpoint's observations with the reference model"""
    exp_events = [e for e in model.events if e[0] in ("msg", "ping", "pong")]
    got = [("msg", e[1], e[2]) if e[0] == "msg" else (e[0], e[1]) for e in obs["events"]]
    # exceptions while skipping frames after a detected violation are outside the statement (the verdict was already announced)
    if obs["escaped"] and not model.verdict:
        raise Violation(key + "|exception-escaped|" + exc_key(obs["escaped"][0]), repr(obs["escaped"][0]), case)
    if obs["loop_errors"] and not model.verdict:
        raise Violation(key + "|loop-exception", repr(obs["loop_errors"][0])[:400], case)
    if got != exp_events:
        n = min(len(got), len(exp_events))
        k = next((i for i in range(n) if got[i] != exp_events[i]), n)
        what = "extra" if len(got) > len(exp_events) and k == len(exp_events) else ("missing" if len(got) < len(exp_events) and k == len(got) else "differs")
        kind = (got[k][0] if k < len(got) else exp_events[k][0])
        after = "-after-violation" if (model.verdict and what == "extra") else ""
        raise Violation("%s|delivery-%s-%s%s" % (key, what, kind, after), "verdict=%r expected events %r, got %r" % (model.verdict, brief(exp_events), brief(got)), case)
    if obs["rest"]:
        raise Violation(key + "|written-bytes-not-a-frame-sequence", repr(obs["rest"][:20]), case)
    from harness import ref6455
    probs = ref6455.wire_problems(obs["frames"], not is_server, compression=False)
    if probs:
        raise Violation(key + "|written-frames-malformed", repr(probs[:3]), case)
    pings = [e[1] for e in exp_events if e[0] == "ping"]
    pongs = [f.payload for f in obs["frames"] if f.opcode == 10]
    if pongs != pings:
        raise Violation(key + "|pong-mismatch", "pings received %r, pongs written %r" % (brief(pings), brief(pongs)), case)
    closes_written = [f for f in obs["frames"] if f.opcode == 8]
    others = [f for f in obs["frames"] if f.opcode not in (8, 10)]
    if others:
        raise Violation(key + "|unexpected-frames-written", repr([f.brief() for f in others[:3]]), case)
    if model.verdict:
        code = model.verdict[0]
        if fail_by_drop:
            if closes_written:
                raise Violation(key + "|close-frame-despite-failByDrop", repr([f.payload[:2].hex() for f in closes_written]), case)
            if not obs["dropped"]:
                raise Violation(key + "|violation-not-failed", "verdict %r but the transport was not dropped (failByDrop)" % (model.verdict,), case)
            if len(obs["closes"]) != 1 or obs["closes"][0][1] is not False or obs["closes"][0][2] != 1006:
                raise Violation(key + "|unclean-close-not-reported", "onClose calls: %r" % (obs["closes"],), case)
        else:
            if len(closes_written) != 1:
                raise Violation(key + "|violation-not-failed" if not closes_written else key + "|multiple-close-frames",
                                "verdict %r, close frames written: %d (state=%r dropped=%r)" % (model.verdict, len(closes_written), obs["state"], obs["dropped"]), case)
            p = closes_written[0].payload
            got_code = struct.unpack("!H", p[:2])[0] if len(p) >= 2 else None
            if got_code != code:
                raise Violation("%s|wrong-close-status|expected%d-got%s" % (key, code, got_code), "verdict %r" % (model.verdict,), case)
            if obs["frames"] and obs["frames"][-1].opcode != 8:
                raise Violation(key + "|frames-after-close", repr([f.brief() for f in obs["frames"]]), case)
    elif model.closed_by_peer:
        # the close handshake itself is judged by C05; here only: a *valid* peer close is never answered with a failure status
        peer = [e for e in model.events if e[0] == "close"][-1]
        for f in closes_written:
            wcode = struct.unpack("!H", f.payload[:2])[0] if len(f.payload) >= 2 else None
            if wcode not in (None, 1000, peer[1]):
                raise Violation("%s|valid-peer-close-answered-with-failure-status|%s" % (key, wcode), "peer close %r answered with close code %r" % (peer[1:], wcode), case)
        if obs["escaped"] or obs["loop_errors"]:
            raise Violation(key + "|exception-escaped-on-peer-close", repr((obs["escaped"] or obs["loop_errors"])[0])[:300], case)
    else:
        if closes_written or obs["dropped"] or obs["closes"]:
            raise Violation(key + "|valid-stream-failed", "no violation in stream but endpoint wrote close=%r dropped=%r onClose=%r" % (
                [f.payload[:2].hex() for f in closes_written], obs["dropped"], obs["closes"]), case)


# ---------------------------------------------------------------------------
# (a) exhaustive header table

def header_case(b0, b1, variant, is_server, inside, comp):
    """build (bytes to feed, frame spec for the model, complete?) for one header value"""
    from harness import ref6455
    fin = bool(b0 & 0x80)
    rsv = (b0 >> 4) & 7
    opcode = b0 & 0x0F
    masked = bool(b1 & 0x80)
    l7 = b1 & 0x7F
    mask = b"\x37\xfa\x21\x3d" if masked else None
    if l7 <= 125:
        length, form = l7, 7
        ext = b""
    elif l7 == 126:
        length = {0: 126, 1: 125, 2: 300}[variant]
        form = 126
        ext = struct.pack("!H", length)
    else:
        length = {0: 65536, 1: 65535, 2: 1 << 63}[variant]
        form = 127
        ext = struct.pack("!Q", length)
    header = bytes([b0, b1]) + ext + (mask or b"")
    header_only = length > 400 or (rsv == 4 and comp and opcode in (1, 2) and length > 0)
    plen = min(length, 400)
    if opcode == 8 and plen >= 2:
        payload = (struct.pack("!H", 1000) + b"r" * (plen - 2))
    else:
        payload = (b"abcdefghijklmnopqrstuvwxyz" * 16)[:plen]
    if header_only:
        data = header
    else:
        data = header + (ref6455.xor_mask(payload, mask) if masked else payload)
    return data, (fin, rsv, opcode, masked, length, payload, form), not header_only


def header_table(col, ctx, stride, offset, shard, nshards):
    from harness import ref6455
    is_server, inside, comp, fbd = CONTEXTS[ctx]
    mk = b"\x01\x02\x03\x04"

    def frame(opcode, payload, fin=True):
        return ref6455.encode_frame(opcode, payload, fin=fin, mask=mk if is_server else None)
    values = [v for v in range(offset, 65536, stride)][shard::nshards]
    from harness.core import guarded_blocks
    for v in guarded_blocks(values):
        b0, b1 = v >> 8, v & 0xFF
        variants = (0, 1, 2) if (b1 & 0x7F) >= 126 else (0,)
        for variant in variants:
            data, spec, complete = header_case(b0, b1, variant, is_server, inside, comp)
            model = ref6455.Receiver(is_server, compression=comp)
            rx = Rx(is_server, comp, fbd)
            stream = b""
            if inside:
                stream += frame(1, b"a", fin=False)
                model.frame(False, 0, 1, is_server, 1, b"a", 7)
            stream += data
            if complete:
                going = model.frame(*spec[:5], spec[5], spec[6])
                # a following valid frame: continuation+fin when a message is open, else a whole text message
                if going:
                    if model.inside and model.cur and model.cur.get("rsv1"):
                        model.cur = None      # an open *compressed* message: no raw continuation can follow; judged up to here
                    elif model.inside:
                        stream += frame(0, b"z", fin=True)
                        model.frame(True, 0, 0, is_server, 1, b"z", 7)
                    else:
                        stream += frame(1, b"ok")
                        model.frame(True, 0, 1, is_server, 2, b"ok", 7)
                elif model.verdict:
                    stream += frame(1, b"ok")   # must be ignored after a violation
            else:
                # only the header is delivered: judge the header alone
                why = model._header(spec[0], spec[1], spec[2], spec[3], spec[4], spec[6])
                if why:
                    model.verdict = (1002, why)
                going = why is None
            case = {"check": "hdr", "ctx": ctx, "b0": b0, "b1": b1, "variant": variant}
            key = "C02|hdr"
            try:
                # two reads: first the two header octets, then the rest (exercises the need-more-data path)
                k = (len(stream) - len(data)) + 2
                rx.feed(stream[:k])
                rx.feed(stream[k:])
                obs = rx.finish()
            except Violation:
                raise
            except HarnessError:
                raise
            except Exception as e:
                raise Violation("C02|hdr|exception|" + exc_key(e), repr(e), case)
            if not complete and going and model.verdict is None:
                # header-only & legal: endpoint must still be open and silent
                if obs["dropped"] or [f for f in obs["frames"] if f.opcode == 8] or obs["closes"]:
                    raise Violation("C02|hdr|legal-header-failed", "legal header (payload withheld) made the endpoint fail: %r" % (obs["closes"] or obs["dropped"],), case)
            judge(model, None, obs, key, case, fbd, is_server)
            col.case(True, enum=True, cls="hdr/ctx%d/%s" % (ctx, "violation" if model.verdict else "ok"),
                     sample={"ctx": CONTEXTS[ctx], "b0": "%02x" % b0, "b1": "%02x" % b1, "variant": variant, "verdict": model.verdict})
    if stride == 1 and shard == 0:
        col.exhaustive.append("all 65536 first-two-octet values in context %r (server,inside,compression,failByDrop)" % (CONTEXTS[ctx],))


def close_codes(col, server, fbd, stride, offset):
    """every close status code (all below 5100, and a stride over the rest) as the peer's close frame"""
    from harness import ref6455
    mk = b"\x0a\x0b\x0c\x0d" if server else None
    codes = sorted(set(range(0, 5100)) | set(range(offset, 65536, stride)))
    from harness.core import guarded_blocks
    for code in guarded_blocks(codes):
        if code in (1012, 1013, 1014):
            continue   # registered after the RFC: don't-care
        for reason in (b"", b"bye"):
            payload = struct.pack("!H", code) + reason
            stream = ref6455.encode_frame(9, b"p1", mask=mk) + ref6455.encode_frame(8, payload, mask=mk)
            model = ref6455.Receiver(server)
            model.frame(True, 0, 9, server, 2, b"p1", 7)
            model.frame(True, 0, 8, server, len(payload), payload, 7)
            rx = Rx(server, False, fbd)
            case = {"check": "closecode", "server": server, "fbd": fbd, "code": code, "reason": reason}
            rx.feed(stream)
            obs = rx.finish()
            judge(model, None, obs, "C02|closecode", case, fbd, server)
            if model.verdict is None:
                # legal code: the endpoint must answer with a close frame of its own (not 1002) or (server) drop
                cw = [f for f in obs["frames"] if f.opcode == 8]
                if len(cw) != 1 or (len(cw[0].payload) >= 2 and struct.unpack("!H", cw[0].payload[:2])[0] == 1002):
                    raise Violation("C02|closecode|legal-code-treated-as-violation", "code %d: close frames written %r" % (code, [f.payload.hex() for f in cw]), case)
            col.case(True, enum=True, cls="closecode/%s" % ("illegal" if model.verdict else "legal"), sample={"code": code, "verdict": model.verdict})
    if stride == 1:
        col.exhaustive.append("all 65536 close status codes (except 1012-1014) as peer close frame, server=%r failByDrop=%r" % (server, fbd))


# ---------------------------------------------------------------------------
# (b) generated sequences

VIOLATIONS = ["rsv", "reserved-data-op", "reserved-ctl-op", "fragmented-control", "control>125", "continuation-without-start", "new-data-inside-message",
              "non-minimal-126", "non-minimal-127", "len>=2^63", "wrong-mask", "close-1-byte", "close-bad-code", "close-bad-utf8", "text-overlong",
              "text-surrogate", "text->10ffff", "text-truncated-at-end", "text-bad-in-2nd-fragment", "rsv1-control", "rsv1-continuation",
              "text-generated", "text-generated", "text-generated", "text-generated", "text-generated", "text-generated"]
# ways to spoil a valid UTF-8 text (RFC 3629): (name, octets appended after a valid prefix, may valid text follow?)
BAD_TEXT = [("trunc2", b"\xc3", False), ("trunc3a", b"\xe2", False), ("trunc3b", b"\xe2\x82", False), ("trunc4a", b"\xf0", False), ("trunc4b", b"\xf0\x9f", False),
            ("trunc4c", b"\xf0\x9f\x98", False), ("lone-continuation", b"\x80", True), ("bad-continuation", b"\xe2\x28", True), ("overlong2", b"\xc0\xaf", True),
            ("overlong3", b"\xe0\x80\xaf", True), ("overlong4", b"\xf0\x80\x80\xaf", True), ("surrogate", b"\xed\xa0\x80", True), ("surrogate-hi", b"\xed\xbf\xbf", True),
            (">10ffff", b"\xf4\x90\x80\x80", True), ("f5", b"\xf5\x80\x80\x80", True), ("fe", b"\xfe", True), ("ff", b"\xff", True), ("c1", b"\xc1\xbf", True)]
BAD_CODES = [0, 999, 1004, 1005, 1006, 1015, 1016, 2999, 5000, 65535]


def seq_strategy():
    from hypothesis import strategies as st
    from checks.wsdrive import utf8_text

    @st.composite
    def message(draw):
        binary = draw(st.booleans())
        n = draw(st.one_of(st.integers(0, 40), st.sampled_from([125, 126, 127, 300, 65535, 65536, 70000])))
        nfrag = draw(st.integers(1, 5))
        cuts = sorted(draw(st.lists(st.integers(0, n), min_size=nfrag - 1, max_size=nfrag - 1)))
        # control frames between the fragments: pings/pongs, occasionally the peer's (valid) close - after which the peer sends nothing more
        ctl = draw(st.lists(st.tuples(st.integers(0, nfrag), st.sampled_from([9, 10, 9, 10, 9, 10, 8]), st.integers(0, 125)), max_size=2))
        # "z": on a connection with permessage-deflate the peer compresses this message (RSV1 on its first frame) - or not: both are legal at any time
        return {"t": "msg", "bin": binary, "len": n, "salt": draw(st.integers(0, 999)), "cuts": cuts, "ctl": ctl, "z": draw(st.booleans())}

    item = st.one_of(message(), message(), st.fixed_dictionaries({"t": st.just("ctl"), "op": st.sampled_from([9, 10]), "len": st.integers(0, 125)}))

    @st.composite
    def case(draw):
        items = draw(st.lists(item, min_size=0, max_size=5))
        vio = draw(st.one_of(st.none(), st.sampled_from(VIOLATIONS)))
        vpos = draw(st.integers(0, len(items)))
        tail = draw(st.lists(item, min_size=0, max_size=2))
        close = draw(st.one_of(st.none(), st.tuples(st.sampled_from([None, 1000, 1001, 3000, 4999]), st.text(max_size=20))))
        return {"server": draw(st.booleans()), "fbd": draw(st.booleans()), "comp": draw(st.booleans()), "items": items, "vio": vio, "vpos": vpos, "tail": tail,
                "close": close, "code": draw(st.sampled_from(BAD_CODES)), "splits": draw(st.lists(st.integers(1, 80), max_size=12)),
                "utf8": draw(st.booleans()),
                "tv": {"bad": draw(st.integers(0, len(BAD_TEXT) - 1)), "pre": draw(st.one_of(st.integers(0, 30), st.sampled_from([124, 125, 126, 65534, 65536]))),
                       "suf": draw(st.integers(0, 12)), "salt": draw(st.integers(0, 99)),
                       # cut points as fractions of the message; equal cut points give empty fragments, 1000 = an empty final fragment
                       "cuts": draw(st.lists(st.sampled_from([0, 1, 250, 500, 900, 990, 999, 1000, 1000]), max_size=4)),
                       "edge": draw(st.lists(st.integers(-4, 0), max_size=2)), "ctl": draw(st.booleans())}}
    return case()


def build_frames(c):
    """-> list of frame dicts {fin,rsv,op,masked,payload,form,declared}"""
    from checks.wsdrive import utf8_text, pattern
    masked = c["server"]
    out = []

    def add(op, payload, fin=True, rsv=0, m=None, form=None, declared=None, header_only=False):
        out.append({"fin": fin, "rsv": rsv, "op": op, "masked": masked if m is None else m, "payload": payload, "form": form, "declared": declared,
                    "header_only": header_only})

    class PeerClosed(Exception):
        pass
    zcomp = zlib.compressobj(zlib.Z_DEFAULT_COMPRESSION, zlib.DEFLATED, -15)

    def emit_items(items):
        for it in items:
            if it["t"] == "ctl":
                add(it["op"], pattern(it["len"], 3))
                continue
            payload = pattern(it["len"], it["salt"]) if it["bin"] else utf8_text(it["len"], it["salt"])
            rsv1 = 0
            cuts = it["cuts"]
            if c["comp"] and it.get("z") and payload:
                payload = (zcomp.compress(payload) + zcomp.flush(zlib.Z_SYNC_FLUSH))[:-4]     # one compressor per connection: context takeover
                rsv1 = 4
                cuts = sorted(min(x, len(payload)) for x in cuts)
            parts, pos = [], 0
            for cpos in cuts + [len(payload)]:
                parts.append(payload[pos:cpos])
                pos = cpos
            for k, part in enumerate(parts):
                for (at, op, ln) in it["ctl"]:
                    if at == k and k > 0:
                        if op == 8:
                            add(8, struct.pack("!H", 1000 + ln % 2 * 2000) + (b"bye \xc3\xa9" if ln % 3 else b""))
                            raise PeerClosed()
                        add(op, pattern(ln, 5))
                add((2 if it["bin"] else 1) if k == 0 else 0, part, fin=(k == len(parts) - 1), rsv=rsv1 if k == 0 else 0)

    try:
        emit_items(c["items"][:c["vpos"]])
        v = c["vio"]
        if v == "rsv":
            add(1, b"x", rsv=2)
        elif v == "reserved-data-op":
            add(3, b"x")
        elif v == "reserved-ctl-op":
            add(11, b"")
        elif v == "fragmented-control":
            add(9, b"p", fin=False)
        elif v == "control>125":
            add(9, b"p" * 126)
        elif v == "continuation-without-start":
            add(0, b"x")
        elif v == "new-data-inside-message":
            add(1, b"a", fin=False)
            add(1, b"b")
        elif v == "non-minimal-126":
            add(2, b"x" * 100, form=126)
        elif v == "non-minimal-127":
            add(2, b"x" * 200, form=127)
        elif v == "len>=2^63":
            add(2, b"", form=127, declared=(1 << 63) + 5, header_only=True)
        elif v == "wrong-mask":
            add(1, b"x", m=not masked)
        elif v == "close-1-byte":
            add(8, b"\x03")
        elif v == "close-bad-code":
            add(8, struct.pack("!H", c["code"]) + b"bye")
        elif v == "close-bad-utf8":
            add(8, struct.pack("!H", 1000) + b"\xc3\x28")
        elif v == "text-overlong":
            add(1, b"ab\xc0\xafcd")
        elif v == "text-surrogate":
            add(1, b"ab\xed\xa0\x80")
        elif v == "text->10ffff":
            add(1, b"\xf4\x90\x80\x80")
        elif v == "text-truncated-at-end":
            add(1, b"ok\xe2\x82")
        elif v == "text-bad-in-2nd-fragment":
            add(1, b"\xe2\x82", fin=False)
            add(0, b"\x28rest")
        elif v == "text-generated":
            tv = c["tv"]
            name, bad, follow = BAD_TEXT[tv["bad"]]
            payload = utf8_text(tv["pre"], tv["salt"]) + bad + (utf8_text(tv["suf"], tv["salt"] + 1) if follow else b"")
            badpos = tv["pre"] + len(bad)
            cuts = sorted(set(min(len(payload), len(payload) * f // 1000) for f in tv["cuts"] if f < 1000) | set(max(0, min(len(payload), badpos + e)) for e in tv["edge"]))
            cuts = [x for x in cuts] + ([len(payload)] if 1000 in tv["cuts"] else [])
            parts, pos = [], 0
            for cpos in cuts + [len(payload)]:
                parts.append(payload[pos:cpos])
                pos = cpos
            for k, part in enumerate(parts):
                if tv["ctl"] and k == len(parts) - 1 and k > 0:
                    add(9, b"mid")
                add(1 if k == 0 else 0, part, fin=(k == len(parts) - 1))
        elif v == "rsv1-control":
            add(9, b"p", rsv=4)
        elif v == "rsv1-continuation":
            add(1, b"a", fin=False)
            add(0, b"b", rsv=4)
        emit_items(c["items"][c["vpos"]:])
        emit_items(c["tail"])
        if c["close"] is not None:
            code, reason = c["close"]
            add(8, b"" if code is None else struct.pack("!H", code) + reason.encode("utf-8")[:100])
    except PeerClosed:
        pass
    return out


def run_stream(c, frames, schedule):
    from harness import ref6455
    rx = Rx(c["server"], c["comp"], c["fbd"], {"utf8validateIncoming": True})
    mk = b"\xa1\xb2\xc3\xd4"
    chunks = []
    for f in frames:
        chunks.append(ref6455.encode_frame(f["op"], f["payload"], fin=f["fin"], rsv=f["rsv"], mask=mk if f["masked"] else None, len_form=f["form"],
                                           declared_len=f["declared"], header_only=f["header_only"]))
    data = b"".join(chunks)
    if schedule == "one":
        rx.feed(data)
    elif schedule == "bytes":
        if len(data) > 3000:
            step = 1 + len(data) // 1500
            for i in range(0, len(data), step):
                rx.feed(data[i:i + step])
        else:
            for i in range(len(data)):
                rx.feed(data[i:i + 1])
    elif schedule == "burst":      # several reads per event-loop turn
        step = 5 if len(data) < 3000 else 1 + len(data) // 600
        k = 0
        for i in range(0, len(data), step):
            k += 1
            rx.feed(data[i:i + step], settle=(k % 4 == 0))
        rx.feed(b"")
    elif schedule == "hdr":
        pos = 0
        cutpoints = set()
        for ch in chunks:
            for d in (1, 2, 3):
                cutpoints.add(pos + d)
            cutpoints.add(pos + len(ch) - 1)
            pos += len(ch)
        prev = 0
        for cp in sorted(x for x in cutpoints if 0 < x < len(data)):
            rx.feed(data[prev:cp])
            prev = cp
        rx.feed(data[prev:])
    else:
        pos = 0
        k = 0
        sp = c["splits"] or [7]
        while pos < len(data):
            n = sp[k % len(sp)] * (1 if len(data) < 4000 else 37)
            rx.feed(data[pos:pos + n])
            pos += n
            k += 1
    return rx.finish()


def run_twins(c, frames):
    """the same stream into TWO connections of one process, their reads interleaved chunk by chunk (the second one lags by one chunk, and the
    roles differ when the stream allows it): state must not leak between connections"""
    from harness import ref6455, drv
    mk = b"\xa1\xb2\xc3\xd4"
    data = b"".join(ref6455.encode_frame(f["op"], f["payload"], fin=f["fin"], rsv=f["rsv"], mask=mk if f["masked"] else None, len_form=f["form"],
                                        declared_len=f["declared"], header_only=f["header_only"]) for f in frames)
    d = drv.get_driver()
    try:
        a = Rx(c["server"], c["comp"], c["fbd"], {"utf8validateIncoming": True}, d=d)
        b = Rx(c["server"], c["comp"], c["fbd"], {"utf8validateIncoming": True}, d=d)
        step = 3 if len(data) < 2000 else 1 + len(data) // 400
        chunks = [data[i:i + step] for i in range(0, len(data), step)]
        for k in range(len(chunks) + 1):
            if k < len(chunks):
                a.feed(chunks[k])
            if k >= 1:
                b.feed(chunks[k - 1])
        oa, ob = a.finish(), b.finish()
    finally:
        d.close()
    return oa, ob


def check_sequence(c):
    from harness import ref6455
    frames = build_frames(c)
    model = ref6455.Receiver(c["server"], compression=c["comp"], utf8=True)
    if c["comp"]:
        model.inflater = ref6455.RawInflater(15, False)
    for f in frames:
        length = f["declared"] if f["declared"] is not None else len(f["payload"])
        form = f["form"] or (7 if length <= 125 else (126 if length <= 0xFFFF else 127))
        if not model.frame(f["fin"], f["rsv"], f["op"], f["masked"], length, f["payload"], form):
            break
    first = None
    for schedule in ("one", "bytes", "hdr", "drawn", "burst"):
        case = dict(c, check="seq", schedule=schedule)
        key = "C02|seq"
        try:
            obs = run_stream(c, frames, schedule)
        except (Violation, HarnessError):
            raise
        except Exception as e:
            raise Violation("C02|seq|exception|" + exc_key(e), "schedule %s: %r" % (schedule, e), case)
        judge(model, frames, obs, key, case, c["fbd"], c["server"])
        summary = (obs["events"], [(f.opcode, f.payload[:2] if f.opcode == 8 else f.payload) for f in obs["frames"]], None if model.verdict else obs["dropped"])
        if first is None:
            first = summary
        elif summary != first:
            raise Violation("C02|seq|schedule-dependent-verdict", "schedule %s differs from one-read delivery" % schedule, case)
    if len(frames) <= 40 and sum(len(f["payload"]) for f in frames) <= 200000:
        for which, obs in zip("ab", run_twins(c, frames)):
            case = dict(c, check="seq", schedule="twins")
            judge(model, frames, obs, "C02|seq|two-connections-interleaved", case, c["fbd"], c["server"])
    return model, frames


def sequences(col, seed, n):
    def body(c):
        model, frames = check_sequence(c)
        ctl_inside = any(f["op"] >= 8 for i, f in enumerate(frames) if 0 < i < len(frames) - 1 and not frames[i - 1]["fin"] and frames[i - 1]["op"] < 8)
        nt = c["vio"] is not None or (len(frames) >= 3 and ctl_inside)
        col.case(nt, dig=c, cls=["seq/" + ("violation:" + c["vio"] if c["vio"] else "valid"), "seq/%s" % ("server" if c["server"] else "client"),
                                 "seq/failByDrop=%s" % c["fbd"]] + (["seq/control-inside-fragmented"] if ctl_inside else [])
                 + (["seq/bad-text/" + BAD_TEXT[c["tv"]["bad"]][0]] if c["vio"] == "text-generated" else [])
                 + (["seq/empty-final-fragment"] if any(f["op"] == 0 and f["fin"] and not f["payload"] for f in frames) else []),
                 sample={"role": "server" if c["server"] else "client", "fbd": c["fbd"], "comp": c["comp"], "vio": c["vio"], "nframes": len(frames),
                         "frames": [(f["op"], f["fin"], len(f["payload"])) for f in frames[:10]], "verdict": model.verdict})
    run_hypothesis(col, "seq", seq_strategy(), body, n, seed)


def close_codes_one(col, c):
    from harness import ref6455
    server, fbd, code, reason = c["server"], c["fbd"], c["code"], c["reason"]
    mk = b"\x0a\x0b\x0c\x0d" if server else None
    payload = struct.pack("!H", code) + reason
    model = ref6455.Receiver(server)
    model.frame(True, 0, 8, server, len(payload), payload, 7)
    rx = Rx(server, False, fbd)
    rx.feed(ref6455.encode_frame(8, payload, mask=mk))
    judge(model, None, rx.finish(), "C02|closecode", c, fbd, server)


def replay(col, case):
    from harness import ref6455
    case = dec(case)
    c = case.get("case", case)
    if c.get("check") == "closecode":
        close_codes_one(col, c)
    elif c.get("check") == "fuzz-stream":
        fuzz_stream_one(col, bytes([(1 if c["server"] else 0) | (2 if c["fbd"] else 0) | (4 if c["schedule"] == "bytes" else 0)]) + c["stream"])
        return
    elif c.get("check") == "hdr":
        # re-run the single header value through a one-value table
        ctx = c["ctx"]
        v = (c["b0"] << 8) | c["b1"]
        header_table(col, ctx, 65536, v, 0, 1)
    else:
        c = dict(c)
        c.pop("check", None)
        c.pop("schedule", None)
        check_sequence(c)
    col.case()


# ---------------------------------------------------------------- coverage-guided second opinion (atheris, thorough tier)

def walk_raw(raw, model):
    """independent header walker over raw octets: feeds the reference receiver frame by frame and returns how many octets of `raw` form
    the judged prefix: all complete frames up to the verdict/close, plus the bare header of a following frame whose header alone is a violation.
    Incomplete trailing headers/payloads are cut off (what a receiver does with a partial frame is not fixed by the property)."""
    from harness import ref6455
    pos = 0
    upto = 0
    n = 0
    while len(raw) - pos >= 2:
        b0, b1 = raw[pos], raw[pos + 1]
        fin, rsv, op = bool(b0 & 0x80), (b0 >> 4) & 7, b0 & 15
        masked, l7 = bool(b1 & 0x80), b1 & 0x7F
        ext = 2 if l7 == 126 else (8 if l7 == 127 else 0)
        form = 126 if l7 == 126 else (127 if l7 == 127 else 7)
        hl = 2 + ext + (4 if masked else 0)
        if len(raw) - pos < hl:
            break
        length = l7 if not ext else int.from_bytes(raw[pos + 2:pos + 2 + ext], "big")
        if model._header(fin, rsv, op, masked, length, form):
            model.frame(fin, rsv, op, masked, length, b"", form)
            upto = pos + hl
            n += 1
            break
        if len(raw) - pos - hl < length:
            break
        payload = raw[pos + hl:pos + hl + length]
        if masked:
            payload = ref6455.xor_mask(payload, raw[pos + hl - 4:pos + hl])
        cont = model.frame(fin, rsv, op, masked, length, payload, form)
        pos += hl + length
        upto = pos
        n += 1
        if not cont:
            break
    return upto, n


def fuzz_stream_one(col, data):
    from harness import ref6455
    if len(data) < 3:
        return
    sel = data[0]
    server, fbd, sched = bool(sel & 1), bool(sel & 2), ("bytes" if sel & 4 else "one")
    raw = data[1:]
    model = ref6455.Receiver(server, compression=False, utf8=True)
    upto, nframes = walk_raw(raw, model)
    stream = raw[:upto]
    case = {"check": "fuzz-stream", "server": server, "fbd": fbd, "schedule": sched, "stream": stream}
    first = None
    for schedule in ("one", sched) if sched != "one" else ("one",):
        rx = Rx(server, False, fbd, {"utf8validateIncoming": True})
        try:
            if schedule == "one":
                rx.feed(stream)
            else:
                for i in range(len(stream)):
                    rx.feed(stream[i:i + 1])
        except (Violation, HarnessError):
            raise
        except Exception as e:
            raise Violation("C02|fuzz|exception|" + exc_key(e), "schedule %s: %r" % (schedule, e), case)
        obs = rx.finish()
        judge(model, None, obs, "C02|fuzz", dict(case, schedule=schedule), fbd, server)
        summary = (obs["events"], [(f.opcode, f.payload[:2] if f.opcode == 8 else f.payload) for f in obs["frames"]], None if model.verdict else obs["dropped"])
        if first is None:
            first = summary
        elif summary != first:
            raise Violation("C02|fuzz|schedule-dependent-verdict", "byte-wise delivery differs from one-read delivery", case)
    kind = ("violation:" + model.verdict[1].split(" ")[0]) if model.verdict else ("closed" if model.closed_by_peer else "valid")
    col.case(nframes >= 1 and (model.verdict is not None or nframes >= 2), dig=[server, fbd, stream], cls=["fuzz-stream/" + kind, "fuzz-stream/frames:%d" % min(nframes, 4)],
             sample={"server": server, "fbd": fbd, "stream": stream[:40], "frames": nframes, "verdict": model.verdict})


def _fuzz_stream_make(col):
    return lambda data: fuzz_stream_one(col, data)


def _fuzz_stream_seeds():
    from harness import ref6455
    mk = b"\x01\x02\x03\x04"
    out = []
    for sel in range(8):
        m = mk if sel & 1 else None
        out.append(bytes([sel]) + ref6455.encode_frame(1, "héllo".encode(), mask=m) + ref6455.encode_frame(9, b"pi", mask=m) + ref6455.encode_frame(2, b"\x00" * 130, mask=m))
        out.append(bytes([sel]) + ref6455.encode_frame(1, b"\xe2\x82", fin=False, mask=m) + ref6455.encode_frame(10, b"", mask=m) + ref6455.encode_frame(0, b"\xac", mask=m)
                   + ref6455.encode_frame(8, b"\x03\xe8bye", mask=m))
    return out


FUZZ = {"stream": {"make": _fuzz_stream_make, "seeds": _fuzz_stream_seeds, "imports": ["autobahn.websocket.protocol", "autobahn.websocket.utf8validator", "autobahn.websocket.xormasker"]}}


def fuzz(col, target, runs, seed, max_len=600):
    from harness import fuzzjob
    fuzzjob.run(col, "c02_ws_receive", target, runs, seed, max_len)
