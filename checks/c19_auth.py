"""C19 - authentication signatures interoperate and mutual authentication is enforced."""
import base64
import binascii
import hashlib
import hmac
import struct

from harness.core import Violation, HarnessError, run_hypothesis, dec, exc_key

DESCRIPTION = {
    "level": "exploration",
    "rule": ("Hypothesis draws secrets (incl. non-ASCII), salts, iteration counts 1..2000, key lengths 1..64, challenges, TOTP base32 secrets x clock instants "
             "(incl. RFC 6238 appendix-B times) x offsets, SCRAM passwords/authids/salts/costs for both KDFs, Ed25519 seeds x challenges x channel ids. "
             "Oracle = independent verifiers: hashlib.pbkdf2_hmac + hmac (CRA), RFC 4226/6238 reference from hmac/struct + the RFC vectors (TOTP), RFC 5802 "
             "verification (recover ClientKey from the proof, H(ClientKey)==StoredKey; ServerSignature) with SaltedPassword from hashlib / argon2 raw API (SCRAM), "
             "cryptography's Ed25519 public-key verification over challenge XOR channel-id (cryptosign).  CRA authenticators are re-used for further challenges with the same salt and other iteration counts / key lengths.  Every single-bit alteration and several re-spellings of a TOTP ticket are rejected by check_totp.  Exhaustive tampering: every single-bit flip of the SCRAM "
             "server signature (256) must be rejected by on_welcome, as must any WELCOME that was not preceded by a processed CHALLENGE (incl. the signature computable from empty inputs); every single-bit flip of an Ed25519 signature (512) rejected; altered challenge/key/salt "
             "changes the signature.  Whole-session SCRAM job (Session.add_authenticator against a scripted router) x 9 WELCOME authextra variants: joins only for the correct server signature.  Cryptosign authenticators are also built with an explicit public key and through create_authenticator.  Non-trivial = non-ASCII secret, boundary length, or a tampered value; distinct by (mechanism, parameter digest)."),
    "assumptions": ["Argon2 costs kept small (time<=3, memory<=64KiB) to keep the search wide", "TOTP clock = autobahn.wamp.auth.time patched to drawn instants"],
}


def plan(tier, seed):
    q = tier == "quick"
    jobs = [
        {"func": "cra", "name": "cra", "args": {"seed": seed * 1000 + 1, "n": 1500 if q else 30000}},
        {"func": "totp", "name": "totp", "args": {"seed": seed * 1000 + 2, "n": 2000 if q else 60000}},
        {"func": "scram", "name": "scram/argon", "args": {"seed": seed * 1000 + 3, "n": 200 if q else 4000, "kdf": "argon2id-13"}},
        {"func": "scram", "name": "scram/pbkdf2", "args": {"seed": seed * 1000 + 4, "n": 200 if q else 4000, "kdf": "pbkdf2"}},
        {"func": "cryptosign", "name": "cryptosign/tx", "fw": "twisted", "args": {"seed": seed * 1000 + 5, "n": 500 if q else 15000}},
        {"func": "cryptosign", "name": "cryptosign/aio", "fw": "asyncio", "args": {"seed": seed * 1000 + 6, "n": 500 if q else 15000}},
    ]
    for fw in ("twisted", "asyncio"):
        jobs.append({"func": "scram_session", "fw": fw, "name": "scram_session/" + fw, "args": {}})
    if not q:
        for k in range(4):
            jobs.append({"func": "scram", "name": "scram/x%d" % k, "args": {"seed": seed * 1000 + 10 + k, "n": 400, "kdf": ["argon2id-13", "pbkdf2"][k % 2]}})
    return jobs


def secrets_st():
    from hypothesis import strategies as st
    return st.one_of(st.text(st.characters(blacklist_categories=("Cs",)), min_size=1, max_size=24),
                     st.sampled_from(["secret", "päßwörd", "密码", "a" * 64, "x" * 65, "é́", " lead", "trail "]))


# ---------------------------------------------------------------- CRA

def cra(col, seed, n, only=None):
    from hypothesis import strategies as st
    from autobahn.wamp import auth
    from autobahn.wamp.types import Challenge

    strat = st.fixed_dictionaries({
        "secret": secrets_st(), "salt": st.one_of(st.none(), st.text(min_size=0, max_size=20), st.sampled_from(["salt123", "", "s" * 64])),
        "iterations": st.one_of(st.sampled_from([1, 2, 1000]), st.integers(1, 2000)), "keylen": st.one_of(st.sampled_from([1, 16, 32, 33, 64]), st.integers(1, 64)),
        "challenge": st.text(min_size=0, max_size=80), "as_bytes": st.booleans()})

    def body(c):
        case = dict(c, check="cra")
        secret_b = c["secret"].encode("utf8")
        # pbkdf2 / derive_key
        salt = c["salt"]
        if salt is not None:
            salt_b = salt.encode("utf8")
            ref = hashlib.pbkdf2_hmac("sha256", secret_b, salt_b, c["iterations"], c["keylen"])
            got = auth.pbkdf2(secret_b, salt_b, c["iterations"], c["keylen"])
            if got != ref:
                raise Violation("C19|cra|pbkdf2-differs", "pbkdf2 != hashlib.pbkdf2_hmac", case)
            dk = auth.derive_key(secret_b if c["as_bytes"] else c["secret"], salt_b if c["as_bytes"] else salt, c["iterations"], c["keylen"])
            if dk != base64.b64encode(ref):
                raise Violation("C19|cra|derive_key-differs", "%r vs %r" % (dk, base64.b64encode(ref)), case)
            key = base64.b64encode(ref)
        else:
            key = secret_b
        ch = c["challenge"]
        ref_sig = base64.b64encode(hmac.new(key, ch.encode("utf8"), hashlib.sha256).digest())
        got = auth.compute_wcs(key if c["as_bytes"] else key.decode("ascii", "surrogateescape") if salt is not None else (key if c["as_bytes"] else c["secret"]),
                               ch.encode("utf8") if c["as_bytes"] else ch)
        if got != ref_sig:
            raise Violation("C19|cra|compute_wcs-differs", "%r vs %r" % (got, ref_sig), case)
        extra = {"challenge": ch}
        if salt is not None:
            extra.update(salt=salt, iterations=c["iterations"], keylen=c["keylen"])
        a = auth.AuthWampCra(authid="joe", secret=(secret_b if c["as_bytes"] else c["secret"]))
        sig = a.on_challenge(None, Challenge("wampcra", extra))
        if not isinstance(sig, str) or not hmac.compare_digest(sig.encode("ascii"), ref_sig):
            raise Violation("C19|cra|on_challenge-signature-rejected-by-verifier", "%r vs %r" % (sig, ref_sig), case)
        if a.on_welcome(None, {}) is not None:
            raise Violation("C19|cra|on_welcome", "non-None", case)
        # the same authenticator object answers later challenges (a session that re-joins): every answer is computed from *that* challenge's parameters
        if salt is not None:
            for it2, kl2, ch2 in ((c["iterations"] + 1, c["keylen"], ch), (c["iterations"], c["keylen"] + 1, ch), (c["iterations"], c["keylen"], ch + "2"),
                                  (c["iterations"], c["keylen"], ch)):
                ref2 = base64.b64encode(hmac.new(base64.b64encode(hashlib.pbkdf2_hmac("sha256", secret_b, salt_b, it2, kl2)), ch2.encode("utf8"), hashlib.sha256).digest())
                sig2 = a.on_challenge(None, Challenge("wampcra", {"challenge": ch2, "salt": salt, "iterations": it2, "keylen": kl2}))
                if not isinstance(sig2, str) or sig2.encode("ascii") != ref2:
                    raise Violation("C19|cra|reused-authenticator-signature-rejected-by-verifier", "second challenge (iterations %d->%d, keylen %d->%d): %r vs %r" % (
                        c["iterations"], it2, c["keylen"], kl2, sig2, ref2), case)
        # alterations change the signature (derived keys shorter than 8 bytes collide by chance: not asserted there)
        strong = salt is None or c["keylen"] >= 8
        extra2 = dict(extra, challenge=ch + "x")
        if auth.AuthWampCra(authid="joe", secret=c["secret"]).on_challenge(None, Challenge("wampcra", extra2)) == sig:
            raise Violation("C19|cra|altered-challenge-same-signature", "", case)
        if strong and auth.AuthWampCra(authid="joe", secret=c["secret"] + "x").on_challenge(None, Challenge("wampcra", extra)) == sig:
            raise Violation("C19|cra|altered-secret-same-signature", "", case)
        if salt is not None and strong:
            extra3 = dict(extra, salt=salt + "x")
            if auth.AuthWampCra(authid="joe", secret=c["secret"]).on_challenge(None, Challenge("wampcra", extra3)) == sig:
                raise Violation("C19|cra|altered-salt-same-signature", "", case)
        nonascii = any(ord(ch_) > 127 for ch_ in c["secret"])
        col.case(nonascii or salt is not None, dig=c, cls=["cra/" + ("salted" if salt is not None else "unsalted")] + (["cra/non-ascii-secret"] if nonascii else []),
                 sample={k: c[k] for k in ("secret", "salt", "iterations", "keylen")})
    run_hypothesis(col, "cra", st.just(only) if only is not None else strat, body, 1 if only is not None else n, seed, shrink=only is None)


# ---------------------------------------------------------------- TOTP

def hotp_ref(key, counter, digits=6):
    d = hmac.new(key, struct.pack(">Q", counter), hashlib.sha1).digest()
    o = d[-1] & 0x0F
    code = (struct.unpack(">I", d[o:o + 4])[0] & 0x7FFFFFFF) % (10 ** digits)
    return ("%0" + str(digits) + "d") % code


RFC6238 = [(59, "94287082"), (1111111109, "07081804"), (1111111111, "14050471"), (1234567890, "89005924"), (2000000000, "69279037"), (20000000000, "65353130")]


class FakeTime:
    def __init__(self, real):
        self._real = real
        self.now = 0.0

    def time(self):
        return self.now

    def __getattr__(self, k):
        return getattr(self._real, k)


def totp(col, seed, n, only=None):
    from hypothesis import strategies as st
    from autobahn.wamp import auth
    import time as real_time
    ft = FakeTime(real_time)
    if not hasattr(auth, "time"):
        raise HarnessError("autobahn.wamp.auth has no 'time' module attribute to patch")
    auth.time = ft
    rfc_secret = base64.b32encode(b"12345678901234567890").decode("ascii")
    for t, code8 in RFC6238:
        ft.now = float(t)
        got = auth.compute_totp(rfc_secret)
        case = {"check": "totp", "secret": rfc_secret, "t": t, "offset": 0}
        if got != code8[-6:]:
            raise Violation("C19|totp|rfc6238-vector", "T=%d: got %s expected ..%s" % (t, got, code8[-6:]), case)
        col.case(True, dig=["rfc", t], cls="totp/rfc6238-vector", sample=case)
    strat = st.fixed_dictionaries({
        "key": st.one_of(st.binary(min_size=10, max_size=64), st.sampled_from([b"12345678901234567890", b"\x00" * 10, b"\xff" * 20])),
        "t": st.one_of(st.sampled_from([120, 149, 150, 179, 1111111109, 2 ** 31 - 1, 2 ** 31, 2 ** 32 + 5, 20000000000]), st.integers(120, 2 ** 36),
                       st.floats(120, 2 ** 33, allow_nan=False)),
        "offset": st.integers(-3, 3)})

    def body(c):
        case = dict(c, check="totp")
        # base32 without padding issues: lengths that are multiples of 5 encode without '='; others carry padding (still valid base32)
        secret = base64.b32encode(c["key"]).decode("ascii")
        ft.now = c["t"]
        counter = int(c["t"]) // 30 + c["offset"]
        if counter < 0:
            return
        got = auth.compute_totp(secret, c["offset"])
        ref = hotp_ref(c["key"], counter)
        if got != ref:
            raise Violation("C19|totp|compute-differs", "got %s expected %s" % (got, ref), case)
        # check_totp window: -1, 0, +1
        base_counter = int(c["t"]) // 30
        for off in (-2, -1, 0, 1, 2):
            if base_counter + off < 0:
                continue
            ticket = hotp_ref(c["key"], base_counter + off)
            window = {hotp_ref(c["key"], base_counter + k) for k in (-1, 0, 1) if base_counter + k >= 0}
            ok = auth.check_totp(secret, ticket)
            if ok != (ticket in window):
                raise Violation("C19|totp|check-window", "offset %d ticket %s accepted=%r expected %r" % (off, ticket, ok, ticket in window), case)
        # every single-bit alteration of a genuine ticket (and a few re-spellings of the same number) is a different ticket
        window = {hotp_ref(c["key"], base_counter + k) for k in (-1, 0, 1) if base_counter + k >= 0}
        genuine = hotp_ref(c["key"], base_counter)
        raw = genuine.encode("ascii")
        altered = []
        for bit in range(len(raw) * 8):
            b = bytearray(raw)
            b[bit // 8] ^= 1 << (bit % 8)
            try:
                altered.append(bytes(b).decode("utf-8"))
            except UnicodeDecodeError:
                pass
        altered += [" " + genuine, genuine + " ", genuine + "\n", "+" + genuine, genuine.lstrip("0") or "0", "0" + genuine, genuine[:3] + "_" + genuine[3:], genuine[:-1]]
        for t_ in altered:
            if t_ not in window:
                try:
                    acc = auth.check_totp(secret, t_)
                except Exception:
                    acc = False
                if acc:
                    raise Violation("C19|totp|altered-ticket-accepted", "genuine %r, altered %r accepted" % (genuine, t_), case)
        wrong = "%06d" % ((int(ref) + 1) % 1000000)
        if auth.check_totp(secret, wrong) and wrong not in {hotp_ref(c["key"], base_counter + k) for k in (-1, 0, 1) if base_counter + k >= 0}:
            raise Violation("C19|totp|wrong-ticket-accepted", wrong, case)
        col.case(c["offset"] != 0 or c["t"] >= 2 ** 31, dig=[c["key"], int(c["t"]) // 30, c["offset"]], cls=["totp/offset:%d" % c["offset"]],
                 sample={"keylen": len(c["key"]), "t": c["t"], "offset": c["offset"]})
    try:
        run_hypothesis(col, "totp", st.just(only) if only is not None else strat, body, 1 if only is not None else n, seed, shrink=only is None)
    finally:
        auth.time = real_time


# ---------------------------------------------------------------- SCRAM

class _Log:
    def error(self, *a, **k):
        pass
    info = debug = warn = error


class _Sess:
    log = _Log()


def scram_salted_password(kdf, password_b, salt_b64, iterations, memory):
    salt = base64.b64decode(salt_b64)
    if kdf == "pbkdf2":
        return hashlib.pbkdf2_hmac("sha256", password_b, salt, iterations, 32)
    from argon2.low_level import hash_secret_raw, Type
    raw = hash_secret_raw(secret=password_b, salt=salt, time_cost=iterations, memory_cost=memory, parallelism=1, hash_len=32, type=Type.ID, version=19)
    # WAMP-SCRAM (as pinned by the repository's static tests) keys the HMACs with the argon2 *encoded* hash field (unpadded base64)
    return base64.b64encode(raw).rstrip(b"=")


def scram(col, seed, n, kdf, only=None):
    from hypothesis import strategies as st
    from autobahn.wamp import auth
    from autobahn.wamp.types import Challenge
    from passlib.utils import saslprep
    ascii_pw = st.text(st.characters(min_codepoint=33, max_codepoint=126), min_size=1, max_size=16)
    strat = st.fixed_dictionaries({
        "password": st.one_of(ascii_pw, ascii_pw, st.sampled_from(["päßwörd", "密码", "pªq", "a b", "IⅨ"])),
        "authid": st.one_of(ascii_pw, st.sampled_from(["user@example.com", "jöe", "IⅨ", "a­b"])),
        "salt": st.binary(min_size=8, max_size=24), "iterations": st.integers(1, 3) if kdf != "pbkdf2" else st.integers(1, 300),
        "memory": st.sampled_from([8, 16, 32, 64]), "server_nonce": st.binary(min_size=8, max_size=16),
        "channel_binding": st.sampled_from([None, "", "tls-unique"]), "flip": st.integers(0, 255),
        "cnonce": st.binary(min_size=16, max_size=16)})     # the client nonce (os.urandom in the library) is part of the case: the run stays a pure function of it

    def body(c):
        case = dict(c, check="scram", kdf=kdf)
        try:
            authid_prepped = saslprep(c["authid"])
        except ValueError:
            return   # authid not admissible for SASLprep: outside the domain
        import os
        orig_urandom = os.urandom
        os.urandom = lambda n: (c.get("cnonce", b"\x5a" * 16) * (n // 16 + 1))[:n]
        try:
            a = auth.AuthScram(authid=c["authid"], password=c["password"])
            client_nonce = a.authextra["nonce"]
        finally:
            os.urandom = orig_urandom
        salt_b64 = base64.b64encode(c["salt"]).decode("ascii")
        server_nonce = client_nonce + base64.b64encode(c["server_nonce"]).decode("ascii")
        extra = {"nonce": server_nonce, "kdf": kdf, "salt": salt_b64, "iterations": c["iterations"]}
        if kdf != "pbkdf2":
            extra["memory"] = c["memory"]
        if c["channel_binding"] is not None:
            extra["channel_binding"] = c["channel_binding"]
        try:
            proof_b64 = a.on_challenge(None, Challenge("scram", extra))
        except Exception as e:
            raise Violation("C19|scram|%s|on_challenge-raises|%s" % (kdf, exc_key(e)), "%r for a well-formed challenge %r" % (e, extra), case)
        proof = base64.b64decode(proof_b64)
        cb = c["channel_binding"] or ""
        auth_message = ("n=%s,r=%s,r=%s,s=%s,i=%d,c=%s,r=%s" % (authid_prepped, client_nonce, server_nonce, salt_b64, c["iterations"], cb, server_nonce)).encode("utf8")

        def verify(password_b):
            sp = scram_salted_password(kdf, password_b, salt_b64, c["iterations"], c["memory"])
            client_key = hmac.new(sp, b"Client Key", hashlib.sha256).digest()
            stored_key = hashlib.sha256(client_key).digest()
            client_sig = hmac.new(stored_key, auth_message, hashlib.sha256).digest()
            recovered = bytes(x ^ y for x, y in zip(proof, client_sig))
            server_sig = hmac.new(hmac.new(sp, b"Server Key", hashlib.sha256).digest(), auth_message, hashlib.sha256).digest()
            return len(proof) == 32 and hashlib.sha256(recovered).digest() == stored_key, server_sig
        try:
            normalized = saslprep(c["password"])
        except ValueError:
            normalized = c["password"]
        ok, server_sig = verify(normalized.encode("utf8"))
        if not ok:
            ok_raw, server_sig_raw = verify(c["password"].encode("utf8"))
            if ok_raw and normalized != c["password"]:
                col.finding("C19|scram|password-not-saslprep-normalized", "proof only verifies against the un-normalized password %r (RFC 5802 Normalize() gives %r)" % (c["password"], normalized), case)
                server_sig = server_sig_raw
            else:
                raise Violation("C19|scram|%s|proof-rejected-by-rfc5802-verifier" % kdf, "extra=%r" % (extra,), case)
        # mutual authentication
        res = a.on_welcome(_Sess(), {"scram_server_signature": base64.b64encode(server_sig).decode("ascii")})
        if res is not None:
            raise Violation("C19|scram|%s|correct-server-signature-rejected" % kdf, repr(res), case)
        for bit in range(256):
            bad = bytearray(server_sig)
            bad[bit // 8] ^= 1 << (bit % 8)
            res = a.on_welcome(_Sess(), {"scram_server_signature": base64.b64encode(bytes(bad)).decode("ascii")})
            if res is None:
                raise Violation("C19|scram|%s|tampered-server-signature-accepted" % kdf, "bit %d flipped" % bit, case)
        for bad in (server_sig[:31], server_sig + b"\x00", b"", server_sig[::-1] if server_sig[::-1] != server_sig else b"x" * 32):
            res = a.on_welcome(_Sess(), {"scram_server_signature": base64.b64encode(bad).decode("ascii")})
            if res is None:
                raise Violation("C19|scram|%s|tampered-server-signature-accepted" % kdf, "altered length/order", case)
        # a WELCOME that arrives without any CHALLENGE having been processed (a router skipping the exchange) must never be accepted: neither with the
        # genuine signature of another exchange nor with the value anybody can compute from empty inputs
        forged = hmac.new(hmac.new(b"", b"Server Key", hashlib.sha256).digest(), b"", hashlib.sha256).digest()
        for label, sig_ in (("genuine-of-other-exchange", server_sig), ("hmac-of-empty-inputs", forged), ("zeros", b"\x00" * 32)):
            fresh = auth.AuthScram(authid=c["authid"], password=c["password"])
            try:
                res = fresh.on_welcome(_Sess(), {"scram_server_signature": base64.b64encode(sig_).decode("ascii")})
            except Exception:
                res = "raised"      # an exception aborts the join: a rejection
            if res is None:
                raise Violation("C19|scram|%s|welcome-without-challenge-accepted|%s" % (kdf, label), "on_welcome returned None although no challenge was ever processed", case)
        # alteration of salt / password changes the proof
        a2 = auth.AuthScram(authid=c["authid"], password=c["password"])
        a2._client_nonce = client_nonce
        extra2 = dict(extra, salt=base64.b64encode(c["salt"][:-1] + bytes([c["salt"][-1] ^ (1 + c["flip"] % 255)])).decode("ascii"))
        if a2.on_challenge(None, Challenge("scram", extra2)) == proof_b64:
            raise Violation("C19|scram|%s|altered-salt-same-proof" % kdf, "", case)
        a3 = auth.AuthScram(authid=c["authid"], password=c["password"] + "x")
        a3._client_nonce = client_nonce
        if a3.on_challenge(None, Challenge("scram", extra)) == proof_b64:
            raise Violation("C19|scram|%s|altered-password-same-proof" % kdf, "", case)
        nonascii = any(ord(x) > 127 for x in c["password"] + c["authid"])
        col.case(True, dig=[kdf, c["password"], c["authid"], c["salt"], c["iterations"], c["memory"], c["channel_binding"]],
                 cls=["scram/" + kdf, "scram/256-bit-flips"] + (["scram/non-ascii"] if nonascii else []),
                 sample={k: c[k] for k in ("password", "authid", "iterations", "memory", "channel_binding")})
    run_hypothesis(col, "scram", st.just(only) if only is not None else strat, body, 1 if only is not None else n, seed, shrink=only is None)


# ---------------------------------------------------------------- cryptosign

def _result_of(fut):
    import txaio
    import asyncio
    if isinstance(fut, asyncio.Future):
        return txaio.config.loop.run_until_complete(fut)
    box = {}
    txaio.add_callbacks(fut, lambda r: box.setdefault("r", r), lambda f: box.setdefault("e", f))
    if "r" not in box:
        raise HarnessError("signature future not resolved synchronously: %r" % (box,))
    return box["r"]


def cryptosign(col, seed, n, only=None):
    from hypothesis import strategies as st
    from cryptography.hazmat.primitives.asymmetric.ed25519 import Ed25519PublicKey, Ed25519PrivateKey
    from cryptography.hazmat.primitives import serialization
    from cryptography.exceptions import InvalidSignature
    from autobahn.wamp import cryptosign as cs, auth
    from autobahn.wamp.types import Challenge
    from autobahn import util
    import os
    if os.environ.get("VERIF_FW") == "asyncio":
        import asyncio
        import txaio
        loop = asyncio.new_event_loop()
        asyncio.set_event_loop(loop)
        txaio.config.loop = loop

    strat = st.fixed_dictionaries({"seed": st.binary(min_size=32, max_size=32), "challenge": st.binary(min_size=32, max_size=32),
                                   "channel_id": st.one_of(st.none(), st.binary(min_size=32, max_size=32), st.sampled_from([bytes(32), b"\xff" * 32])),
                                   "method": st.sampled_from(["cryptosign", "cryptosign-proxy"]), "via": st.sampled_from(["key", "authenticator"]),
                                   "flipbit": st.integers(0, 511), "explicit_pubkey": st.booleans(), "factory": st.booleans()})

    def body(c):
        case = dict(c, check="cryptosign")
        key = cs.CryptosignKey.from_bytes(c["seed"])
        ref_pub = Ed25519PrivateKey.from_private_bytes(c["seed"]).public_key()
        ref_pub_raw = ref_pub.public_bytes(serialization.Encoding.Raw, serialization.PublicFormat.Raw)
        if key.public_key() != ref_pub_raw.hex() or key.public_key(binary=True) != ref_pub_raw:
            raise Violation("C19|cryptosign|public-key-differs", "%s vs %s" % (key.public_key(), ref_pub_raw.hex()), case)
        ch = Challenge(c["method"], {"challenge": c["challenge"].hex()})
        cid = c["channel_id"]
        cid_type = "tls-unique" if cid is not None else None
        if c["via"] == "key":
            sig_hex = _result_of(key.sign_challenge(ch, channel_id=cid, channel_id_type=cid_type))
        else:
            class TD:
                channel_id = {"tls-unique": cid} if cid is not None else {}

            class TR:
                transport_details = TD()

            class SS:
                _transport = TR()
            ax = {"channel_binding": cid_type} if cid_type else {}
            if c.get("explicit_pubkey"):
                ax["pubkey"] = ref_pub_raw.hex()        # the application states its (matching) public key itself instead of having it filled in
            if c.get("factory"):
                a = auth.create_authenticator("cryptosign", authid="joe", privkey=c["seed"].hex(), authextra=ax)
            else:
                a = auth.AuthCryptoSign(authid="joe", privkey=c["seed"].hex(), authextra=ax)
            if a.authextra.get("pubkey") != ref_pub_raw.hex():
                raise Violation("C19|cryptosign|authextra-pubkey", repr(a.authextra), case)
            sig_hex = _result_of(a.on_challenge(SS(), ch))
        if not isinstance(sig_hex, str) or len(sig_hex) != 192:
            raise Violation("C19|cryptosign|signature-format", "len %r" % (len(sig_hex) if hasattr(sig_hex, "__len__") else sig_hex,), case)
        sig = bytes.fromhex(sig_hex[:128])
        signed = bytes.fromhex(sig_hex[128:])
        expected_msg = bytes(x ^ y for x, y in zip(c["challenge"], cid)) if cid is not None else c["challenge"]
        if signed != expected_msg:
            raise Violation("C19|cryptosign|signed-message-not-challenge-xor-channel-id", "%s vs %s" % (signed.hex(), expected_msg.hex()), case)
        try:
            ref_pub.verify(sig, expected_msg)
        except InvalidSignature:
            raise Violation("C19|cryptosign|signature-rejected-by-ed25519-verifier", sig.hex(), case)
        # util.xor agrees with the reference
        if cid is not None and util.xor(c["challenge"], cid) != expected_msg:
            raise Violation("C19|util.xor", "", case)
        # tampering: a flipped bit in signature is rejected; altered challenge / channel id / key change the signature
        bad = bytearray(sig)
        bad[c["flipbit"] // 8] ^= 1 << (c["flipbit"] % 8)
        try:
            ref_pub.verify(bytes(bad), expected_msg)
            raise Violation("C19|cryptosign|flipped-signature-verifies", "bit %d" % c["flipbit"], case)
        except InvalidSignature:
            pass
        ch2 = Challenge(c["method"], {"challenge": (bytes([c["challenge"][0] ^ 1]) + c["challenge"][1:]).hex()})
        if _result_of(key.sign_challenge(ch2, channel_id=cid, channel_id_type=cid_type))[:128] == sig_hex[:128]:
            raise Violation("C19|cryptosign|altered-challenge-same-signature", "", case)
        if cid is not None:
            cid2 = bytes([cid[5] ^ 0x40]) if False else cid[:5] + bytes([cid[5] ^ 0x40]) + cid[6:]
            if _result_of(key.sign_challenge(ch, channel_id=cid2, channel_id_type=cid_type))[:128] == sig_hex[:128]:
                raise Violation("C19|cryptosign|channel-binding-ignored", "signature does not depend on the channel id", case)
        key2 = cs.CryptosignKey.from_bytes(bytes([c["seed"][0] ^ 1]) + c["seed"][1:])
        if _result_of(key2.sign_challenge(ch, channel_id=cid, channel_id_type=cid_type))[:128] == sig_hex[:128]:
            raise Violation("C19|cryptosign|altered-key-same-signature", "", case)
        col.case(True, dig=[c["seed"], c["challenge"], cid, c["method"], c["via"]], cls=["cryptosign/" + ("channel-bound" if cid is not None else "unbound"), "cryptosign/via:" + c["via"]],
                 sample={"seed": c["seed"], "challenge": c["challenge"], "channel_id": cid})
    run_hypothesis(col, "cryptosign", st.just(only) if only is not None else strat, body, 1 if only is not None else n, seed, shrink=only is None)

    # exhaustive: every single-bit flip of one signature
    key = cs.CryptosignKey.from_bytes(bytes(range(32)))
    pub = Ed25519PrivateKey.from_private_bytes(bytes(range(32))).public_key()
    chal = hashlib.sha256(b"c19-%d" % seed).digest()
    sig_hex = _result_of(key.sign_challenge(Challenge("cryptosign", {"challenge": chal.hex()})))
    if not isinstance(sig_hex, str) or len(sig_hex) != 192:
        raise Violation("C19|cryptosign|signature-format", "sign_challenge() resolved to %r" % (sig_hex[:16] if hasattr(sig_hex, "__getitem__") else sig_hex,), {"check": "flip", "bit": 0})
    sig = bytes.fromhex(sig_hex[:128])
    for bit in range(512):
        bad = bytearray(sig)
        bad[bit // 8] ^= 1 << (bit % 8)
        try:
            pub.verify(bytes(bad), chal)
            raise Violation("C19|cryptosign|flipped-signature-verifies", "bit %d" % bit, {"check": "flip", "bit": bit})
        except InvalidSignature:
            pass
        col.case(True, enum=True, cls="cryptosign/512-bit-flips")
    col.exhaustive.append("every single-bit flip of one Ed25519 signature (512)")


WELCOME_VARIANTS = ["correct", "absent", "empty", "other-keys", "empty-string", "bit-flipped", "not-base64", "null-signature", "truncated", "other-authmethod"]


def scram_session_one(c):
    """a whole session using the authenticator API (Session.add_authenticator) against a scripted router: HELLO, CHALLENGE, AUTHENTICATE (proof checked
    by the RFC 5802 reference), then a WELCOME whose authextra is one of WELCOME_VARIANTS: the session joins only for the correct server signature"""
    from harness.wampsess import SessionWorld
    from harness import drv
    from autobahn.wamp import auth
    if drv.FW == "twisted":
        from autobahn.twisted.wamp import Session
    else:
        from autobahn.asyncio.wamp import Session
    password, authid, iterations = c["password"], c["authid"], c["iterations"]
    hooks = {"onChallenge": lambda self, ch: Session.onChallenge(self, ch), "onWelcome": lambda self, wm: Session.onWelcome(self, wm)}
    w = SessionWorld(session_cls=Session, serializer="json", hooks=hooks)
    try:
        M = w.message
        a = auth.create_authenticator("scram", authid=authid, password=password, kdf="pbkdf2")
        w.session.add_authenticator(a)
        w.open()
        hello = [m for m in w.t.sent if type(m).__name__ == "Hello"]
        if len(hello) != 1 or "scram" not in (hello[0].authmethods or []):
            raise Violation("C19|scram-session|hello", "HELLO %r" % (w.t.sent,), c)
        client_nonce = (hello[0].authextra or {}).get("nonce")
        salt_b64 = base64.b64encode(b"salt-of-16-bytes").decode("ascii")
        server_nonce = client_nonce + base64.b64encode(b"server-nonce-16b").decode("ascii")
        extra = {"nonce": server_nonce, "kdf": "pbkdf2", "salt": salt_b64, "iterations": iterations}
        n0 = len(w.t.sent)
        err = w.feed(M.Challenge("scram", extra))
        if err is not None:
            raise Violation("C19|scram-session|challenge-raised|" + exc_key(err), repr(err), c)
        au = [m for m in w.t.sent[n0:] if type(m).__name__ == "Authenticate"]
        if len(au) != 1:
            raise Violation("C19|scram-session|no-authenticate", "%r" % ([type(m).__name__ for m in w.t.sent[n0:]],), c)
        proof = base64.b64decode(au[0].signature)
        auth_message = ("n=%s,r=%s,r=%s,s=%s,i=%d,c=%s,r=%s" % (authid, client_nonce, server_nonce, salt_b64, iterations, "", server_nonce)).encode("utf8")
        sp = hashlib.pbkdf2_hmac("sha256", password.encode("utf8"), base64.b64decode(salt_b64), iterations, 32)
        client_key = hmac.new(sp, b"Client Key", hashlib.sha256).digest()
        stored_key = hashlib.sha256(client_key).digest()
        recovered = bytes(x ^ y for x, y in zip(proof, hmac.new(stored_key, auth_message, hashlib.sha256).digest()))
        if len(proof) != 32 or hashlib.sha256(recovered).digest() != stored_key:
            raise Violation("C19|scram-session|proof-rejected-by-rfc5802-verifier", "extra=%r" % (extra,), c)
        sig = hmac.new(hmac.new(sp, b"Server Key", hashlib.sha256).digest(), auth_message, hashlib.sha256).digest()
        good = base64.b64encode(sig).decode("ascii")
        k = c.get("bit", 0) % 256
        flipped = bytes(b ^ (1 << (k % 8)) if i == k // 8 else b for i, b in enumerate(sig))
        authextra = {"correct": {"scram_server_signature": good}, "absent": None, "empty": {}, "other-keys": {"x_note": "hello"}, "empty-string": {"scram_server_signature": ""},
                     "bit-flipped": {"scram_server_signature": base64.b64encode(flipped).decode("ascii")}, "not-base64": {"scram_server_signature": "###"},
                     "null-signature": {"scram_server_signature": None}, "truncated": {"scram_server_signature": base64.b64encode(sig[:31]).decode("ascii")},
                     # after the SCRAM exchange the router claims another method in its WELCOME and sends no server signature at all
                     "other-authmethod": None}[c["variant"]]
        n1 = len(w.t.sent)
        try:
            err = w.welcome(4711, authid=authid, authrole="user", authmethod="anonymous" if c["variant"] == "other-authmethod" else "scram", authprovider="static", authextra=authextra)
        except Exception as e:         # building the WELCOME itself failed: not a case
            raise HarnessError("cannot build WELCOME for %r: %r" % (c["variant"], e))
        joined = any(e[0] == "join" for e in w.events)
        if c["variant"] == "correct":
            if not joined:
                raise Violation("C19|scram-session|genuine-server-signature-rejected", "events %r sent %r err %r" % (w.events, [type(m).__name__ for m in w.t.sent[n1:]], err), c)
        elif joined:
            raise Violation("C19|scram-session|joined-without-correct-server-signature|" + c["variant"], "WELCOME authextra=%r: the session joined (events %r)" % (authextra, w.events), c)
    finally:
        w.close()


def scram_session(col):
    n = 0
    for password, authid in (("secret", "joe"), ("päßwörd", "user1")):
        for iterations in (1, 4096):
            for variant in WELCOME_VARIANTS:
                for bit in ((0, 7, 100, 255) if variant == "bit-flipped" else (0,)):
                    c = {"check": "scram_session", "password": password, "authid": authid, "iterations": iterations, "variant": variant, "bit": bit}
                    try:
                        scram_session_one(c)
                    except (Violation, HarnessError):
                        raise
                    except Exception as e:
                        from harness.core import in_autobahn
                        if in_autobahn(e):
                            raise Violation("C19|scram-session|exception|" + exc_key(e), repr(e), c)
                        raise
                    n += 1
                    col.case(variant != "correct", enum=True, cls=["scram-session/" + variant], sample=c)
    col.exhaustive.append("C19 scram_session: whole-session SCRAM exchange x 9 WELCOME authextra variants x 2 credentials x 2 iteration counts (%d cases)" % n)


def replay(col, case):
    case = dec(case)
    c = case.get("case", case)
    if c.get("check") == "scram_session":
        scram_session_one(c)
        col.case()
        return
    kind = c.pop("check")
    if kind == "cra":
        cra(col, 0, 1, only=c)
    elif kind == "totp":
        totp(col, 0, 1, only=c)
    elif kind == "scram":
        scram(col, 0, 1, c.pop("kdf"), only=c)
    elif kind == "cryptosign":
        cryptosign(col, 0, 1, only=c)
    col.case()
