"""C15 - frame masking is exact XOR with the running key in every implementation."""
import hashlib
import os

from harness.core import Violation, HarnessError, digest, exc_key

DESCRIPTION = {
    "level": "exploration",
    "rule": ("Enumerated grid: every (implementation, key, length 0..Lmax, starting offset 0..3, buffer alignment 0..15 "
             "[native lib called directly], split position 0..length) tuple is one case, distinct by construction; "
             "non-trivial = length>=16 with non-zero alignment or offset, or a chunk boundary not on a multiple of 4. "
             "Generated: Hypothesis payloads (sizes biased to 127/128 and 16-byte block edges, up to 64KiB quick/1MiB thorough), "
             "random keys, multi-way chunkings; non-trivial by the same rule, distinct by digest of (impl,key,len,offset,chunks). "
             "Oracle: out[i]==in[i]^key[(offset+i)%4] computed with big-int XOR, pointer()==bytes processed, "
             "involution, chunked==one-shot. Send side through the frame API: sendFrame(payload, payload_len=N) for N below/at/above len(payload) with own, explicit and zero keys - the wire octets "
             "are the effective payload XOR the frame's key.  Receive side through the protocol: a scripted peer sends masked frames (consecutive frames with the same key, other keys, the zero key; all length "
             "classes; fragments; drawn read chunking) to a library server, each message must arrive as data XOR key.  Mask policy: wire log of library client/server pairs through every send API (sendMessage with and without fragmentation, "
             "frame-wise, streaming, prepared): every client frame masked, no server frame masked, and no two client frames share a key (the 32-bit key draw is replaced by a "
             "collision-free sequence inside the check, so an equal key means that no new key was drawn). The public factory is also called without its optional length hint (create_xor_masker(key), (key, None)) and with a hint that differs from what is processed (127 / 128)."),
    "assumptions": [
        "native code is compiled from the working tree's src/autobahn/nvx/_xormasker.c with cffi on every run",
        "SIMD paths: only those the sandbox compiler/CPU enable (SSE2); reported in notes",
    ],
}

KEYS = [bytes(4), b"\xff" * 4, b"\x01\x02\x03\x04", b"\x9c\x00\xf3\x41"]


def plan(tier, seed):
    jobs = []
    nsh = 14
    lmax = 300
    keys_n = 2 if tier == "quick" else 4
    for sh in range(nsh):
        jobs.append({"func": "grid_native", "nvx": "1", "nvxbuild": True, "name": "grid_native/%d" % sh,
                     "args": {"shard": sh, "nshards": nsh, "lmax": lmax, "nkeys": keys_n,
                              "full_splits": tier != "quick"}})
    psh = 8
    for sh in range(psh):
        jobs.append({"func": "grid_pure", "nvx": "0", "name": "grid_pure/%d" % sh,
                     "args": {"shard": sh, "nshards": psh, "lmax": 300 if tier != "quick" else 160, "nkeys": keys_n}})
    n = 400 if tier == "quick" else 3000
    big = 1 << 16 if tier == "quick" else 1 << 20
    for sh in range(2 if tier == "quick" else 6):
        jobs.append({"func": "generated", "nvx": "1", "nvxbuild": True, "name": "gen_native/%d" % sh,
                     "args": {"seed": seed * 1000 + sh, "n": n, "big": big}})
        jobs.append({"func": "generated", "nvx": "0", "name": "gen_pure/%d" % sh,
                     "args": {"seed": seed * 1000 + 500 + sh, "n": max(60, n // 6), "big": big // 8}})
    for nvx in ("1", "0"):
        for fw in ("twisted", "asyncio"):
            jobs.append({"func": "rx_frames", "fw": fw, "nvx": nvx, "nvxbuild": nvx == "1", "name": "rx_frames/%s/nvx%s" % (fw, nvx),
                         "args": {"seed": seed * 1000 + 800 + (fw == "asyncio") * 10 + int(nvx), "n": 120 if tier == "quick" else 1200}})
    for nvx in ("1", "0"):
        jobs.append({"func": "send_frame_api", "fw": "twisted", "nvx": nvx, "nvxbuild": nvx == "1", "name": "send_frame_api/nvx%s" % nvx, "args": {}})
    jobs.append({"func": "policy", "fw": "twisted", "nvx": "1", "nvxbuild": True, "name": "policy_tx",
                 "args": {"seed": seed, "n": 40 if tier == "quick" else 400}})
    return jobs


def pattern(n, salt=0):
    return hashlib.shake_128(b"c15-%d-%d" % (n, salt)).digest(n) if n else b""


def ref_xor(data, key, off):
    n = len(data)
    if n == 0:
        return b""
    ks = (key[off % 4:] + key[:off % 4]) * (n // 4 + 1)
    return (int.from_bytes(data, "big") ^ int.from_bytes(ks[:n], "big")).to_bytes(n, "big")


def _nontrivial(length, off, align, cuts):
    return (length >= 16 and (align % 16 != 0 or off % 4 != 0)) or any(c % 4 for c in cuts)


# ---------------------------------------------------------------- native

def _native():
    import _nvx_xormasker
    import autobahn.websocket  # noqa
    if not autobahn.websocket.USES_NVX:
        raise HarnessError("NVX not in use in a native worker")
    nvxdir = os.path.dirname(os.path.realpath(_nvx_xormasker.__file__))
    if "site-packages" in nvxdir or "/src/autobahn" in nvxdir:
        raise HarnessError("native module not the freshly built one: " + nvxdir)
    return _nvx_xormasker.ffi, _nvx_xormasker.lib


def _lib_case(ffi, lib, buf, base, impl, key, data, off, align, cuts):
    """run the C masker in place at the given buffer alignment; returns (out, pointer)"""
    keybuf = ffi.new("uint8_t[4]", key)
    m = lib.nvx_xormask_new(keybuf)
    try:
        got_impl = lib.nvx_xormask_set_impl(m, impl)
        if off:
            scratch = ffi.new("uint8_t[]", 4)
            lib.nvx_xormask_process(m, scratch, off)
        n = len(data)
        p = base + align
        ffi.memmove(p, data, n)
        pos = 0
        for c in list(cuts) + [n]:
            lib.nvx_xormask_process(m, p + pos, c - pos)
            pos = c
        out = bytes(ffi.buffer(p, n))
        ptr = lib.nvx_xormask_pointer(m)
        return out, ptr, got_impl
    finally:
        lib.nvx_xormask_free(m)


def _aligned(ffi, size):
    buf = ffi.new("uint8_t[]", size + 64)
    addr = int(ffi.cast("uintptr_t", buf))
    base = buf + ((16 - addr % 16) % 16)
    assert int(ffi.cast("uintptr_t", base)) % 16 == 0
    return buf, base


def check_native_case(ffi, lib, buf, base, impl, key, data, off, align, cuts, case):
    out, ptr, got_impl = _lib_case(ffi, lib, buf, base, impl, key, data, off, align, cuts)
    exp = ref_xor(data, key, off)
    if out != exp:
        i = next(k for k in range(len(exp)) if out[k] != exp[k])
        raise Violation("C15|native-impl%d|wrong-xor" % got_impl, "first wrong byte %d of %d: case=%r" % (i, len(exp), case), case)
    if ptr != off + len(data):
        raise Violation("C15|native-impl%d|pointer" % got_impl, "pointer()=%d expected %d case=%r" % (ptr, off + len(data), case), case)
    return got_impl


def grid_native(col, shard, nshards, lmax, nkeys, full_splits):
    ffi, lib = _native()
    buf, base = _aligned(ffi, lmax + 64)
    impls_seen = set()
    for impl in (1, 2):
        for key in KEYS[:nkeys]:
            for length in range(shard, lmax + 1, nshards):
                data = pattern(length)
                for off in range(4):
                    for align in range(16):
                        if full_splits or length <= 72 or align in (0, 1, 7, 15):
                            splits = range(0, length + 1)
                        else:
                            splits = ()
                        case = {"check": "native", "impl": impl, "key": key, "len": length, "off": off, "align": align, "cuts": []}
                        g = check_native_case(ffi, lib, buf, base, impl, key, data, off, align, [], case)
                        impls_seen.add(g)
                        col.case(_nontrivial(length, off, align, []), enum=True, cls="native-lib/impl%d/one-shot" % g, sample=case)
                        for sp in splits:
                            case = {"check": "native", "impl": impl, "key": key, "len": length, "off": off, "align": align, "cuts": [sp]}
                            check_native_case(ffi, lib, buf, base, impl, key, data, off, align, [sp], case)
                            col.case(_nontrivial(length, off, align, [sp]), enum=True, cls="native-lib/impl%d/split" % g, sample=case)
    # wrapper classes + factory
    from autobahn.nvx import _xormasker as nx
    from autobahn.websocket.xormasker import create_xor_masker
    for key in KEYS[:nkeys]:
        for length in range(shard, lmax + 1, nshards):
            data = pattern(length, 1)
            for off in range(4):
                for mk in ("XorMaskerSimple", "XorMaskerShifted1", "factory", "factory-nohint", "factory-none", "factory-hint127", "factory-hint128"):
                    for cuts in ([], [length // 3], [1, length // 2] if length > 2 else []):
                        case = {"check": "wrapper", "impl": mk, "key": key, "len": length, "off": off, "cuts": cuts}
                        check_wrapper_case(nx, create_xor_masker, case, data)
                        col.case(_nontrivial(length, off, 0, cuts), enum=True, cls="native-wrapper/" + mk, sample=case)
    col.notes.append("native implementations exercised via set_impl: %s (1=scalar, 2=SSE2)" % sorted(impls_seen))
    if shard == 0:
        col.exhaustive.append("native lib: impl{1,2} x %d keys x len0..%d x offset0..3 x align0..15 x one-shot%s" % (
            nkeys, lmax, " x every split position" if full_splits else " (+every split for len<=72 or align in {0,1,7,15})"))


def _mk(mod, create, impl, key, length):
    if impl == "factory":
        return create(key, length)
    # the length is documented as an optional *hint* (default None): the factory must hand out a working masker without it, and for a hint
    # that differs from what is then processed
    if impl == "factory-nohint":
        return create(key)
    if impl == "factory-none":
        return create(key, None)
    if impl == "factory-hint127":
        return create(key, 127)
    if impl == "factory-hint128":
        return create(key, 128)
    return getattr(mod, impl)(key)


def check_wrapper_case(mod, create, case, data):
    key, off, cuts = case["key"], case["off"], case["cuts"]
    m = _mk(mod, create, case["impl"], key, len(data))
    if m.pointer() != 0:
        raise Violation("C15|%s|pointer-initial" % case["impl"], repr(case), case)
    if off:
        m.process(b"\0" * off)
    out = b""
    pos = 0
    for c in list(cuts) + [len(data)]:
        out += m.process(data[pos:c])
        pos = c
    exp = ref_xor(data, key, off)
    if out != exp:
        raise Violation("C15|%s|wrong-xor" % case["impl"], "case=%r" % case, case)
    if m.pointer() != off + len(data):
        raise Violation("C15|%s|pointer" % case["impl"], "pointer()=%r expected %d case=%r" % (m.pointer(), off + len(data), case), case)
    # involution with a fresh masker advanced to the same offset
    m2 = _mk(mod, create, case["impl"], key, len(data))
    if off:
        m2.process(b"\0" * off)
    if m2.process(out) != data:
        raise Violation("C15|%s|not-involutive" % case["impl"], "case=%r" % case, case)
    m.reset()
    if m.pointer() != 0 or m.process(data[:8]) != ref_xor(data[:8], key, 0):
        raise Violation("C15|%s|reset" % case["impl"], "case=%r" % case, case)


# ---------------------------------------------------------------- pure python

def _pure():
    import autobahn.websocket
    if autobahn.websocket.USES_NVX:
        raise HarnessError("pure-Python worker has NVX enabled")
    from autobahn.websocket import xormasker
    if not hasattr(xormasker, "XorMaskerShifted1"):
        raise HarnessError("pure Python masker classes not present")
    return xormasker


def grid_pure(col, shard, nshards, lmax, nkeys):
    xm = _pure()
    for key in KEYS[:nkeys]:
        for length in range(shard, lmax + 1, nshards):
            data = pattern(length, 2)
            for off in range(4):
                for mk in ("XorMaskerSimple", "XorMaskerShifted1", "factory", "factory-nohint", "factory-none", "factory-hint127", "factory-hint128"):
                    splits = [[]] + [[s] for s in range(0, length + 1)] if (not mk.startswith("factory") and length <= 130) else [[], [length // 3], [1, length // 2] if length > 2 else []]
                    for cuts in splits:
                        case = {"check": "pure", "impl": mk, "key": key, "len": length, "off": off, "cuts": cuts}
                        check_wrapper_case(xm, xm.create_xor_masker, case, data)
                        col.case(_nontrivial(length, off, 0, cuts), enum=True, cls="pure/" + mk, sample=case)
    if shard == 0:
        col.exhaustive.append("pure python: 2 classes x %d keys x len0..%d x offset0..3 x every split (len<=130)" % (nkeys, lmax))


# ---------------------------------------------------------------- generated

def generated(col, seed, n, big):
    from hypothesis import strategies as st
    import autobahn.websocket
    native = autobahn.websocket.USES_NVX
    if native:
        ffi, lib = _native()
        from autobahn.nvx import _xormasker as mod
        buf, base = _aligned(ffi, big + 64)
    else:
        mod = _pure()
    from autobahn.websocket.xormasker import create_xor_masker

    sizes = st.one_of(st.sampled_from([0, 1, 3, 4, 15, 16, 17, 31, 32, 33, 126, 127, 128, 129, 255, 256, 4095, 4096, 4097]),
                      st.integers(0, 2048), st.integers(0, big))

    @st.composite
    def cases(draw):
        length = draw(sizes)
        key = draw(st.one_of(st.binary(min_size=4, max_size=4), st.sampled_from(KEYS)))
        off = draw(st.integers(0, 3))
        ncuts = draw(st.integers(0, 6))
        cuts = sorted(draw(st.lists(st.integers(0, length), min_size=ncuts, max_size=ncuts)))
        impls = ["XorMaskerSimple", "XorMaskerShifted1", "factory", "factory-nohint", "factory-none", "factory-hint127", "factory-hint128"] + (["lib1", "lib2"] if native else [])
        return {"check": "gen", "impl": draw(st.sampled_from(impls)), "key": key, "len": length, "off": off,
                "cuts": cuts, "align": draw(st.integers(0, 15)), "salt": draw(st.integers(0, 1 << 30))}

    def body(case):
        data = pattern(case["len"], case["salt"])
        if case["impl"].startswith("lib"):
            check_native_case(ffi, lib, buf, base, int(case["impl"][3]), case["key"], data, case["off"], case["align"], case["cuts"], case)
        else:
            check_wrapper_case(mod, create_xor_masker, case, data)
        col.case(_nontrivial(case["len"], case["off"], case["align"] if case["impl"].startswith("lib") else 0, case["cuts"]),
                 dig=[case[k] for k in ("impl", "key", "len", "off", "cuts", "align")],
                 cls="gen/%s/%s" % ("native" if native else "pure", case["impl"]), sample=case)
        if case["len"] >= 1 << 15:
            col.count("gen/len>=32KiB")

    from harness.core import run_hypothesis
    run_hypothesis(col, "gen", cases(), body, n, seed)


# ---------------------------------------------------------------- mask policy on the wire

def send_frame_api(col):
    """enumerated: a client writes single frames through sendFrame(payload, payload_len=N) - N below, at and above len(payload) (the payload is then
    truncated / repeated), with the library's own key and with an explicit key: the octets on the wire are the effective payload XOR the frame's key"""
    from harness import drv, wsutil, ref6455
    d = drv.get_driver()
    try:
        side = wsutil.client(d, opts={"openHandshakeTimeout": 0, "closeHandshakeTimeout": 0})
        wsutil.open_client(side)
        side.ep.take()
        for plen in (0, 1, 2, 3, 4, 5, 7, 8, 9, 13, 16, 125, 126, 130):
            pat = pattern(plen, plen)
            for n in sorted(set([None, 0, 1, plen - 1, plen, plen + 1, plen + 2, plen + 3, plen + 4, 2 * plen, 2 * plen + 1, 3 * plen + 2, 127, 200]) - {-1}, key=lambda x: -1 if x is None else x):
                for key in (None, b"\x01\x02\x03\x04", b"\x00\x00\x00\x00"):
                    if plen == 0 and n is not None:
                        continue        # the API refuses to repeat an empty payload (documented: raises)
                    case = {"check": "send_frame_api", "plen": plen, "payload_len": n, "key": key}
                    try:
                        d.call(lambda: side.proto.sendFrame(2, pat, True, 0, key, n))
                    except Exception as e:
                        raise Violation("C15|sendFrame|raised|" + exc_key(e), "sendFrame(len %d, payload_len=%r, mask=%r): %r" % (plen, n, key, e), case)
                    d.settle()
                    raw = side.ep.take()
                    frames, rest = ref6455.parse_frames(raw)
                    want = pat if n is None else ((pat * (n // max(1, plen) + 2))[:n] if plen else b"")
                    if rest or len(frames) != 1:
                        raise Violation("C15|sendFrame|not-one-frame", "%d frames, %d stray octets" % (len(frames), len(rest)), case)
                    f = frames[0]
                    if not f.masked or (key is not None and f.mask != key):
                        raise Violation("C15|sendFrame|mask-bit-or-key", "masked=%r key=%r wanted %r" % (f.masked, f.mask, key), case)
                    if f.payload != want:
                        k = next((i for i in range(min(len(want), len(f.payload))) if want[i] != f.payload[i]), min(len(want), len(f.payload)))
                        raise Violation("C15|sendFrame|wire-payload-is-not-data-xor-key", "payload of %d octets, payload_len=%r: after unmasking with the frame's key the wire gives %d octets, first difference at index %d" % (
                            plen, n, len(f.payload), k), case)
                    col.case(n is not None and n > plen and plen % 4 != 0, enum=True, cls=["sendFrame/" + ("repeated" if (n or 0) > plen else ("truncated" if n is not None and n < plen else "as-is"))], sample=case)
    finally:
        d.close()
    col.exhaustive.append("C15 sendFrame: 14 payload lengths x 14 payload_len values x {own key, explicit key, zero key}")


def rx_frames(col, seed, n, only=None):
    """receive side through the protocol: a scripted peer sends masked frames to a library server - consecutive frames with the SAME key, with
    different keys, zero keys, every length class, delivered in drawn chunk sizes: each message arrives as data XOR key from offset 0 of its frame"""
    from hypothesis import strategies as st
    from harness.core import run_hypothesis
    from harness import ref6455
    from checks.c02_ws_receive import Rx
    frame = st.fixed_dictionaries({"len": st.sampled_from([0, 1, 2, 3, 4, 5, 7, 8, 9, 15, 16, 17, 125, 126, 127, 128, 129, 200, 4096, 65536]),
                                   "key": st.sampled_from(["same", "same", "new", "zero", "first"]), "salt": st.integers(0, 99), "frag": st.integers(1, 3)})
    strat = st.fixed_dictionaries({"frames": st.lists(frame, min_size=2, max_size=6), "chunk": st.sampled_from([0, 1, 2, 3, 5, 7, 8, 13, 64, 1000]),
                                   "k0": st.binary(min_size=4, max_size=4)})

    def body(c):
        case = dict(c, check="rx_frames")
        rx = Rx(True, False, False, {"utf8validateIncoming": False})
        keys = [c["k0"]]
        data = b""
        want = []
        for i, f in enumerate(c["frames"]):
            key = {"same": keys[-1], "first": keys[0], "zero": b"\x00" * 4, "new": bytes((b + 17 * (i + 1)) & 0xFF for b in keys[-1])}[f["key"]]
            keys.append(key)
            payload = pattern(f["len"], f["salt"])
            want.append(payload)
            nfrag = min(f["frag"], max(1, len(payload)))
            cuts = [len(payload) * k // nfrag for k in range(1, nfrag)]
            parts = [payload[a:b] for a, b in zip([0] + cuts, cuts + [len(payload)])]
            for k, part in enumerate(parts):
                data += ref6455.encode_frame(2 if k == 0 else 0, part, fin=(k == len(parts) - 1), mask=key)
        if c["chunk"] == 0:
            rx.feed(data)
        else:
            step = c["chunk"] if len(data) < 20000 else max(c["chunk"], len(data) // 300)
            for i in range(0, len(data), step):
                rx.feed(data[i:i + step])
        obs = rx.finish()
        if obs["escaped"] or obs["loop_errors"]:
            raise Violation("C15|rx|exception-escaped|" + (exc_key(obs["escaped"][0]) if obs["escaped"] else "loop"), repr((obs["escaped"] or obs["loop_errors"])[0])[:300], case)
        got = [e[2] for e in obs["events"] if e[0] == "msg"]
        if got != want:
            k = next((i for i in range(min(len(got), len(want))) if got[i] != want[i]), min(len(got), len(want)))
            raise Violation("C15|rx|unmasked-payload-differs", "message #%d of %d: frame keys %r, chunk %r: got %d messages; first difference at #%d (dropped=%r closes=%r)" % (
                k, len(want), [x.hex() for x in keys[1:]], c["chunk"], len(got), k, obs["dropped"], [f.payload[:2].hex() for f in obs["frames"] if f.opcode == 8]), case)
        same = sum(1 for i in range(2, len(keys)) if keys[i] == keys[i - 1])
        col.case(same >= 1, dig=c, cls=["rx/" + ("same-key-consecutive" if same else "distinct-keys"), "rx/chunk:%s" % c["chunk"]], sample={"lens": [f["len"] for f in c["frames"]], "keys": [f["key"] for f in c["frames"]], "chunk": c["chunk"]})
    if only is not None:
        body(only)
        return
    run_hypothesis(col, "rx_frames", strat, body, n, seed)


def policy(col, seed, n):
    from checks import wsdrive
    wsdrive.mask_policy(col, seed, n)


def replay(col, case):
    from harness.core import dec
    case = dec(case)
    inner = case.get("case")
    c = inner if isinstance(inner, dict) and "check" in inner else case
    kind = c["check"]
    if kind == "send_frame_api":
        send_frame_api(col)
        return
    if kind == "rx_frames":
        cc = {k: v for k, v in c.items() if k != "check"}
        cc["frames"] = [dict(f) for f in cc["frames"]]
        rx_frames(col, 0, 1, only=cc)
        return
    if kind in ("native",) or (kind == "gen" and c["impl"].startswith("lib")):
        ffi, lib = _native()
        buf, base = _aligned(ffi, c["len"] + 64)
        impl = c["impl"] if isinstance(c["impl"], int) else int(c["impl"][3])
        data = pattern(c["len"], c.get("salt", 0))
        check_native_case(ffi, lib, buf, base, impl, c["key"], data, c["off"], c["align"], c["cuts"], c)
    elif kind in ("wrapper", "pure", "gen"):
        import autobahn.websocket
        if autobahn.websocket.USES_NVX:
            from autobahn.nvx import _xormasker as mod
        else:
            mod = _pure()
        from autobahn.websocket.xormasker import create_xor_masker
        salt = {"wrapper": 1, "pure": 2}.get(kind, c.get("salt", 0))
        check_wrapper_case(mod, create_xor_masker, c, pattern(c["len"], salt))
    else:
        from checks import wsdrive
        wsdrive.replay(col, c)
    col.case()
