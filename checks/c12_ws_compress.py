"""C12 - per-message compression is lossless and negotiated soundly."""
import itertools
import zlib

from harness.core import Violation, HarnessError, run_hypothesis, dec, exc_key, brief

DESCRIPTION = {
    "level": "exploration",
    "rule": ("(a) Exhaustive lattice of permessage-deflate parameter objects: 64 offers x 1152 offer-accepts x 24 response-accepts (constructor refusals are part of the "
             "space; quick tier enumerates a seed-selected 1/4 of the offer-accepts, thorough all); for every surviving triple the extension strings really travel through "
             "_parseExtensionsHeader / Offer.parse / get_extension_string / Response.parse / create_from_offer_accept / create_from_response_accept, an RFC 7692 section 7 "
             "reference checks the response against the offer and the effective parameters of both ends per direction (compressor window <= decompressor window, "
             "decompressor resets => compressor resets), and three messages per direction are pushed through the two PMCE objects. (b) Hypothesis traffic through real "
             "client/server connections for deflate (any lattice point), bzip2 and brotli: 2-6 messages per direction (compressible, random, empty, >=128KiB, text/binary, "
             "doNotCompress), fragmentation, applyMask on/off, adversarial read schedules; oracle as C01 plus: doNotCompress messages travel with RSV1 clear and raw payload, RSV1 only on "
             "first frames, an independent raw-deflate inflater reproduces every compressed deflate message from the wire. (c) Negative handshakes (client with offers, and client that offered nothing): responses naming an "
             "unknown extension, repeating a compression extension, with unknown/duplicated/out-of-range/valued-flag parameters or declined by the accept policy must make "
             "the client drop without opening; malformed offers make the server refuse or ignore them. (d) Enumerated raw frames into an endpoint that negotiated "
             "permessage-deflate: RSV1 on first frames only delivers the original messages; RSV1 on a continuation frame (of a compressed or an uncompressed message), on a "
             "control frame or combined with RSV2/RSV3 fails the connection (1002 / drop) and the offending message is not delivered.  Non-trivial = >=2 messages in a direction with context takeover, a "
             "non-default parameter, or a negative case; lattice points count once each."),
    "assumptions": ["snappy is not installed in the sandbox: its classes are not exercised", "integers with leading zeros / underscores accepted by int() in parameters are don't-cares"],
}

WB = [0, 9, 10, 11, 12, 13, 14, 15]


def plan(tier, seed):
    jobs = []
    quick = tier == "quick"
    nsh = 16
    for sh in range(nsh):
        jobs.append({"func": "lattice", "name": "lattice/%d" % sh, "args": {"shard": sh, "nshards": nsh, "stride": 4 if quick else 1, "offset": seed % 4 if quick else 0}})
    n = 60 if quick else 600
    for i, fw in enumerate(("twisted", "asyncio")):
        for sh in range(2 if quick else 6):
            jobs.append({"func": "traffic", "fw": fw, "name": "traffic/%s/%d" % (fw, sh), "args": {"seed": seed * 1000 + i * 100 + sh, "n": n}})
        jobs.append({"func": "framebits", "fw": fw, "name": "framebits/%s" % fw, "args": {}})
        jobs.append({"func": "brotli_context_takeover", "fw": fw, "name": "brotli-ctx/%s" % fw, "args": {}})
        jobs.append({"func": "negative", "fw": fw, "name": "negative/%s" % fw, "args": {"seed": seed * 1000 + i * 100 + 50, "n": 150 if quick else 1500}})
    return jobs


# ---------------------------------------------------------------- (d) the compression bit on incoming frames

def framebits(col):
    """Enumerated: raw frames from a scripted peer into a library endpoint that negotiated permessage-deflate (both roles, failByDrop on/off, one read / byte-wise /
    several reads per loop turn).  Valid uses of RSV1 (first frame of a compressed message only, uncompressed messages in between, control frames interleaved) deliver
    the original messages; RSV1 on a continuation frame (of a compressed or of an uncompressed message), on a control frame, or together with RSV2/RSV3 fails the
    connection with 1002 and the offending message is not delivered."""
    import struct
    from harness import ref6455
    from checks.c02_ws_receive import Rx

    def deflate_stream():
        c = zlib.compressobj(zlib.Z_DEFAULT_COMPRESSION, zlib.DEFLATED, -15)
        return lambda data: (c.compress(data) + c.flush(zlib.Z_SYNC_FLUSH))[:-4]
    A = ("text " * 40 + "ü€").encode("utf-8")
    B = bytes(range(256)) * 3
    # scenario: list of (opcode, fin, rsv, payload-spec) where payload-spec is ("raw", bytes) or ("z", k, n, bytes): piece k of n of the compressed form
    scenarios = {
        "valid/compressed-single": ([("msg", A, True, 1, None)], [(False, A)], None),
        "valid/compressed-3-fragments": ([("msg", A, True, 3, None)], [(False, A)], None),
        "valid/uncompressed-fragmented-in-compressed-session": ([("msg", B, False, 3, None)], [(True, B)], None),
        "valid/mixed-with-ping-inside": ([("msg", A, True, 2, "ping"), ("msg", B, False, 2, None), ("msg", A, True, 1, None)], [(False, A), (True, B), (False, A)], None),
        "bad/rsv1-on-continuation-of-compressed": ([("msg", A, True, 3, "rsv1@1")], [], 1002),
        "bad/rsv1-on-final-continuation-of-compressed": ([("msg", A, True, 3, "rsv1@2")], [], 1002),
        "bad/rsv1-on-continuation-of-uncompressed": ([("msg", B, False, 3, "rsv1@1")], [], 1002),
        "bad/rsv1-on-final-continuation-of-uncompressed": ([("msg", B, False, 2, "rsv1@1")], [], 1002),
        "bad/rsv1-on-ping": ([("msg", A, True, 1, None), ("ctl", 9, 4)], [(False, A)], 1002),
        "bad/rsv1-on-pong": ([("ctl", 10, 4)], [], 1002),
        "bad/rsv1-on-close": ([("ctl", 8, 4)], [], 1002),
        "bad/rsv1+rsv2-on-data": ([("msg", A, True, 1, "rsv=6")], [], 1002),
        "bad/rsv1+rsv3-on-data": ([("msg", A, True, 1, "rsv=5")], [], 1002),
        "bad/rsv2-on-data": ([("msg", B, False, 1, "rsv=2")], [], 1002),
        "bad/valid-then-rsv1-continuation": ([("msg", A, True, 1, None), ("msg", B, False, 2, "rsv1@1"), ("msg", A, True, 1, None)], [(False, A)], 1002),
    }
    for server in (True, False):
        for fbd in (False, True):
            for name, (items, want, code) in sorted(scenarios.items()):
                for schedule in ("one", "bytes", "burst"):
                    z = deflate_stream()
                    mk = b"\x5a\xa5\x11\x22" if server else None
                    data = b""
                    for it in items:
                        if it[0] == "ctl":
                            data += ref6455.encode_frame(it[1], b"" if it[1] != 8 else struct.pack("!H", 1000), rsv=it[2], mask=mk)
                            continue
                        _, payload, compressed, nfrag, twist = it
                        body = z(payload) if compressed else payload
                        cuts = [len(body) * k // nfrag for k in range(1, nfrag)]
                        parts = [body[a:b] for a, b in zip([0] + cuts, cuts + [len(body)])]
                        for k, part in enumerate(parts):
                            rsv = 4 if (compressed and k == 0) else 0
                            if twist and twist.startswith("rsv1@") and int(twist[5:]) == k:
                                rsv = 4
                            if twist and twist.startswith("rsv=") and k == 0:
                                rsv = int(twist[4:])
                            if twist == "ping" and k == 1:
                                data += ref6455.encode_frame(9, b"hb", mask=mk)
                            data += ref6455.encode_frame((1 if payload is A else 2) if k == 0 else 0, part, fin=(k == len(parts) - 1), rsv=rsv, mask=mk)
                    case = {"check": "framebits", "server": server, "fbd": fbd, "scenario": name, "schedule": schedule}
                    rx = Rx(server, True, fbd, {"utf8validateIncoming": True})
                    if schedule == "one":
                        rx.feed(data)
                    else:
                        step = 1 if schedule == "bytes" else 7
                        for k, i in enumerate(range(0, len(data), step)):
                            rx.feed(data[i:i + step], settle=(schedule == "bytes" or k % 4 == 3))
                        rx.feed(b"")
                    obs = rx.finish()
                    key = "C12|framebits|" + name
                    if obs["escaped"] or obs["loop_errors"]:
                        raise Violation(key + "|exception-escaped", repr((obs["escaped"] or obs["loop_errors"])[0])[:300], case)
                    got = [(e[1], e[2]) for e in obs["events"] if e[0] == "msg"]
                    if got != want:
                        raise Violation(key + ("|delivered-despite-violation" if len(got) > len(want) else "|delivery-differs"), "%s/%s/%s: delivered %r, expected %r" % (
                            "server" if server else "client", "drop" if fbd else "close", schedule, brief(got), brief(want)), case)
                    closes = [f for f in obs["frames"] if f.opcode == 8]
                    if code is None:
                        if closes or obs["dropped"]:
                            raise Violation(key + "|valid-stream-failed", "close frames %r dropped=%r" % ([f.payload[:2].hex() for f in closes], obs["dropped"]), case)
                    elif fbd:
                        if not obs["dropped"] or closes:
                            raise Violation(key + "|violation-not-failed", "failByDrop: dropped=%r close frames=%d" % (obs["dropped"], len(closes)), case)
                    else:
                        if len(closes) != 1 or closes[0].payload[:2] != struct.pack("!H", code):
                            raise Violation(key + "|violation-not-failed", "expected one close frame %d, wrote %r" % (code, [f.payload[:2].hex() for f in closes]), case)
                    col.case(True, enum=True, cls=["framebits/" + name], sample=case)
    col.exhaustive.append("C12 framebits: 15 RSV1 scenarios x roles x failByDrop x 3 read schedules")


# ---------------------------------------------------------------- (a) lattice

def parse_ext_header(header):
    from autobahn.websocket.protocol import WebSocketProtocol
    return WebSocketProtocol._parseExtensionsHeader(None, header)


def ref_check_response(offer, resp, case):
    """RFC 7692 7.1: what may a response contain given the offer?"""
    key = "C12|lattice|response-incompatible-with-offer"
    if resp.client_max_window_bits != 0 and not offer.accept_max_window_bits:
        raise Violation(key + "|client_max_window_bits-not-offered", "response has client_max_window_bits=%r but the offer did not include the parameter" % resp.client_max_window_bits, case)
    if offer.request_max_window_bits != 0:
        if resp.server_max_window_bits == 0 or resp.server_max_window_bits > offer.request_max_window_bits:
            raise Violation(key + "|server_max_window_bits", "offer requested server_max_window_bits=%d, response has %r" % (offer.request_max_window_bits, resp.server_max_window_bits), case)
    if offer.request_no_context_takeover and not resp.server_no_context_takeover:
        raise Violation(key + "|server_no_context_takeover-missing", "offer requested server_no_context_takeover, response lacks it", case)


def eff(pmce):
    return {"s_wb": pmce.server_max_window_bits, "c_wb": pmce.client_max_window_bits, "s_nct": bool(pmce.server_no_context_takeover),
            "c_nct": bool(pmce.client_no_context_takeover)}


def lattice(col, shard, nshards, stride, offset, only=None):
    from autobahn.websocket.compress import (PerMessageDeflate, PerMessageDeflateOffer, PerMessageDeflateOfferAccept, PerMessageDeflateResponse,
                                             PerMessageDeflateResponseAccept)
    offers = list(itertools.product([True, False], [True, False], [True, False], WB))
    accepts = list(itertools.product([False, True], WB, [None, True, False], [None] + WB[1:], [None, 1, 9]))
    raccepts = list(itertools.product([None, True, False], [None] + WB[1:]))
    msgs = [b"hello hello hello hello world", b"hello hello hello hello world!", b"", bytes(range(256)) * 3]
    import hashlib
    blk = hashlib.shake_128(b"c12").digest(17000)
    far = blk + blk        # a back-reference 17000 bytes away: only decodable when the inflater window is as large as the deflater's
    n_ref = 0
    for oi, o in enumerate(offers):
        if oi % nshards != shard and only is None:
            continue
        if only is not None and list(o) != list(only[0]):
            continue
        try:
            offer = PerMessageDeflateOffer(*o)
        except Exception:
            col.case(True, enum=True, cls="lattice/offer-refused")
            continue
        ext = offer.get_extension_string()
        parsed = parse_ext_header(ext)
        if len(parsed) != 1 or parsed[0][0] != "permessage-deflate":
            raise Violation("C12|lattice|offer-string-unparseable", ext, {"check": "lattice", "offer": o})
        try:
            offer2 = PerMessageDeflateOffer.parse(parsed[0][1])
        except Exception as e:
            raise Violation("C12|lattice|own-offer-rejected|" + exc_key(e), "%r -> %r" % (ext, e), {"check": "lattice", "offer": o})
        j1, j2 = dict(offer.__json__()), dict(offer2.__json__())
        j1.pop("accept_no_context_takeover"), j2.pop("accept_no_context_takeover")
        if j1 != j2:
            raise Violation("C12|lattice|offer-roundtrip-differs", "%r -> %r" % (offer.__json__(), offer2.__json__()), {"check": "lattice", "offer": o})
        for ai, a in enumerate(accepts):
            if ai % stride != offset and only is None:
                continue
            if only is not None and list(a) != list(only[1]):
                continue
            case = {"check": "lattice", "offer": o, "accept": a}
            try:
                accept = PerMessageDeflateOfferAccept(offer2, *a)
            except Exception:
                col.case(True, enum=True, cls="lattice/accept-refused")
                continue
            spmce = PerMessageDeflate.create_from_offer_accept(True, accept)
            rstr = accept.get_extension_string()
            rparsed = parse_ext_header(rstr)
            try:
                resp = PerMessageDeflateResponse.parse(rparsed[0][1])
            except Exception as e:
                raise Violation("C12|lattice|own-response-rejected|" + exc_key(e), "%r -> %r" % (rstr, e), case)
            ref_check_response(offer, resp, case)
            for r in raccepts:
                case = {"check": "lattice", "offer": o, "accept": a, "raccept": r}
                try:
                    raccept = PerMessageDeflateResponseAccept(resp, *r)
                except Exception:
                    col.case(True, enum=True, cls="lattice/response-accept-refused")
                    continue
                cpmce = PerMessageDeflate.create_from_response_accept(False, raccept)
                spmce = PerMessageDeflate.create_from_offer_accept(True, accept)     # fresh contexts for every triple
                S, C = eff(spmce), eff(cpmce)
                # server -> client direction
                if S["s_wb"] > C["s_wb"]:
                    raise Violation("C12|lattice|window-mismatch|server-to-client", "server compresses with window %d, client inflates with %d; %r" % (S["s_wb"], C["s_wb"], case), case)
                if C["s_nct"] and not S["s_nct"]:
                    raise Violation("C12|lattice|context-takeover-mismatch|server-to-client", "client resets its inflater per message, server keeps its deflater context; %r" % (case,), case)
                if C["c_wb"] > S["c_wb"]:
                    raise Violation("C12|lattice|window-mismatch|client-to-server", "client compresses with window %d, server inflates with %d; %r" % (C["c_wb"], S["c_wb"], case), case)
                if S["c_nct"] and not C["c_nct"]:
                    raise Violation("C12|lattice|context-takeover-mismatch|client-to-server", "server resets its inflater per message, client keeps its deflater context; %r" % (case,), case)
                # push traffic through the two PMCE objects
                use = msgs + [far] if (ai + len(r) + (r[1] or 0)) % 6 == 0 else msgs
                for src, dst, tag in ((spmce, cpmce, "server-to-client"), (cpmce, spmce, "client-to-server")):
                    for m in use:
                        try:
                            src.start_compress_message()
                            wire = src.compress_message_data(m) + src.end_compress_message()
                            dst.start_decompress_message()
                            out = dst.decompress_message_data(wire)
                            tail = dst.end_decompress_message()
                        except Exception as e:
                            raise Violation("C12|lattice|traffic-exception|%s|%s" % (tag, exc_key(e)), "%r on %r" % (e, case), case)
                        if out != m:
                            raise Violation("C12|lattice|traffic-corrupted|" + tag, "sent %r got %r; %r" % (m[:20], out[:20], case), case)
                        ref = None
                        if (src is spmce and S["s_nct"]) or (src is cpmce and C["c_nct"]):
                            try:
                                ref = zlib.decompressobj(-15).decompress(wire + b"\x00\x00\xff\xff")
                            except zlib.error as e:
                                ref = repr(e).encode()
                        if ref is not None and ref != m:
                            raise Violation("C12|lattice|no-context-takeover-not-honoured|" + tag, "message not decodable without earlier context; %r" % (case,), case)
                n_ref += 1
                nondefault = any(x not in (None, False, 0, True) for x in a) or any(x is not None for x in r) or o != (True, True, False, 0)
                col.case(True, enum=True, cls="lattice/ok" + ("/non-default" if nondefault else ""), sample=case)
    if shard == 0:
        col.exhaustive.append("permessage-deflate lattice: 64 offers x %s offer-accepts x 24 response-accepts (incl. constructor refusals)" % (
            "1152" if stride == 1 else "288 (1/4 selected by seed) of 1152"))


# ---------------------------------------------------------------- (b) traffic over real connections

def pmce_setup(case, copts, sopts):
    from autobahn.websocket import compress as cp
    p = case["pmce"]
    kind = p["ext"]
    if kind == "deflate":
        Offer, OA, RA = cp.PerMessageDeflateOffer, cp.PerMessageDeflateOfferAccept, cp.PerMessageDeflateResponseAccept
    elif kind == "bzip2":
        Offer, OA, RA = cp.PerMessageBzip2Offer, cp.PerMessageBzip2OfferAccept, cp.PerMessageBzip2ResponseAccept
    elif kind == "brotli":
        Offer, OA, RA = cp.PerMessageBrotliOffer, cp.PerMessageBrotliOfferAccept, cp.PerMessageBrotliResponseAccept
    else:
        raise HarnessError(kind)
    copts["perMessageCompressionOffers"] = [Offer(*p["offer"])]
    copts["perMessageCompressionAccept"] = lambda resp: RA(resp, *p["raccept"])

    def saccept(offers):
        for o in offers:
            if isinstance(o, Offer):
                return OA(o, *p["accept"])
    sopts["perMessageCompressionAccept"] = saccept


def traffic_strategy():
    from hypothesis import strategies as st
    from autobahn.websocket import compress as cp

    def valid_deflate(p):
        try:
            o = cp.PerMessageDeflateOffer(*p["offer"])
            a = cp.PerMessageDeflateOfferAccept(o, *p["accept"])
            r = cp.PerMessageDeflateResponse.parse(parse_ext_header(a.get_extension_string())[0][1])
            cp.PerMessageDeflateResponseAccept(r, *p["raccept"])
            return True
        except Exception:
            return False
    deflate = st.fixed_dictionaries({"ext": st.just("deflate"),
                                     "offer": st.tuples(st.booleans(), st.booleans(), st.booleans(), st.sampled_from(WB)),
                                     "accept": st.tuples(st.booleans(), st.sampled_from(WB), st.sampled_from([None, True, False]), st.sampled_from([None] + WB[1:]), st.sampled_from([None, 1, 9])),
                                     "raccept": st.tuples(st.sampled_from([None, True, False]), st.sampled_from([None] + WB[1:]), st.sampled_from([None, 1, 9]))}).filter(valid_deflate)
    def valid_other(p):
        try:
            if p["ext"] == "bzip2":
                O, OA, R, RA = cp.PerMessageBzip2Offer, cp.PerMessageBzip2OfferAccept, cp.PerMessageBzip2Response, cp.PerMessageBzip2ResponseAccept
            else:
                O, OA, R, RA = cp.PerMessageBrotliOffer, cp.PerMessageBrotliOfferAccept, cp.PerMessageBrotliResponse, cp.PerMessageBrotliResponseAccept
            a = OA(O(*p["offer"]), *p["accept"])
            RA(R.parse(parse_ext_header(a.get_extension_string())[0][1]), *p["raccept"])
            return True
        except Exception:
            return False
    bzip2 = st.fixed_dictionaries({"ext": st.just("bzip2"), "offer": st.tuples(st.just(True), st.sampled_from([0, 1, 9])),
                                   "accept": st.tuples(st.sampled_from([0, 1, 5]), st.sampled_from([None, 1, 9])), "raccept": st.tuples(st.sampled_from([None, 1, 9]))}).filter(valid_other)
    # brotli: only the no-context-takeover configuration is generated here; context takeover is a listed finding probed by brotli_context_takeover()
    brotli = st.fixed_dictionaries({"ext": st.just("brotli"), "offer": st.tuples(st.just(True), st.just(True)),
                                    "accept": st.tuples(st.just(True), st.just(True)), "raccept": st.tuples(st.just(True))}).filter(valid_other)

    @st.composite
    def msg(draw):
        n = draw(st.one_of(st.integers(0, 300), st.sampled_from([0, 1, 125, 126, 65536, 131072, 200000]), st.sampled_from([600, 1100, 2500, 5000, 20000])))
        api = draw(st.sampled_from(["msg", "msg", "msg", "frames", "prepared"]))
        m = {"len": n, "bin": draw(st.booleans()), "salt": draw(st.integers(0, 3)), "api": api, "kind": draw(st.sampled_from(["comp", "comp", "rand", "dup"])),
             "dnc": draw(st.integers(0, 3)) == 0}
        if api == "msg":
            m["frag"] = draw(st.sampled_from([0, 0, 7, 1000]))
            if m["frag"] and n // m["frag"] > 3000:
                m["frag"] = 1000
        if api == "frames":
            m["cuts"] = draw(st.lists(st.integers(0, n), max_size=3))
        return m

    @st.composite
    def case(draw):
        exts = [deflate, deflate, deflate, bzip2]
        try:
            import brotli as _b  # noqa
            exts.append(brotli)
        except ImportError:
            pass
        p = draw(st.one_of(*exts))
        nomask = draw(st.integers(0, 3)) == 0        # applyMask=False on both ends (the non-default "don't XOR" mode)
        return {"seed": draw(st.integers(0, 1 << 20)), "copts": dict({"autoFragmentSize": draw(st.sampled_from([0, 0, 100]))}, **({"applyMask": False} if nomask else {})),
                "sopts": dict({"autoFragmentSize": draw(st.sampled_from([0, 0, 100]))}, **({"applyMask": False} if nomask else {})), "compress": False, "pmce": p,
                "msgs": [draw(st.lists(msg(), min_size=2, max_size=6)), draw(st.lists(msg(), min_size=2, max_size=6))],
                "order": draw(st.lists(st.integers(0, 1), max_size=10)), "schedule": draw(st.lists(st.tuples(st.integers(0, 1), st.one_of(st.none(), st.integers(1, 5000))), max_size=12))}
    return case()


class PmceRun:
    pass


def check_traffic(case):
    from checks import wsdrive
    from harness import ref6455

    class Run(wsdrive.PairRun):
        def __init__(self, c, mode):
            c = dict(c)
            copts, sopts = dict(c["copts"]), dict(c["sopts"])
            pmce_setup(c, copts, sopts)
            c["copts"], c["sopts"] = copts, sopts
            wsdrive.PairRun.__init__(self, c, mode)
    key = "C12|traffic|" + case["pmce"]["ext"]
    for mode in ("drawn", "all"):
        r = Run(case, mode)
        try:
            try:
                r.run()
            except (Violation, HarnessError):
                raise
            except Exception as e:
                from harness.core import in_autobahn
                if in_autobahn(e) or "brotli" in type(e).__module__ or "zlib" in repr(type(e)):
                    raise Violation("%s|exception|%s" % (key, exc_key(e)), "mode=%s %r" % (mode, e), case)
                raise
            cp_, sp_ = r.c.proto._perMessageCompress, r.s.proto._perMessageCompress
            if cp_ is None or sp_ is None:
                raise Violation(key + "|not-negotiated", "client pmce=%r server pmce=%r" % (cp_, sp_), case)
            if type(cp_) is not type(sp_):
                raise Violation(key + "|ends-disagree-on-extension", "%r vs %r" % (cp_, sp_), case)
            wsdrive.delivery_check(r, key)
            # wire: RSV1 only on first frames; dnc messages raw with RSV1 clear; independent inflater for deflate
            for idx, side in enumerate(r.sides):
                raw = bytes(r.pipe.delivered[idx])
                body = raw[raw.find(b"\r\n\r\n") + 4:]
                frames, rest = ref6455.parse_frames(body)
                if rest:
                    raise Violation(key + "|wire-trailing-garbage", repr(rest[:20]), case)
                probs = ref6455.wire_problems(frames, idx == 0, compression=True)
                if probs:
                    raise Violation(key + "|wire-malformed", repr(probs[:3]), case)
                if not (case["copts"] if idx == 0 else case["sopts"]).get("applyMask", True):
                    for f in frames:
                        if f.masked:
                            f.payload = ref6455.xor_mask(f.payload, f.mask)   # payload travelled un-XORed
                inflater = None
                if case["pmce"]["ext"] == "deflate":
                    # RFC 7692 7.1.2: a sender must not use a larger LZ77 window than the one agreed for its direction; the agreed parameters
                    # are read from the server's handshake response as written on the wire
                    sraw = bytes(r.pipe.delivered[1])
                    hdr = sraw[:sraw.find(b"\r\n\r\n")].decode("latin-1").lower()
                    ext_line = next((ln.split(":", 1)[1] for ln in hdr.split("\r\n") if ln.startswith("sec-websocket-extensions:")), "")
                    name = "client_max_window_bits" if idx == 0 else "server_max_window_bits"
                    import re as _re
                    mm = _re.search(name + r"\s*=\s*\"?(\d+)", ext_line)
                    wb = int(mm.group(1)) if mm else 15
                    inflater = ref6455.RawInflater(wb, False)
                try:
                    events = [e for e in ref6455.reassemble(frames, inflater) if e[0] == "msg"]
                except Exception as e:
                    if "zlib" in repr(type(e)) or "zlib" in type(e).__module__:
                        raise Violation(key + "|wire-not-inflatable-with-agreed-window", "direction %d: an independent inflater with the agreed window of %d bits fails: %r" % (idx, wb, e), case)
                    raise
                sent = r.sent[idx]
                specs = [m for m in case["msgs"][idx] if m.get("in_onopen")] + [m for m in case["msgs"][idx] if not m.get("in_onopen")]
                if len(events) != len(sent):
                    raise Violation(key + "|wire-message-count", "%d on wire, %d sent" % (len(events), len(sent)), case)
                for ev, (b, p) in zip(events, sent):
                    if inflater is not None or not ev[3]:
                        if (ev[1], ev[2]) != (b, p):
                            raise Violation(key + "|wire-content-differs", "independent inflater gives %d bytes, sent %d (compressed=%s)" % (len(ev[2]), len(p), ev[3]), case)
                # dnc
                order = [m for m in case["msgs"][idx]]
                sent_specs = sorted(range(len(order)), key=lambda k: 0)  # order preserved per direction
                for ev, m in zip(events, order):
                    if m.get("dnc") and ev[3]:
                        raise Violation(key + "|doNotCompress-message-compressed", "message flagged doNotCompress travelled with RSV1 set", case)
        finally:
            r.close()
    return True


def traffic(col, seed, n):
    def body(c):
        check_traffic(c)
        p = c["pmce"]
        nondefault = p["ext"] != "deflate" or p["offer"] != (True, True, False, 0) or any(x not in (None, False, 0) for x in p["accept"]) or any(x is not None for x in p["raccept"])
        col.case(True, dig=c, cls=["traffic/" + p["ext"]] + (["traffic/non-default-params"] if nondefault else []) +
                 (["traffic/large"] if any(m["len"] >= 65536 for ms in c["msgs"] for m in ms) else []) +
                 (["traffic/doNotCompress"] if any(m.get("dnc") for ms in c["msgs"] for m in ms) else []) + (["traffic/applyMask=False"] if c["copts"].get("applyMask") is False else []),
                 sample={"pmce": p, "client_msgs": [(m["len"], m["api"], m["kind"], m.get("dnc")) for m in c["msgs"][0]]})
    run_hypothesis(col, "traffic", traffic_strategy(), body, n, seed)


# ---------------------------------------------------------------- (c) negative handshakes

BAD_RESPONSES = [
    ("unknown-extension", "x-webkit-deflate-frame"),
    ("unknown-extension-with-pmce", "permessage-deflate, foo-ext"),
    ("repeated-extension", "permessage-deflate, permessage-deflate"),
    ("repeated-extension-params", "permessage-deflate; server_no_context_takeover, permessage-deflate; client_no_context_takeover"),
    ("unknown-param", "permessage-deflate; bogus_param"),
    ("unknown-param-valued", "permessage-deflate; window=15"),
    ("duplicate-param", "permessage-deflate; server_max_window_bits=10; server_max_window_bits=10"),
    ("duplicate-flag", "permessage-deflate; server_no_context_takeover; server_no_context_takeover"),
    ("out-of-range-low", "permessage-deflate; server_max_window_bits=8"),
    ("out-of-range-high", "permessage-deflate; client_max_window_bits=16"),
    ("out-of-range-zero", "permessage-deflate; server_max_window_bits=0"),
    ("non-integer", "permessage-deflate; server_max_window_bits=abc"),
    ("empty-value", "permessage-deflate; client_max_window_bits="),
    ("valued-flag", "permessage-deflate; server_no_context_takeover=1"),
    ("valued-flag-client", "permessage-deflate; client_no_context_takeover=true"),
    ("valueless-window", "permessage-deflate; server_max_window_bits"),
    ("not-offered-extension", "permessage-bzip2"),
]
BAD_OFFERS = [
    ("unknown-param", "permessage-deflate; bogus"),
    ("duplicate-param", "permessage-deflate; client_max_window_bits; client_max_window_bits"),
    ("out-of-range", "permessage-deflate; server_max_window_bits=7"),
    ("valued-flag", "permessage-deflate; server_no_context_takeover=yes"),
    ("non-integer", "permessage-deflate; client_max_window_bits=x"),
]


def negative(col, seed, n):
    from hypothesis import strategies as st
    from harness import drv, wsutil
    from autobahn.websocket.compress import PerMessageDeflateOffer, PerMessageDeflateOfferAccept, PerMessageDeflateResponseAccept, PerMessageDeflateResponse

    strat = st.one_of(
        st.tuples(st.just("client"), st.sampled_from(BAD_RESPONSES), st.sampled_from(["accept", "decline"]), st.booleans()),
        st.tuples(st.just("client-declines"), st.sampled_from([("valid", "permessage-deflate"), ("valid-nct", "permessage-deflate; server_no_context_takeover")]), st.just("decline"), st.booleans()),
        st.tuples(st.just("client-valid"), st.sampled_from([("valid", "permessage-deflate"), ("valid-wb", "permessage-deflate; server_max_window_bits=12"),
                                                          ("valid-cwb", "permessage-deflate; client_max_window_bits=10; client_no_context_takeover")]), st.just("accept"), st.booleans()),
        # a client that offered nothing: whatever extension the response names was not offered / is unknown to it
        st.tuples(st.just("client-no-offers"), st.sampled_from(BAD_RESPONSES + [("valid", "permessage-deflate"), ("valid-nct", "permessage-deflate; server_no_context_takeover"),
                                                                                ("unknown-only", "x-webkit-deflate-frame"), ("unknown-mux", "mux; max-channels=4")]),
                  st.sampled_from(["accept", "decline"]), st.booleans()),
        st.tuples(st.just("server"), st.sampled_from(BAD_OFFERS), st.just("accept"), st.booleans()))

    def body(t):
        negative_one(col, t)
    run_hypothesis(col, "negative", strat, body, n, seed)


def negative_one(col, t):
    from harness import drv, wsutil
    from autobahn.websocket.compress import PerMessageDeflateOffer, PerMessageDeflateOfferAccept, PerMessageDeflateResponseAccept, PerMessageDeflateResponse
    if True:
        role, (name, ext), policy, split = t
        case = {"check": "negative", "role": role, "name": name, "ext": ext, "policy": policy, "split": split}
        d = drv.get_driver()
        try:
            if role.startswith("client"):
                opts = {"perMessageCompressionOffers": [PerMessageDeflateOffer()], "openHandshakeTimeout": 0,
                        "perMessageCompressionAccept": (lambda r: PerMessageDeflateResponseAccept(r) if isinstance(r, PerMessageDeflateResponse) else None) if policy == "accept" else (lambda r: None)}
                if role == "client-no-offers":
                    opts["perMessageCompressionOffers"] = []
                side = wsutil.client(d, opts=opts)
                ep = side.connect()
                d.settle()
                req = ep.take()
                key_hdr = dict(wsutil.split_http(req)[1]).get("sec-websocket-key")
                resp = wsutil.raw_response(key_hdr, extensions=ext)
                if split:
                    ep.feed(resp[:len(resp) // 2])
                    ep.feed(resp[len(resp) // 2:])
                else:
                    ep.feed(resp)
                d.settle()
                opened = side.count("open") > 0
                if role == "client-valid":
                    if not opened or side.proto._perMessageCompress is None:
                        raise Violation("C12|negative|valid-response-refused|" + name, "client did not open for %r (escaped=%r)" % (ext, ep.escaped), case)
                elif role == "client-no-offers" and name.startswith("valid") and policy == "accept":
                    pass    # a well-formed compression response approved by the application's accept policy: what the statement allows a client to complete
                else:
                    if opened:
                        raise Violation("C12|negative|client-opened|" + name, "client completed the handshake for response extensions %r (policy=%s)" % (ext, policy), case)
                    if not ep.drop_requested:
                        raise Violation("C12|negative|client-did-not-drop|" + name, "response %r" % ext, case)
                if ep.escaped or d.loop_errors:
                    raise Violation("C12|negative|exception-escaped|" + name, repr((ep.escaped or d.loop_errors)[0])[:300], case)
            else:
                opts = {"perMessageCompressionAccept": lambda offers: PerMessageDeflateOfferAccept(offers[0]), "openHandshakeTimeout": 0}
                side = wsutil.server(d, opts=opts)
                ep = side.connect()
                ep.feed(wsutil.raw_request(extensions=ext))
                d.settle()
                out = ep.take()
                if ep.escaped or d.loop_errors:
                    raise Violation("C12|negative|exception-escaped|server-" + name, repr((ep.escaped or d.loop_errors)[0])[:300], case)
                if side.count("open") and side.proto._perMessageCompress is not None:
                    raise Violation("C12|negative|server-accepted-malformed-offer|" + name, "offer %r activated compression" % ext, case)
                if side.count("open") and b"permessage-deflate" in out.lower():
                    raise Violation("C12|negative|server-accepted-malformed-offer|" + name, "response mentions the extension", case)
        finally:
            d.close()
        col.case(True, dig=case, cls=["negative/" + role + "/" + name], sample=case)


def brotli_context_takeover(col):
    """deterministic probe: permessage-brotli with context takeover, three messages in one direction at codec level"""
    from autobahn.websocket import compress as cp
    if not hasattr(cp, "PerMessageBrotli"):
        col.notes.append("brotli not installed: probe skipped")
        return
    a = cp.PerMessageBrotliOfferAccept(cp.PerMessageBrotliOffer())
    s = cp.PerMessageBrotli.create_from_offer_accept(True, a)
    r = cp.PerMessageBrotliResponse.parse(parse_ext_header(a.get_extension_string())[0][1])
    c = cp.PerMessageBrotli.create_from_response_accept(False, cp.PerMessageBrotliResponseAccept(r))
    case = {"check": "brotli-ctx"}
    for k, m in enumerate([b"hello", b"hello again", b"and again"]):
        try:
            s.start_compress_message()
            w = s.compress_message_data(m) + s.end_compress_message()
            c.start_decompress_message()
            out = c.decompress_message_data(w)
            c.end_decompress_message()
        except Exception as e:
            col.finding("C12|brotli|context-takeover|message-%d-fails" % k, "%r while sending message #%d on a context-takeover connection" % (e, k), case)
            break
        if out != m:
            col.finding("C12|brotli|context-takeover|message-%d-corrupted" % k, "got %r" % out[:20], case)
            break
    col.case(True, dig="brotli-ctx", cls="brotli/context-takeover-probe", sample=case)


def replay(col, case):
    case = dec(case)
    c = case.get("case", case)
    kind = c.get("check")
    if kind == "lattice":
        if "accept" in c:
            lattice(col, 0, 1, 1, 0, only=(c["offer"], c["accept"]))
            return
    elif kind == "framebits":
        framebits(col)
        return
    elif kind == "negative":
        negative_one(col, (c["role"], (c["name"], c["ext"]), c["policy"], c["split"]))
        return
    elif "pmce" in c:
        c["pmce"] = {k: (tuple(v) if isinstance(v, list) else v) for k, v in c["pmce"].items()}
        check_traffic(c)
    col.case()
