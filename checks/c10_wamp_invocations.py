"""C10 - every invocation gets exactly one terminal reply."""
from harness.core import Violation, HarnessError, run_hypothesis, dec, exc_key, brief, in_autobahn

DESCRIPTION = {
    "level": "exploration",
    "rule": ("A callee session on each of the four real client transports (WebSocket / RawSocket x Twisted / asyncio), every serializer, talks to a scripted raw router (independent "
             "framing + third-party codecs; the router announces RawSocket maximum lengths 2^9..2^24, the WebSocket side sets maxMessagePayloadSize).  Hypothesis draws a history: "
             "registered endpoints with behaviours {returns value / CallResult / None / something not serializable / a value whose serialized size is just below, at, above the "
             "limit; raises ApplicationError / a define()d class / an undefined exception / an exception with unserializable args; returns a pending result resolved or failed "
             "later; a 'chained' one (a Deferred that has fired and waits on a Deferred returned by its callback / a Task awaiting the inner future); a 'shielded' asynchronous endpoint that swallows cancellation and still returns a value (Deferred errback / coroutine catching CancelledError); "
             "emits 0-3 progress results first}, several concurrent INVOCATIONs (receive_progress on/off, caller details on/off, args/kwargs shapes), resolve/fail of pending "
             "results, INTERRUPT at every point (pending, after completion, unknown id, and in the *same read* as its INVOCATION so that no event-loop turn separates them) unregistration of a procedure while its invocations are still running, and unrelated "
             "traffic.  Oracle: for every invocation id, while the transport is up, the bytes "
             "written to the router decode to exactly one terminal message with that id - a non-progress YIELD carrying the return value, or ERROR(INVOCATION,id,uri) with "
             "wamp.error.invalid_payload / payload_size_exceeded in the two send-failure cases - never zero, never two; progressive YIELDs only before it and only if "
             "receive_progress was set; the endpoint observed exactly the caller's args/kwargs plus CallDetails iff requested; no message exceeds the announced limit.  "
             "Each procedure is registered as a plain callable, a bound method, or through register(obj) with a @wamp.register-decorated method of a normal / empty-container / __bool__-false object: the method must be invoked with exactly that object as self.  Style 'checked' registers with check_types=True.  Enumerated job: encrypted invocations whose endpoint returns / raises / emits a value the payload codec cannot serialize still get exactly one terminal reply.  WebSocket transports also run with outgoing auto-fragmentation.  Non-trivial = pending endpoint + INTERRUPT, a send-failure behaviour, or >=2 concurrent invocations; distinct by (transport, serializer, history). Endpoint behaviour 'chained': a Deferred that has already fired and waits on a Deferred returned by one of its callbacks (asyncio: a Task awaiting the inner future) - pending until the inner step completes, and an INTERRUPT must cancel it. Behaviour 'unserializable-big': a result that is neither serializable nor within the transport's size limit - one ERROR (invalid_payload or payload_size_exceeded) is still required. Half of the endpoints that were given a details.progress call it once more after the invocation has been answered - by a value, an error, or the fallback ERROR for a result that could not be sent: no progressive YIELD may follow the terminal reply."),
    "assumptions": ["the transport stays up for the whole history (transport loss is C06/C13)"],
}

BEHAVIOURS = ["value", "value", "callresult", "none", "unserializable", "oversized", "raise-app", "raise-defined", "raise-undefined", "raise-unserializable-args", "pending", "pending", "progress", "shielded", "chained", "unserializable-big"]


def plan(tier, seed):
    n = 400 if tier == "quick" else 2000
    jobs = []
    for i, fw in enumerate(("twisted", "asyncio")):
        for k, kind in enumerate(("ws", "rs")):
            for sh in range(1 if tier == "quick" else 4):
                jobs.append({"func": "histories", "fw": fw, "name": "hist/%s/%s/%d" % (fw, kind, sh), "args": {"seed": seed * 1000 + i * 100 + k * 10 + sh, "n": n, "kind": kind}})
        jobs.append({"func": "encrypted_unencodable", "fw": fw, "name": "encrypted_unencodable/" + fw, "args": {}})
    return jobs


def norm(v):
    if isinstance(v, (tuple, list)):
        return [norm(x) for x in v]
    if isinstance(v, dict):
        return {k: norm(x) for k, x in v.items()}
    return v


def strategy(kind):
    from hypothesis import strategies as st
    from harness import wampwire as W
    vals = st.lists(W.values, max_size=3)
    kws = st.dictionaries(st.sampled_from(["a", "b", "x1"]), W.values, max_size=2)
    step = st.one_of(
        st.tuples(st.just("invoke"), st.integers(0, 2), vals, kws, st.booleans()),      # proc index, args, kwargs, receive_progress
        st.tuples(st.just("invoke"), st.integers(0, 2), vals, kws, st.booleans(), st.just(True)),   # INVOCATION and INTERRUPT arrive in one read
        st.tuples(st.just("resolve"), st.integers(0, 5), st.sampled_from(["ok", "fail", "fail-undefined", "unserializable"])),
        st.tuples(st.just("interrupt"), st.integers(0, 8), st.sampled_from(["pending", "done", "unknown"])),
        st.tuples(st.just("unregister"), st.integers(0, 2)),
        st.tuples(st.just("event")))
    return st.fixed_dictionaries({
        "ser": st.sampled_from(["json", "msgpack", "cbor", "ubjson"]), "limit_exp": st.sampled_from([1, 1, 2, 3, 15] if kind == "rs" else [15]),
        "ws_limit": st.sampled_from([0, 1000, 2000]) if kind == "ws" else st.just(0),
        "auto_frag": st.sampled_from([0, 0, 64, 512, 1000]) if kind == "ws" else st.just(0),
        "procs": st.lists(st.tuples(st.sampled_from(BEHAVIOURS), st.booleans(), st.integers(0, 3)), min_size=3, max_size=3),   # behaviour, wants details, n progress
        # how each procedure is registered: a plain callable, a bound method, or register(obj) of an object with a @wamp.register-decorated method
        # (the object may be an empty container or otherwise falsy: it is still the method's self)
        "styles": st.lists(st.sampled_from(["func", "func", "func-checked", "bound", "obj", "obj-empty", "obj-false", "obj-multi"]), min_size=3, max_size=3),
        "steps": st.lists(step, min_size=1, max_size=10), "kind": st.just(kind)})


class World:
    def __init__(self, c):
        import txaio
        from harness import wamptx
        from autobahn.wamp.types import RegisterOptions, CallResult
        from autobahn.wamp.exception import ApplicationError
        self.c = c
        self.txaio = txaio
        self.events = []
        self.calls = []         # (proc index, args, kwargs, details) observed by endpoints
        self.pending = []       # (proc index, future, invocation-order index)
        self.sess = None
        world = self

        class Defined(Exception):
            pass
        self.Defined = Defined

        def on_join(s, details):
            world.sess = s
            s.define(Defined, "com.myapp.error.defined")
        S = wamptx.make_session_class(self.events, {"onJoin": on_join})
        ws_opts = {"maxMessagePayloadSize": c["ws_limit"]} if c["ws_limit"] else None
        if c.get("auto_frag"):
            # outgoing auto-fragmentation (what ApplicationRunner / Component configure by default): the size limit is about the whole message
            ws_opts = dict(ws_opts or {}, autoFragmentSize=c["auto_frag"])
        self.tx = wamptx.ClientTransport(c["kind"], c["ser"], S, peer_max_exp=c["limit_exp"], ws_opts=ws_opts)
        self.limit = (2 ** (9 + c["limit_exp"])) if c["kind"] == "rs" else (c["ws_limit"] or None)
        hello = self.tx.recv_raw()
        if not hello or hello[0][0] != 1:
            raise HarnessError("no HELLO from session: %r" % (hello,))
        self.tx.send_raw([2, 7777, {"roles": {"dealer": {"features": {"progressive_call_results": True, "call_canceling": True}}, "broker": {}}}])
        if ("join",) not in self.events or self.sess is None:
            raise HarnessError("session did not join: %r" % (self.events,))
        self.reg_ids = []
        self.bad_self = []
        self.regs = {}
        self.unregistered = set()
        for k, (beh, details, nprog) in enumerate(c["procs"]):
            fn = self.make_endpoint(k, beh, details, nprog)
            opt = RegisterOptions(details=True) if (details or beh == "progress") else None
            style = (c.get("styles") or ["func"] * 3)[k]
            if style in ("func", "func-checked"):
                # "-checked": registered with check_types=True (the endpoint has no annotations, so every call passes the check and must reach it unchanged)
                fut = self.tx.d.call(lambda fn=fn, k=k, opt=opt, ct=(style == "func-checked"): self.sess.register(fn, "com.myapp.proc%d" % k, opt, check_types=ct or None))
                txaio.add_callbacks(fut, lambda reg, k=k: self.regs.__setitem__(k, reg), None)
            else:
                holder = self.make_holder(k, fn, style)
                if style == "bound":
                    fut = self.tx.d.call(lambda holder=holder, k=k, opt=opt: self.sess.register(holder.plain, "com.myapp.proc%d" % k, opt))
                    txaio.add_callbacks(fut, lambda reg, k=k: self.regs.__setitem__(k, reg), None)
                else:
                    def keep(res, k=k):
                        regs = [x[1] if isinstance(x, tuple) else x for x in res]
                        mine = [x for x in regs if getattr(x, "procedure", None) == "com.myapp.proc%d" % k]
                        self.regs[k] = mine[0] if mine else regs[0]
                    fut = self.tx.d.call(lambda holder=holder, opt=opt: self.sess.register(holder, options=opt))
                    txaio.add_callbacks(fut, keep, None)
            msgs = self.tx.recv_raw()
            if style == "obj-multi":
                # the object has a second decorated method (sorted first, with decorator-level options of its own, asking for call details)
                if len(msgs) != 2 or any(m[0] != 64 for m in msgs):
                    raise Violation("C10|register-object|request-count", "register(obj) of an object with two decorated methods wrote %r" % (msgs,), c)
                for m in msgs:
                    if m[3] == "com.myapp.proc%d" % k:
                        self.tx.send_raw([65, m[1], 9000 + k])
                    else:
                        self.tx.send_raw([65, m[1], 9500 + k])
                self.reg_ids.append(9000 + k)
                continue
            if len(msgs) != 1 or msgs[0][0] != 64:
                raise HarnessError("REGISTER expected, got %r" % (msgs,))
            self.tx.send_raw([65, msgs[0][1], 9000 + k])
            self.reg_ids.append(9000 + k)
        self.tx.recv_raw()
        self.next_inv = 100
        self.invs = []          # dicts: id, proc, behaviour, rp(receive_progress), terminal(list), progress(list), expect

    def big(self):
        limit = self.limit or 4096
        return "x" * (limit + 50)

    def make_holder(self, k, fn, style):
        """an application object whose method is the endpoint; the method must be invoked with exactly this object as self"""
        from autobahn import wamp
        world = self

        class Holder:
            def __init__(self):
                self.items = []

            def plain(self, *args, **kwargs):
                if self is not holder:
                    raise Violation("C10|endpoint-self-differs", "bound method invoked with self=%r" % (self,), world.c)
                return fn(*args, **kwargs)

            @wamp.register("com.myapp.proc%d" % k)
            def decorated(*args, **kwargs):
                if not args or args[0] is not holder:
                    world.bad_self.append((k, style, brief(list(args[:2]))))
                    raise TypeError("decorated() missing 1 required positional argument: 'self'")
                return fn(*args[1:], **kwargs)
        if style == "obj-multi":
            from autobahn.wamp.types import RegisterOptions

            @wamp.register("com.myapp.aux%d" % k, options=RegisterOptions(details_arg="call_details", invoke="roundrobin"))
            def aaa_first(self_, *args, **kwargs):
                return "aux"
            aaa_first.__name__ = "aaa_first"
            Holder.aaa_first = aaa_first
        if style == "obj-empty":
            Holder.__len__ = lambda self: len(self.items)
        elif style == "obj-false":
            Holder.__bool__ = lambda self: False
        holder = Holder()
        self.holders = getattr(self, "holders", []) + [holder]
        return holder

    def make_endpoint(self, k, beh, details, nprog):
        from autobahn.wamp.types import CallResult
        from autobahn.wamp.exception import ApplicationError
        world = self

        def endpoint(*args, **kwargs):
            det = kwargs.pop("details", None) if (details or beh == "progress") else None
            world.calls.append((k, args, dict(kwargs), det))
            if beh == "progress":
                if det is not None and det.progress is not None:
                    for j in range(nprog):
                        det.progress("p%d" % j, j=j)
                return "final"
            if beh == "value":
                return ["result", k, list(args)]
            if beh == "callresult":
                return CallResult(1, "two", k=k)
            if beh == "none":
                return None
            if beh == "unserializable":
                return {"obj": object()}
            if beh == "unserializable-big":
                # neither serializable nor small: whatever the session says about it has to fit the transport as well
                return {"obj": object(), "pad": world.big()}
            if beh == "oversized":
                return world.big()
            if beh == "raise-app":
                raise ApplicationError("com.myapp.error.app", "bad", k, reason="because")
            if beh == "raise-defined":
                raise world.Defined("defined", k)
            if beh == "raise-undefined":
                raise KeyError("undefined %d" % k)
            if beh == "raise-unserializable-args":
                raise ApplicationError("com.myapp.error.app", object())
            f = world.txaio.create_future()
            world.pending.append({"proc": k, "fut": f, "inv": world.next_inv})
            if beh == "chained":
                # callback style: the returned Deferred has already fired and is paused on a Deferred one of its callbacks returned (Deferred chaining);
                # under asyncio the closest idiom is a Task awaiting the inner future.  Pending until the inner step completes; cancellable.
                if world.tx.d.fw == "twisted":
                    from twisted.internet.defer import succeed
                    outer = succeed("first step done")
                    outer.addCallback(lambda _: f)
                    return outer
                import asyncio

                async def co2():
                    return await f
                return asyncio.ensure_future(co2())
            if beh == "shielded":
                # an asynchronous endpoint that survives cancellation: it catches the cancel and still completes with a value
                if world.tx.d.fw == "twisted":
                    from twisted.internet.defer import CancelledError

                    def recover(fail):
                        fail.trap(CancelledError)
                        return "recovered"
                    f.addErrback(recover)
                    return f
                import asyncio

                async def co():
                    try:
                        return await f
                    except asyncio.CancelledError:
                        return "recovered"
                return co()
            return f
        return endpoint

    def collect(self):
        """assign everything the session wrote to the invocations; check sizes"""
        msgs = self.tx.recv_raw()
        if self.bad_self:
            raise Violation("C10|endpoint-self-differs", "method of a registered object invoked without that object as self (proc, style, leading args): %r" % (self.bad_self[:2],), self.c)
        for m, size in zip([x for x in msgs if not (isinstance(x, tuple) and x[0] == "CLOSE")], self.tx.last_sizes):
            if self.limit and size > self.limit:
                raise Violation("C10|message-exceeds-announced-limit", "%d bytes written, peer limit %d" % (size, self.limit), self.c)
        for m in msgs:
            if isinstance(m, tuple):
                raise Violation("C10|transport-closed-by-session", "close %r (events %r)" % (m, self.events[-3:]), self.c)
            if m[0] == 70:       # YIELD [70, request, options, args, kwargs]
                inv = next((i for i in self.invs if i["id"] == m[1]), None)
                if inv is None:
                    raise Violation("C10|yield-for-unknown-invocation", repr(m[:3]), self.c)
                if m[2].get("progress"):
                    if inv["terminal"]:
                        raise Violation("C10|progress-after-terminal-reply", "invocation %d" % inv["id"], self.c)
                    inv["progress"].append(m)
                else:
                    inv["terminal"].append(m)
            elif m[0] == 8 and m[1] == 68:   # ERROR [8, 68, request, details, uri, args, kwargs]
                inv = next((i for i in self.invs if i["id"] == m[2]), None)
                if inv is None:
                    raise Violation("C10|error-for-unknown-invocation", repr(m[:5]), self.c)
                inv["terminal"].append(m)
            else:
                raise Violation("C10|unexpected-message-from-callee", repr(m[:3]), self.c)
        if self.tx.ep.escaped or self.tx.d.loop_errors:
            e = (self.tx.ep.escaped or self.tx.d.loop_errors)[0]
            ek = exc_key(e) if isinstance(e, Exception) else ("loop|" + (exc_key(e.get("exception")) if isinstance(e, dict) and e.get("exception") else "?"))
            raise Violation("C10|exception-escaped|" + ek, repr(e)[:400], self.c)
        if self.tx.ep.drop_requested:
            raise Violation("C10|transport-dropped-by-session", "events %r" % (self.events[-3:],), self.c)

    def do_unregister(self, k):
        """the application unregisters procedure k (the router confirms); invocations already running must still be answered"""
        if k in self.unregistered or k not in self.regs:
            return
        self.unregistered.add(k)
        self.tx.d.call(lambda: self.regs[k].unregister())
        msgs = self.tx.recv_raw()
        if len(msgs) != 1 or msgs[0][0] != 66 or msgs[0][2] != self.reg_ids[k]:
            raise Violation("C10|unregister-not-sent", repr(msgs), self.c)
        self.tx.send_raw([67, msgs[0][1]])
        self.collect()

    def do_invoke(self, k, args, kwargs, rp, with_interrupt=False):
        if k in self.unregistered:
            return
        beh, details, nprog = self.c["procs"][k]
        self.next_inv += 1
        iid = self.next_inv
        opts = {}
        if rp:
            opts["receive_progress"] = True
        elif (iid + k) % 3 == 0:
            opts["receive_progress"] = False      # an explicit "no": the same as absent
        if details:
            opts["caller"] = 4242
            opts["caller_authid"] = "joe"
        if self.limit:
            # the router respects the limit the callee's transport announced / enforces on what it receives: an INVOCATION above it is not sent
            # (on WebSocket maxMessagePayloadSize also governs the receive side: an over-limit INVOCATION is rightly answered with 1009)
            from harness import wamptx
            probe = [68, iid, self.reg_ids[k], opts] + ([list(args)] if (args or kwargs) else []) + ([dict(kwargs)] if kwargs else [])
            if len(wamptx.dumps(self.tx.ser, probe)) > self.limit - 16:
                self.next_inv -= 1
                return
        inv = {"id": iid, "proc": k, "beh": beh, "rp": rp, "terminal": [], "progress": [], "args": list(args), "kwargs": dict(kwargs), "state": "running"}
        if with_interrupt and (self.c.get("styles") or ["func"] * 3)[k] == "func-checked":
            inv["cancelled_at_once"] = True
        self.invs.append(inv)
        n_calls = len(self.calls)
        msg = [68, iid, self.reg_ids[k], opts]
        if args or kwargs:
            msg.append(list(args))
        if kwargs:
            msg.append(dict(kwargs))
        if with_interrupt:
            self.tx.send_raw_many([msg, [69, iid, {}]])
        else:
            self.tx.send_raw(msg)
        self.collect()
        seen = self.calls[n_calls:]
        if with_interrupt and not seen and (self.c.get("styles") or ["func"] * 3)[k] == "func-checked":
            # the type-checking wrapper is a coroutine: the INTERRUPT of the same read may cancel it before the endpoint itself started.
            # The statement asks for exactly one terminal reply - the ERROR for the cancellation
            inv["state"] = "done"
            self.expect_terminal(inv, "interrupted")
            return
        if len(seen) != 1 or seen[0][0] != k:
            raise Violation("C10|endpoint-not-invoked-once", "invocation %d: endpoint calls %r" % (iid, brief(seen)), self.c)
        _, a, kw, det = seen[0]
        inv["det"] = det
        if norm(list(a)) != norm(list(args)) or norm(kw) != norm(kwargs):
            raise Violation("C10|endpoint-arguments-differ", "endpoint saw args=%r kwargs=%r; caller sent %r %r" % (brief(a), brief(kw), brief(args), brief(kwargs)), self.c)
        wants = details or beh == "progress"
        if wants:
            from autobahn.wamp.types import CallDetails
            if not isinstance(det, CallDetails):
                raise Violation("C10|call-details-missing", repr(det), self.c)
            if details and (det.caller != 4242 or det.caller_authid != "joe"):
                raise Violation("C10|call-details-differ", "caller=%r authid=%r" % (det.caller, det.caller_authid), self.c)
            if (det.progress is not None) != bool(rp):
                raise Violation("C10|progress-callable-vs-receive_progress", "receive_progress=%r but details.progress=%r" % (rp, det.progress), self.c)
        if with_interrupt:
            inv["state"] = "done"
            for p in self.pending:
                if p["inv"] == iid:
                    p["done"] = True
            if beh in ("pending", "chained"):
                self.expect_terminal(inv, "interrupted")
            elif beh == "shielded":
                self.expect_terminal(inv, "shielded-interrupted")
            else:
                # the endpoint had returned before the INTERRUPT was looked at: its outcome is the reply; an ERROR that says "cancelled" is tolerated
                t = inv["terminal"]
                if len(t) == 1 and t[0][0] == 8 and (t[0][4] == "wamp.error.canceled" or "ancel" in repr(t[0][5:])) and beh not in ("raise-app", "raise-defined"):
                    pass
                else:
                    self.expect_terminal(inv)
        elif beh in ("pending", "shielded", "chained"):
            inv["state"] = "pending"
        else:
            inv["state"] = "done"
            self.expect_terminal(inv)
            self.late_progress(inv)

    def late_progress(self, inv):
        """an endpoint that kept details.progress and calls it once more after the invocation has been answered - whatever the answer was (a value, an
        error, the fallback ERROR for a result that could not be sent) - e.g. from a stray timer or a worker thread: whatever the session does
        with that call, no progressive result may follow the terminal reply on the wire"""
        det = inv.get("det")
        if det is None or getattr(det, "progress", None) is None or (len(inv["args"]) + inv["id"]) % 2:
            return
        try:
            self.tx.d.call(lambda: det.progress("late", j=-1))
        except Exception:
            pass        # refusing the late call with an exception is fine
        self.tx.d.settle()
        self.collect()
        self.late_progress_calls = getattr(self, "late_progress_calls", 0) + 1

    def expect_terminal(self, inv, how=None):
        beh = how or inv["beh"]
        t = inv["terminal"]
        if len(t) != 1:
            raise Violation("C10|terminal-reply-count-%d|%s" % (len(t), beh), "invocation %d (%s, %s/%s): %d terminal replies %r, progress %d; events %r" % (
                inv["id"], beh, self.c["kind"], self.c["ser"], len(t), brief([m[:5] for m in t]), len(inv["progress"]), self.events[-2:]), self.c)
        m = t[0]
        is_yield = m[0] == 70
        uri = None if is_yield else m[4]
        if beh in ("value", "callresult", "none", "progress", "ok"):
            if not is_yield:
                raise Violation("C10|success-answered-with-error|" + beh, repr(m[:6]), self.c)
            args = m[3] if len(m) > 3 else []
            kw = m[4] if len(m) > 4 else {}
            want = {"value": ([["result", inv["proc"], norm(inv["args"])]], {}), "callresult": ([1, "two"], {"k": inv["proc"]}), "none": ([None], {}),
                    "progress": (["final"], {}), "ok": (["resolved"], {})}[beh]
            if norm(args) != want[0] and not (beh == "none" and norm(args) in ([], [None])) or norm(kw or {}) != want[1]:
                raise Violation("C10|yield-content-differs|" + beh, "YIELD args=%r kwargs=%r expected %r %r" % (brief(args), brief(kw), want[0], want[1]), self.c)
        elif beh == "unserializable-big":
            if is_yield or uri not in ("wamp.error.invalid_payload", "wamp.error.payload_size_exceeded"):
                raise Violation("C10|unserializable-result-not-answered-with-an-error|" + beh, repr([x if not isinstance(x, (str, list, dict)) else str(x)[:40] for x in m[:6]]), self.c)
        elif beh in ("unserializable", "raise-unserializable-args"):
            if is_yield or uri != "wamp.error.invalid_payload":
                raise Violation("C10|unserializable-result-not-answered-with-invalid_payload|" + beh, repr(m[:6]), self.c)
        elif beh == "oversized" and not self.limit:
            if not is_yield or (m[3] if len(m) > 3 else []) != [self.big()]:
                raise Violation("C10|yield-content-differs|big", "no limit configured: %r" % ([x if not isinstance(x, list) else "..." for x in m[:3]],), self.c)
        elif beh == "oversized":
            if is_yield or uri != "wamp.error.payload_size_exceeded":
                raise Violation("C10|oversized-result-not-answered-with-payload_size_exceeded", repr([x if not isinstance(x, str) else x[:40] for x in m[:5]]), self.c)
        elif beh == "raise-app" or beh == "fail":
            if is_yield or uri != "com.myapp.error.app":
                raise Violation("C10|application-error-uri-differs", repr(m[:6]), self.c)
        elif beh == "raise-defined":
            if is_yield or uri != "com.myapp.error.defined":
                raise Violation("C10|defined-error-uri-differs", repr(m[:6]), self.c)
        elif beh in ("raise-undefined", "fail-undefined"):
            if is_yield or uri != "wamp.error.runtime_error":
                raise Violation("C10|undefined-error-uri-differs", repr(m[:6]), self.c)
        elif beh == "interrupted":
            if is_yield:
                raise Violation("C10|interrupted-invocation-yielded", repr(m[:4]), self.c)
        elif beh == "shielded-interrupted":
            # the endpoint refused to be cancelled and returned a value: either that value or a cancellation error is a proper single terminal reply
            if is_yield and norm(m[3] if len(m) > 3 else []) != ["recovered"]:
                raise Violation("C10|yield-content-differs|shielded", repr(m[:5]), self.c)
        # progress discipline
        nprog = len(inv["progress"])
        if nprog and not inv["rp"]:
            raise Violation("C10|progress-sent-although-not-requested", "invocation %d: %d progressive YIELDs" % (inv["id"], nprog), self.c)
        want_prog = self.c["procs"][inv["proc"]][2]
        if inv.get("cancelled_at_once") and nprog <= want_prog:
            pass        # interrupted in the same read while the (asynchronous, type-checking) wrapper had not run the endpoint yet: its progress comes after the terminal ERROR and is dropped
        elif inv["beh"] == "progress" and inv["rp"] and nprog != self.c["procs"][inv["proc"]][2]:
            raise Violation("C10|progress-count-differs", "%d vs %d" % (nprog, self.c["procs"][inv["proc"]][2]), self.c)

    def safely(self, fn):
        """complete an endpoint's pending result; if the library already cancelled it (which only the oracle may decide was wrong) go on to the checks"""
        def run():
            try:
                fn()
            except Exception as e:
                if type(e).__name__ not in ("InvalidStateError", "AlreadyCalledError"):
                    raise
        self.tx.d.call(run)

    def do_resolve(self, k, how):
        from autobahn.wamp.exception import ApplicationError
        live = [p for p in self.pending if not p.get("done")]
        if not live:
            return
        p = live[k % len(live)]
        p["done"] = True
        inv = next(i for i in self.invs if i["id"] == p["inv"])
        if inv["state"] != "pending":
            return
        tx = self.txaio
        if how == "ok":
            self.safely(lambda: tx.resolve(p["fut"], "resolved"))
        elif how == "unserializable":
            self.safely(lambda: tx.resolve(p["fut"], {"o": object()}))
        elif how == "fail":
            self.safely(lambda: tx.reject(p["fut"], ApplicationError("com.myapp.error.app", "late")))
        else:
            self.safely(lambda: tx.reject(p["fut"], RuntimeError("late undefined")))
        self.tx.d.settle()
        self.collect()
        inv["state"] = "done"
        self.expect_terminal(inv, how)
        self.late_progress(inv)

    def do_interrupt(self, k, which):
        if which == "unknown":
            target = 999999
            inv = None
        else:
            cands = [i for i in self.invs if i["state"] == ("pending" if which == "pending" else "done")]
            if not cands:
                return
            inv = cands[k % len(cands)]
            target = inv["id"]
        counts = {i["id"]: len(i["terminal"]) for i in self.invs}
        self.tx.send_raw([69, target, {}])
        self.collect()
        for i in self.invs:
            if i is not inv and len(i["terminal"]) != counts[i["id"]]:
                raise Violation("C10|interrupt-affected-other-invocation", "INTERRUPT %d changed invocation %d" % (target, i["id"]), self.c)
        if inv is not None and which == "pending":
            inv["state"] = "done"
            for p in self.pending:
                if p["inv"] == inv["id"]:
                    p["done"] = True
            self.expect_terminal(inv, "shielded-interrupted" if inv["beh"] == "shielded" else "interrupted")
        elif inv is not None and len(inv["terminal"]) != counts[inv["id"]]:
            raise Violation("C10|second-terminal-reply-after-interrupt", "invocation %d already completed, INTERRUPT produced another reply" % inv["id"], self.c)

    def do_event(self):
        pass

    def finish(self):
        # resolve everything still pending, then every invocation must have exactly one terminal reply
        for p in self.pending:
            if not p.get("done"):
                p["done"] = True
                inv = next(i for i in self.invs if i["id"] == p["inv"])
                if inv["state"] == "pending":
                    self.safely(lambda p=p: self.txaio.resolve(p["fut"], "resolved"))
                    self.tx.d.settle()
                    self.collect()
                    inv["state"] = "done"
                    self.expect_terminal(inv, "ok")
        self.collect()
        for inv in self.invs:
            if len(inv["terminal"]) != 1:
                raise Violation("C10|terminal-reply-count-%d|final" % len(inv["terminal"]), "invocation %d (%s)" % (inv["id"], inv["beh"]), self.c)
        self.tx.close()


def check_history(c):
    w = World(c)
    try:
        for st_ in c["steps"]:
            getattr(w, "do_" + st_[0])(*st_[1:])
        w.finish()
    except (Violation, HarnessError):
        raise
    except Exception as e:
        if in_autobahn(e):
            raise Violation("C10|exception|" + exc_key(e), repr(e), c)
        raise
    finally:
        try:
            w.tx.close()
        except Exception:
            pass
    return w


def histories(col, seed, n, kind):
    def body(c):
        w = check_history(c)
        behs = set(i["beh"] for i in w.invs)
        nt = len(w.invs) >= 2 or bool(behs & {"unserializable", "oversized", "raise-unserializable-args", "unserializable-big"}) or any(s[0] == "interrupt" and s[2] == "pending" for s in c["steps"]) or any(s[0] == "invoke" and len(s) > 5 for s in c["steps"])
        col.case(nt, dig=c, cls=["tx:%s" % kind, "ser:" + c["ser"]] + ["beh:" + b for b in sorted(behs)] + (["invocation+interrupt-in-one-read"] if any(s[0] == "invoke" and len(s) > 5 for s in c["steps"]) else []) + (["unregister-while-pending"] if w.unregistered and any(
                     i["beh"] in ("pending", "shielded", "chained") for i in w.invs if i["proc"] in w.unregistered) else []) + (["limit:%s" % (w.limit,)] if w.limit else []) +
                 (["concurrent>=2"] if sum(1 for i in w.invs if i["beh"] in ("pending", "chained")) >= 2 else []),
                 sample={"procs": c["procs"], "steps": c["steps"], "ser": c["ser"], "limit": w.limit})
    run_hypothesis(col, "hist", strategy(kind), body, n, seed)


def encrypted_unencodable(col):
    """enumerated: an invocation that arrived encrypted (cryptobox keyring active) whose endpoint returns / raises / emits a value that the payload
    codec cannot serialize although the transport could carry it: still exactly one terminal reply (what may be in it is C20's business)"""
    from checks.c20_cryptobox import unencodable_one
    from harness.core import in_autobahn
    for ser in ("cbor", "msgpack"):
        for direction in ("yield", "yield-callresult", "error", "progress"):
            for value in ("set", "frozenset", "datetime", "uuid", "nested-set"):
                c = {"check": "encrypted_unencodable", "ser": ser, "direction": direction, "value": value}
                try:
                    unencodable_one(c, prop="C10")
                except Violation as v:
                    if not v.key.startswith("C10|"):
                        continue        # judged by C20
                    raise
                except HarnessError:
                    raise
                except Exception as e:
                    if in_autobahn(e):
                        raise Violation("C10|encrypted|exception|" + exc_key(e), repr(e), c)
                    raise
                col.case(True, enum=True, cls=["encrypted-unencodable/%s/%s" % (direction, value)], sample=c)
    col.exhaustive.append("C10 encrypted_unencodable: 4 endpoint outcomes x 5 values the payload codec cannot serialize x 2 transport serializers")


def replay(col, case):
    case = dec(case)
    c = case.get("case", case)
    if c.get("check") == "encrypted_unencodable":
        from checks.c20_cryptobox import unencodable_one
        unencodable_one(c, prop="C10")
        col.case()
        return
    c.pop("check", None)
    c["procs"] = [tuple(p) for p in c["procs"]]
    c["steps"] = [tuple(s) for s in c["steps"]]
    check_history(c)
    col.case()
