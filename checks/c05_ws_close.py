"""C05 - WebSocket connections close exactly once, in order, and in bounded time."""
import struct

from harness.core import Violation, HarnessError, run_hypothesis, run_machine, dec, exc_key, brief

DESCRIPTION = {
    "level": "exploration",
    "rule": ("Hypothesis RuleBasedStateMachine over one endpoint (role, failByDrop, echoCloseCodeReason, close/drop/open timeouts drawn) against a scripted raw "
             "peer on a virtual clock; rules: opening handshake, local sendClose variants (valid codes/reasons straddling 123 UTF-8 bytes, invalid arguments), "
             "local sendMessage/ping/pong/frame+streaming API/prepared message, peer close (valid/empty/invalid code/non-UTF-8/1-byte), peer data/ping/violation, "
             "clock advance to/before/past the next deadline, peer TCP drop, delivery of our own drop, peer bytes after our drop.  Invariants after every step: "
             "state rank never decreases; <=1 close frame written, no data frame after it, payload = wire-legal code + valid UTF-8 reason <=123 bytes that is a "
             "code-point aligned prefix of the requested reason; onClose <=1 time, only at/after loss delivery, nothing delivered/written afterwards; wasClean => "
             "close frames in both directions and reported (code,reason) are the peer's; sendMessage outside OPEN raises Disconnected; is_closed resolved iff closed; "
             "teardown: once closing, the transport is dropped within closeHandshakeTimeout(+serverConnectionDropTimeout) with a silent peer.  encode_truncate has a "
             "direct PBT.  Local sends include synchronous ones that leave a write queued; in a third of the configurations the loss of a transport the endpoint closed itself is delivered by the event loop on its next turn (as the real frameworks do); the transport state is recorded at the moment onClose runs.  Deadlines run from the moment the wait began (own close frame on the wire / close frames exchanged) and are checked after every event.  Exhaustive job: every sequence of 3 (thorough: 4) events from a 16-step alphabet after the handshake x both roles x failByDrop x scripted/loop-delivered loss x timeouts off/1 s.  Non-trivial = history with >=2 different close-relevant sources; distinct by digest of (config, steps). The application's onConnect() may return a pending Deferred/Future whose result (accept, failure with a short or an over-long text) is an event of the history - it may arrive after closing began, after a timeout or after the transport went away - or raise synchronously with a text beyond 123 octets; enumerated as well (10-event alphabet, all sequences of the tier's depth). Local send 'stream-open' leaves a streaming-API frame open (announced 4 octets, 2 sent): from then on further application sends are not generated and the octet stream as a whole is not judged (a close inside an open frame has no well-formed encoding); each write is judged on its own for being a close frame, so 'clean only if close frames travelled in both directions' is still decided."),
    "assumptions": ["Twisted/asyncio transport contracts emulated in memory; the harness delivers connectionLost exactly once", "reason wording is not compared"],
}

RANK = {1: 1, 4: 1, 3: 2, 2: 3, 0: 4}   # CONNECTING/PROXY_CONNECTING, OPEN, CLOSING, CLOSED
RANK_NAME = {1: "connecting", 2: "open", 3: "closing", 4: "closed"}

LONG_TEXT = "the application refuses this peer: " + "é" * 70 + "€" * 20 + "x" * 90      # as a failure reason: far more than the 123 octets a close frame can carry

REASONS = ["", "x", "é", "ab", "bye", "x" * 122, "x" * 123, "x" * 124, "x" * 200, "x" * 122 + "é", "x" * 121 + "€", "x" * 120 + "😀", "é" * 61 + "ab", "€" * 41, "😀" * 31, "日本語"]


def plan(tier, seed):
    n = 450 if tier == "quick" else 8000
    jobs = []
    for i, fw in enumerate(("twisted", "asyncio")):
        for sh in range(4 if tier == "quick" else 8):
            jobs.append({"func": "machine", "fw": fw, "name": "machine/%s/%d" % (fw, sh), "args": {"seed": seed * 1000 + i * 100 + sh, "n": n}})
    # every event sequence up to a bounded length over a reduced alphabet, on a grid of configurations
    depth = 3 if tier == "quick" else 4
    for fw in ("twisted", "asyncio"):
        for server in (True, False):
            for fbd in (True, False):
                jobs.append({"func": "short_histories", "fw": fw, "name": "short_histories/%s/%s/%s" % (fw, "server" if server else "client", "fbd" if fbd else "closehs"),
                             "args": {"server": server, "fbd": fbd, "depth": depth}})
    jobs.append({"func": "truncate", "name": "encode_truncate", "args": {"seed": seed * 1000 + 900, "n": 1500 if tier == "quick" else 20000}})
    return jobs


class Interp:
    """executes plain-data steps against one endpoint and checks the invariants"""

    def __init__(self, col, config):
        from harness import drv, wsutil
        self.col = col
        self.cfg = config
        self.steps = []
        self.d = drv.get_driver()
        opts = {"failByDrop": config["fbd"], "echoCloseCodeReason": config["echo"], "closeHandshakeTimeout": config["close_to"],
                "openHandshakeTimeout": config["open_to"]}
        self.is_server = config["server"]
        self.at_close = None        # what had been written / called on the transport at the moment onClose ran

        def on_close(p, *a):
            if self.at_close is None and getattr(self, "ep", None) is not None:
                self.at_close = (len(self.ep.t.calls), sum(len(b) for _, b in self.ep.t.written))
        # "aconn": the application's onConnect() returns a pending Deferred / Future (documented as allowed); the history decides when, and
        # how, it completes - possibly after the connection has gone
        self.connect_pending = None
        self.connect_done = False
        self.hs_fed = False

        def on_connect(p, r):
            if config.get("aconn") == "raise":
                # onConnect() fails synchronously, with a text that does not fit into a close frame
                raise RuntimeError(LONG_TEXT)
            if config.get("aconn") and self.connect_pending is None:
                import txaio
                self.connect_pending = txaio.create_future()
                return self.connect_pending
            return None
        if self.is_server:
            self.side = wsutil.server(self.d, opts=opts, hooks={"onClose": on_close, "onConnect": on_connect})
        else:
            opts["serverConnectionDropTimeout"] = config["drop_to"]
            self.side = wsutil.client(self.d, opts=opts, hooks={"onClose": on_close, "onConnect": on_connect})
        self.ep = self.side.connect()
        if config.get("auto_loss"):
            self.ep.enable_auto_loss()
        self.proto = self.side.proto
        self.d.settle()
        self.handshook = False
        self.hs_out = b""
        self.out = b""             # everything written after the handshake
        self.rank = 1
        self.requested_reasons = []
        self.peer_close = None     # first well-formed peer close frame fed before loss
        self.valid_peer_closes = []   # every well-formed peer close frame (code, reason) fed while open/closing and before our drop
        self.invalid_peer_closes = [] # kinds of malformed peer close frames fed in that window
        self.closed_seen = False
        self.log_len_at_close = None
        self.out_len_at_close = None
        self.closing_since = None
        self.t_close_sent = None        # when our close frame was first seen on the wire
        self.t_both_closes = None       # client: when close frames had travelled in both directions (from then on the server has drop_to seconds to drop TCP)
        self.sources = set()
        self.mk = b"\x11\x22\x33\x44" if self.is_server else None
        self._collect()

    # -- helpers
    def key(self, what):
        return "C05|" + what

    def fail(self, what, detail):
        self.col.finding(self.key(what), "%s  [config=%r steps=%r]" % (detail, self.cfg, brief(self.steps[-8:])), {"config": self.cfg, "steps": self.steps})

    def _collect(self):
        data = self.ep.take()
        if not self.handshook:
            self.hs_out += data
        else:
            self.out += data

    def frame(self, opcode, payload=b"", fin=True, rsv=0):
        from harness import ref6455
        return ref6455.encode_frame(opcode, payload, fin=fin, rsv=rsv, mask=self.mk)

    def feed(self, data):
        self.ep.feed(data)
        self.d.settle()

    def guarded(self, fn, what):
        try:
            return fn()
        except (Violation, HarnessError):
            raise
        except Exception as e:
            self.fail("exception|%s|%s" % (what, exc_key(e)), "%s raised %r" % (what, e))

    # -- steps
    def apply(self, step):
        from harness import core as _core
        if _core.STALLED[0] is not None:
            raise _core.STALLED[0]
        with _core.cpu_guard({"config": getattr(self, "cfg", None) or getattr(self, "config", None), "steps": self.steps}, "step"):
            self._apply(step)

    def _apply(self, step):
        self.steps.append(step)
        op = step[0]
        before_out = len(self.out) + len(self.hs_out)
        getattr(self, "do_" + op)(*step[1:])
        if not (op == "local_send" and step[1] == "message-sync-held"):     # "-held": the queued write is still pending when the next step happens
            self.d.settle()
        self._collect()
        self.invariants(step)

    def do_handshake(self):
        from harness import wsutil
        if self.handshook or self.hs_fed or self.ep.loss_delivered or self.rank != 1:
            return
        if self.is_server:
            self.feed(wsutil.raw_request())
        else:
            parsed = wsutil.split_http(self.hs_out + self.ep.take())
            if not parsed:
                return
            key = dict(parsed[1]).get("sec-websocket-key")
            self.feed(wsutil.raw_response(key))
        self.hs_fed = True
        self._take_handshake_output()
        if self.is_server and self.connect_pending is not None and not self.connect_done:
            return      # no response yet: the request is complete, the application has not decided
        self.handshook = True

    def _take_handshake_output(self):
        """what the endpoint wrote while the handshake completed: a server's HTTP response belongs to the handshake, everything after it (and
        everything a client writes once it has the response - e.g. the close frame after a failing onConnect()) is WebSocket traffic"""
        data = self.ep.take()
        if self.is_server:
            k = data.find(b"\r\n\r\n")
            if k < 0 or not data.startswith(b"HTTP/1.1 101"):
                self.hs_out += data
            else:
                self.hs_out += data[:k + 4]
                self.out += data[k + 4:]
        else:
            self.out += data

    def do_finish_connect(self, outcome):
        """the pending onConnect() result arrives: "ok" (accept) or "fail" (the application's future fails)"""
        import txaio
        f = self.connect_pending
        if f is None or self.connect_done:
            return
        self.connect_done = True
        if self.ep.loss_delivered or self.rank >= 3:
            self.sources.add("late-onConnect-result")
        else:
            self.sources.add("onConnect-result")

        def go():
            if outcome == "ok":
                txaio.resolve(f, None)
            else:
                try:
                    raise RuntimeError("application refuses" if outcome == "fail" else LONG_TEXT)
                except RuntimeError:
                    txaio.reject(f)
        try:
            self.d.call(go)
        except (Violation, HarnessError):
            raise
        except Exception as e:
            self.fail("exception|onConnect-result|" + exc_key(e), repr(e))
        self.d.settle()
        if self.is_server and not self.handshook:
            self._take_handshake_output()
            if RANK.get(self.proto.state) == 2 and not self.ep.loss_delivered:
                self.handshook = True

    def do_local_close(self, code, reason):
        state0 = self.proto.state
        wrote0 = len(self.ep.t.written)
        args = []
        if code is not None or reason is not None:
            args.append(code)
        if reason is not None:
            args.append(reason)
        valid = (code is None and reason is None) or (type(code) == int and (code == 1000 or 3000 <= code <= 4999) and (reason is None or type(reason) == str))
        self.sources.add("local-close")
        try:
            self.d.call(self.proto.sendClose, *args)
            raised = None
        except Exception as e:
            raised = e
        if not valid:
            if raised is None:
                self.fail("invalid-sendClose-accepted", "sendClose(%r) did not raise" % (args,))
            if len(self.ep.t.written) != wrote0:
                self.fail("invalid-sendClose-wrote", "sendClose(%r) raised but wrote %d chunks" % (args, len(self.ep.t.written) - wrote0))
        else:
            if raised is not None and RANK[state0] != 1:
                self.fail("valid-sendClose-raised|" + exc_key(raised), "sendClose(%r) in state %s raised %r" % (args, RANK_NAME[RANK[state0]], raised))
            if raised is None and RANK[state0] == 2 and isinstance(reason, str):
                self.requested_reasons.append(reason)

    def do_local_send(self, kind):
        if getattr(self, "open_frame", False):
            return      # the application has a streaming frame open: further sends would be outside the documented call order (not generated)
        state0 = RANK[self.proto.state]
        wrote0 = len(self.ep.t.written)
        p = self.proto
        from autobahn.exception import Disconnected
        try:
            if kind == "message":
                self.d.call(p.sendMessage, b"hello", True)
            elif kind in ("message-sync", "message-sync-held"):
                # two synchronous sends in a row: the second one (at least) waits in the send queue for the next reactor turn
                def go():
                    p.sendMessage(b"first", True, sync=True)
                    p.sendMessage(b"second", True, sync=True)
                self.d.call(go)
            elif kind == "ping":
                self.d.call(p.sendPing, b"pi")
            elif kind == "pong":
                self.d.call(p.sendPong, b"po")
            elif kind == "frames":
                def go():
                    p.beginMessage(True)
                    p.sendMessageFrame(b"ab")
                    p.endMessage()
                self.d.call(go)
            elif kind == "stream":
                def go():
                    p.beginMessage(True)
                    p.beginMessageFrame(2)
                    p.sendMessageFrameData(b"ab")
                    p.endMessage()
                self.d.call(go)
            elif kind == "prepared":
                def go():
                    p.sendPreparedMessage(self.side.factory.prepareMessage(b"prep", True))
                self.d.call(go)
            elif kind == "stream-open":
                # streaming API across event-loop turns: a frame of 4 octets is announced, 2 are sent - the frame stays open while other things happen
                def go():
                    p.beginMessage(True)
                    p.beginMessageFrame(4)
                    p.sendMessageFrameData(b"ab")
                self.d.call(go)
                if state0 == 2 and not getattr(self, "open_frame", False):
                    self.open_frame = True
            raised = None
        except Exception as e:
            raised = e
        if state0 != 2:
            if kind in ("message", "message-sync", "message-sync-held") and not isinstance(raised, Disconnected):
                self.fail("sendMessage-outside-open-did-not-raise-Disconnected", "state %s: raised %r" % (RANK_NAME[state0], raised))
            if raised is not None and kind not in ("message", "message-sync", "message-sync-held") and not isinstance(raised, Disconnected):
                # the non-message APIs are documented to ignore calls when not open; an exception other than Disconnected is a defect
                # (streaming-state exceptions can legitimately arise when the connection closed between begin/end: those are sequences we do not generate)
                self.fail("send-api-raised-outside-open|%s|%s" % (kind, exc_key(raised)), "state %s: %r" % (RANK_NAME[state0], raised))
            if len(self.ep.t.written) != wrote0:
                self.fail("send-api-wrote-outside-open|" + kind, "state %s: %s wrote %d chunk(s) to the transport" % (RANK_NAME[state0], kind, len(self.ep.t.written) - wrote0))
        else:
            if raised is not None:
                self.fail("send-api-raised-while-open|%s|%s" % (kind, exc_key(raised)), repr(raised))

    def do_peer_close(self, kind, code, reason):
        if self.ep.loss_delivered or not self.handshook:
            return
        self.sources.add("peer-close")
        if kind == "valid":
            payload = struct.pack("!H", code) + reason.encode("utf-8")[:123]
            wf = (code, payload[2:].decode("utf-8", "ignore") if len(payload) > 2 else None)
            # a truncated reason could have cut a code point: use only whole prefix
            try:
                payload[2:].decode("utf-8")
            except UnicodeDecodeError:
                payload = struct.pack("!H", code) + b"cut"
                wf = (code, "cut")
        elif kind == "empty":
            payload, wf = b"", (None, None)
        elif kind == "badcode":
            payload, wf = struct.pack("!H", code) + b"x", None
        elif kind == "badutf8":
            payload, wf = struct.pack("!H", 1000) + b"\xff\xfe", None
        else:
            payload, wf = b"\x03", None
        state0 = RANK[self.proto.state]
        already_dropped = self.ep.drop_requested
        self.feed(self.frame(8, payload))
        if state0 in (2, 3) and not already_dropped:
            if wf is not None:
                self.valid_peer_closes.append(wf)
                if self.peer_close is None:
                    self.peer_close = wf
            else:
                self.invalid_peer_closes.append(kind)

    def do_peer_data(self, kind):
        if self.ep.loss_delivered or not self.handshook:
            return
        if kind == "text":
            self.feed(self.frame(1, b"hi"))
        elif kind == "ping":
            self.feed(self.frame(9, b"pp"))
        elif kind == "fragment":
            self.feed(self.frame(1, b"a", fin=False))
        else:
            self.sources.add("violation")
            self.feed(self.frame(1, b"x", rsv=3))

    def do_advance(self, how, amount):
        nxt = self.d.next_deadline()
        now = self.d.now()
        if how == "to" and nxt is not None:
            dt = max(0.0, nxt - now)
        elif how == "before" and nxt is not None:
            dt = max(0.0, nxt - now - 0.01)
        elif how == "past" and nxt is not None:
            dt = max(0.0, nxt - now) + 1.0
        else:
            dt = amount
        if dt > 0 and nxt is not None and now + dt >= nxt:
            self.sources.add("timer")
        try:
            self.d.advance(dt)
        except (Violation, HarnessError):
            raise
        except Exception as e:
            self.fail("exception-in-timer|" + exc_key(e), repr(e))

    def do_peer_drop(self, clean):
        if self.ep.loss_delivered:
            return
        self.sources.add("peer-drop")
        self._deliver("done" if clean else "lost")

    def do_deliver_own_drop(self):
        if self.ep.loss_delivered or not self.ep.drop_requested:
            return
        self.sources.add("own-drop-delivered")
        self._deliver("aborted" if self.ep.drop_requested == "abort" else "done")

    def _deliver(self, kind):
        try:
            self.ep.deliver_loss(kind)
        except (Violation, HarnessError):
            raise
        except Exception as e:
            self.fail("exception-in-connectionLost|" + exc_key(e), repr(e))

    def do_peer_bytes_after_drop(self):
        if self.ep.loss_delivered or not self.ep.drop_requested or not self.handshook:
            return
        self.feed(self.frame(1, b"late") + self.frame(9, b"l8"))

    # -- invariants
    def invariants(self, step):
        from harness import ref6455
        p = self.proto
        if self.ep.escaped:
            e = self.ep.escaped[0]
            self.ep.escaped[:] = []
            self.fail("exception-escaped-dataReceived|" + exc_key(e), repr(e))
        if self.d.loop_errors:
            e = self.d.loop_errors[0]
            self.d.loop_errors[:] = []
            self.fail("loop-exception", repr(e)[:300])
        if not hasattr(p, "state"):
            raise HarnessError("protocol has no 'state' attribute")
        r = RANK.get(p.state)
        if r is None:
            raise HarnessError("unknown protocol state %r" % (p.state,))
        if r < self.rank:
            self.fail("state-went-backwards", "%s -> %s" % (RANK_NAME[self.rank], RANK_NAME[r]))
        if r >= 3 and self.closing_since is None:
            self.closing_since = self.d.now()
        self.rank = max(self.rank, r)
        # written frames
        frames, rest = ref6455.parse_frames(self.out)
        if getattr(self, "open_frame", False):
            # a streaming-API frame was left open: whatever is written next lands inside that frame, so the octet stream as a whole cannot be
            # judged any more (a close while a frame is open has no well-formed encoding - don't-care).  What still counts is whether the endpoint
            # wrote a close frame at all: each write is looked at on its own
            frames, rest = [], b""
            for _t, chunk in self.ep.t.written:
                fr, rs = ref6455.parse_frames(chunk)
                if len(fr) == 1 and not rs and fr[0].opcode == 8:
                    frames.append(fr[0])
        closes = [i for i, f in enumerate(frames) if f.opcode == 8]
        if len(closes) > 1:
            self.fail("more-than-one-close-frame", "%d close frames written" % len(closes))
        now = self.d.now()
        if closes and self.t_close_sent is None:
            self.t_close_sent = now
        if not self.is_server and closes and self.valid_peer_closes and not self.invalid_peer_closes and self.t_both_closes is None:
            self.t_both_closes = now
        if (self.t_both_closes is not None and self.cfg["drop_to"] > 0 and self.rank == 3 and not self.ep.drop_requested and not self.ep.loss_delivered
                and now > self.t_both_closes + self.cfg["drop_to"] + 1e-6):
            # whatever the server keeps sending, the deadline for it to drop TCP runs from the completion of the closing handshake
            self.fail("closing-not-bounded|server-drop-deadline-passed", "closing handshake complete at t=%.2f, serverConnectionDropTimeout %s s, now t=%.2f: transport not dropped" % (
                self.t_both_closes, self.cfg["drop_to"], now))
        if closes:
            after = frames[closes[0] + 1:]
            if any(f.opcode in (0, 1, 2) for f in after) or rest:
                self.fail("data-frame-after-close-frame", "frames after close: %r rest=%r" % ([f.brief() for f in after], rest[:12]))
            pl = frames[closes[0]].payload
            if len(pl) == 1:
                self.fail("close-payload-1-byte", pl.hex())
            if len(pl) >= 2:
                code = struct.unpack("!H", pl[:2])[0]
                if not ref6455.close_code_wire_legal(code):
                    self.fail("close-code-illegal-on-wire|%d" % code, "close frame carries status %d" % code)
                reason = pl[2:]
                if len(reason) > 123:
                    self.fail("close-reason-too-long", "%d bytes" % len(reason))
                try:
                    rs = reason.decode("utf-8")
                except UnicodeDecodeError:
                    self.fail("close-reason-not-utf8", reason.hex())
                    rs = None
                if rs is not None and self.requested_reasons and code != 1002 and code != 1007 and not self.peer_close_reply(frames[closes[0]]):
                    req = self.requested_reasons[0]
                    if not req.startswith(rs) or (len(req.encode("utf-8")) <= 123 and rs != req):
                        self.fail("close-reason-not-prefix-of-requested", "requested %r sent %r" % (req, rs))
        if self.is_server and self.valid_peer_closes and self.rank >= 3 and not self.ep.drop_requested and not self.ep.loss_delivered and not self.invalid_peer_closes:
            self.fail("server-did-not-drop-after-closing-handshake", "peer close frame received, state %s, transport not dropped" % RANK_NAME[self.rank])
        # onClose
        close_events = [i for i, e in enumerate(self.side.log) if e[0] == "close"]
        if len(close_events) > 1:
            self.fail("onClose-fired-twice", repr([self.side.log[i] for i in close_events]))
        if close_events and not self.ep.loss_delivered:
            self.fail("onClose-before-transport-gone", "onClose fired while the transport loss was not yet delivered")
        if close_events and not self.closed_seen:
            self.closed_seen = True
            self.log_len_at_close = len(self.side.log)
            self.out_len_at_close = len(self.out) + len(self.hs_out)
            self.calls_at_close = len(self.ep.t.calls)
            ev = self.side.log[close_events[0]]
            was_clean, code, reason = ev[1], ev[2], ev[3]
            if was_clean:
                def same(a, b):
                    return a[0] == b[0] and (a[1] or None) == (b[1] or None)
                if not closes and self.valid_peer_closes:
                    # (without a valid peer close frame the report is wrong whatever we sent: judged below, by root cause)
                    self.fail("clean-close-without-sending-close-frame", repr(ev))
                if not self.valid_peer_closes:
                    if self.invalid_peer_closes:
                        self.fail("clean-close-after-only-malformed-peer-close|" + self.invalid_peer_closes[0], "reported %r; peer close frames fed: %r" % (ev, self.invalid_peer_closes))
                    else:
                        self.fail("clean-close-without-peer-close-frame", repr(ev))
                elif not any(same((code, reason), pc) for pc in self.valid_peer_closes):
                    self.fail("clean-close-reports-wrong-code-or-reason", "reported %r, peer sent %r" % ((code, reason), self.valid_peer_closes))
            else:
                if code != 1006:
                    self.fail("unclean-close-code-not-1006", repr(ev))
        elif self.closed_seen:
            if len(self.side.log) != self.log_len_at_close:
                self.fail("callback-after-onClose", repr(self.side.log[self.log_len_at_close:]))
            if len(self.out) + len(self.hs_out) != self.out_len_at_close:
                self.fail("write-after-onClose", "wrote %d bytes after onClose" % (len(self.out) + len(self.hs_out) - self.out_len_at_close))
            if len(self.ep.t.calls) != self.calls_at_close:
                self.fail("transport-call-after-onClose", repr(self.ep.t.calls[self.calls_at_close:]))
        if self.at_close is not None:
            n_calls, n_written = self.at_close
            late = [c for c in self.ep.t.calls[n_calls:] if c[0] in ("write", "writeSequence", "writelines")]
            if late:
                self.fail("write-after-onClose", "transport write calls after onClose had run: %r" % (late,))
            if sum(len(b) for _, b in self.ep.t.written) != n_written:
                self.fail("write-after-onClose", "wrote %d bytes after onClose had run" % (sum(len(b) for _, b in self.ep.t.written) - n_written))
        if self.ep.loss_delivered and not close_events:
            self.fail("onClose-missing-after-transport-loss", "transport loss delivered but onClose not fired")
        if self.ep.loss_delivered and self.rank != 4:
            self.fail("not-closed-after-transport-loss", RANK_NAME[self.rank])
        # is_closed future
        done = self._future_done(p.is_closed)
        if done != (self.rank == 4):
            self.fail("is_closed-future-inconsistent", "state %s but is_closed done=%r" % (RANK_NAME[self.rank], done))

    def peer_close_reply(self, frame):
        """was our close frame a reply to the peer's close (then its reason is not the locally requested one)?"""
        return self.peer_close is not None and not getattr(self.proto, "closedByMe", False)

    @staticmethod
    def _future_done(f):
        if hasattr(f, "called"):
            return bool(f.called)
        return f.done()

    def teardown(self):
        """bounded time: a silent peer never keeps a closing connection alive beyond the configured timeouts"""
        cfg = self.cfg
        if self.rank == 3 and not self.ep.loss_delivered and not self.ep.drop_requested:
            closed_by_me = getattr(self.proto, "closedByMe", None)
            any_peer_close = bool(self.valid_peer_closes or self.invalid_peer_closes)
            bound = None
            if closed_by_me and not any_peer_close and cfg["close_to"] > 0:
                bound = cfg["close_to"]          # waiting for the peer's close frame
            elif self.valid_peer_closes and not self.is_server and cfg["drop_to"] > 0:
                bound = cfg["drop_to"]           # client (initiator or replier) waiting for the server to drop TCP
            if bound is not None:
                t0 = self.d.now()
                # the deadline runs from the moment the wait began (our close frame out / both close frames exchanged), not from now
                ref = self.t_both_closes if (bound == cfg["drop_to"] and self.valid_peer_closes and not self.is_server and self.t_both_closes is not None) else (
                    self.t_close_sent if (closed_by_me and not any_peer_close and self.t_close_sent is not None) else t0)
                wait = max(0.0, ref + bound - t0)
                self.steps.append(("teardown-advance", wait))
                try:
                    self.d.advance(wait + 0.001)
                except Exception as e:
                    self.fail("exception-in-timer|" + exc_key(e), repr(e))
                self._collect()
                if not self.ep.drop_requested:
                    self.fail("closing-not-bounded", "closing, peer silent since t=%.2f, applicable timeout %s s, now t=%.2f: transport not dropped" % (t0, bound, self.d.now()))
                self.invariants(("teardown",))
        # after everything: run the clock far ahead, nothing may happen after onClose
        if self.closed_seen:
            try:
                self.d.advance(100.0)
            except Exception as e:
                self.fail("exception-in-timer-after-close|" + exc_key(e), repr(e))
            self._collect()
            self.invariants(("teardown-late",))
        self.d.close()


def config_strategy():
    from hypothesis import strategies as st
    return st.fixed_dictionaries({"server": st.booleans(), "fbd": st.booleans(), "echo": st.booleans(), "close_to": st.sampled_from([0, 0.5, 1, 3]),
                                  "drop_to": st.sampled_from([0, 1, 2]), "open_to": st.sampled_from([0, 2, 5]),
                                  # True: the loss of a transport the endpoint itself closed / aborted is delivered by the event loop on its next turn, as the
                                  # real frameworks do (ahead of pending timers and queued writes); False: the history decides when (or whether) it is delivered
                                  "auto_loss": st.sampled_from([False, False, True]),
                                  # True: onConnect() returns a pending Deferred / Future; a rule completes it (or never does)
                                  "aconn": st.sampled_from([False, False, False, True, True, "raise"])})


def make_machine_factory(col):
    from hypothesis import strategies as st
    from hypothesis.stateful import RuleBasedStateMachine, rule, initialize, precondition

    def make(holder):
        class CloseMachine(RuleBasedStateMachine):
            def __init__(self):
                super().__init__()
                self.i = None

            @initialize(cfg=config_strategy(), hs=st.integers(0, 9))
            def start(self, cfg, hs):
                self.i = Interp(col, cfg)
                holder["config"] = cfg
                holder["steps"] = self.i.steps
                if hs > 0:
                    self.i.apply(("handshake",))

            def ap(self, *step):
                holder["steps"] = self.i.steps
                self.i.apply(step)

            @rule()
            def handshake(self):
                self.ap("handshake")

            @rule(code=st.one_of(st.none(), st.sampled_from([1000, 3000, 4999, 3500]), st.sampled_from([999, 1001, 1002, 1005, 1006, 2999, 5000, 0, -1, "1000", 1000.0])),
                  reason=st.one_of(st.none(), st.sampled_from(REASONS), st.just(b"bytes")))
            def local_close(self, code, reason):
                self.ap("local_close", code, reason)

            @rule(kind=st.sampled_from(["message", "ping", "pong", "frames", "stream", "prepared", "message-sync", "message-sync-held", "message-sync-held", "stream-open"]))
            def local_send(self, kind):
                self.ap("local_send", kind)

            @rule(kind=st.sampled_from(["valid", "valid", "empty", "badcode", "badutf8", "onebyte"]),
                  code=st.sampled_from([1000, 1001, 1011, 3000, 4999, 1004, 1005, 1006, 999, 5000, 1015, 2999, 1016, 2000, 1100, 0, 65535]), reason=st.sampled_from(REASONS))
            def peer_close(self, kind, code, reason):
                if kind == "valid" and code not in (1000, 1001, 1011, 3000, 4999):
                    code = 1000
                if kind == "badcode" and code in (1000, 1001, 1011, 3000, 4999):
                    code = 1005
                self.ap("peer_close", kind, code, reason)

            @rule(kind=st.sampled_from(["text", "ping", "fragment", "violation"]))
            def peer_data(self, kind):
                self.ap("peer_data", kind)

            @rule(how=st.sampled_from(["to", "before", "past", "amount"]), amount=st.sampled_from([0.0, 0.3, 1.0, 2.5, 10.0]))
            def advance(self, how, amount):
                self.ap("advance", how, amount)

            @rule(clean=st.booleans(), p=st.integers(0, 3))
            def peer_drop(self, clean, p):
                if p == 0:
                    self.ap("peer_drop", clean)

            @rule(how=st.sampled_from(["to", "before", "past"]))
            def advance_deadline(self, how):
                self.ap("advance", how, 0.0)

            @rule()
            def deliver_own_drop(self):
                self.ap("deliver_own_drop")

            @rule(outcome=st.sampled_from(["ok", "ok", "fail", "fail-long"]))
            def finish_connect(self, outcome):
                self.ap("finish_connect", outcome)

            @rule()
            def peer_bytes_after_drop(self):
                self.ap("peer_bytes_after_drop")

            def teardown(self):
                if self.i is not None:
                    i = self.i
                    self.i = None
                    try:
                        i.teardown()
                    finally:
                        nt = len(i.sources) >= 2
                        col.case(nt, dig=[i.cfg, i.steps], cls=["sources:%d" % min(len(i.sources), 4)] + ["src:" + s for s in sorted(i.sources)] +
                                 ["end:" + RANK_NAME[i.rank], "role:" + ("server" if i.is_server else "client")],
                                 sample={"config": i.cfg, "steps": i.steps[:14]})
        return CloseMachine
    return make


def machine(col, seed, n):
    run_machine(col, "machine", make_machine_factory(col), n, seed, step_count=14)


ALPHABET = [("local_close", 1000, None), ("local_close", 3000, "bye"), ("local_send", "message"), ("local_send", "message-sync-held"), ("local_send", "ping"),
            ("peer_close", "valid", 1000, ""), ("peer_close", "valid", 3001, "x"), ("peer_close", "badcode", 1005, ""), ("peer_data", "text"), ("peer_data", "violation"),
            ("advance", "to", 0.0), ("advance", "amount", 0.6), ("peer_drop", False), ("peer_drop", True), ("deliver_own_drop",), ("peer_bytes_after_drop",)]


ALPHABET_AC = [("finish_connect", "ok"), ("finish_connect", "fail-long"), ("local_close", 1000, None), ("local_send", "message"), ("peer_close", "valid", 1000, ""),
               ("peer_data", "text"), ("advance", "to", 0.0), ("advance", "amount", 0.6), ("peer_drop", False), ("deliver_own_drop",)]


def short_histories(col, server, fbd, depth):
    """exhaustive: handshake, then every sequence of `depth` events from ALPHABET, for (auto-loss on/off) x (timeouts off / 1 s); the invariants
    run after every event and at teardown (which also runs the clock past every applicable deadline)"""
    import itertools
    from harness.core import guarded_blocks
    n_hist = 0
    grid = [(al, to) for al in (False, True) for to in (0, 1)]
    for al, to in grid:
        cfg = {"server": server, "fbd": fbd, "echo": False, "close_to": to, "drop_to": to, "open_to": 0, "auto_loss": al}
        for seq in guarded_blocks(itertools.product(ALPHABET, repeat=depth), every=512):
            i = Interp(col, cfg)
            try:
                i.apply(("handshake",))
                for st_ in seq:
                    i.apply(st_)
            finally:
                i.teardown()
            n_hist += 1
            col.case(len(i.sources) >= 2, enum=True, cls=["short_histories/%s/%s" % ("server" if server else "client", "auto-loss" if al else "scripted-loss")],
                     sample={"config": cfg, "steps": [list(x) for x in seq]} if n_hist % 997 == 1 else None)
    col.exhaustive.append("C05 short_histories %s fbd=%s: %d^%d event sequences x 4 configurations = %d histories" % ("server" if server else "client", fbd, len(ALPHABET), depth, n_hist))
    # the same with an application whose onConnect() result is pending: the result (accept / failure) is one of the events, so it may arrive before or
    # after closing began, a timeout fired or the transport went away
    n_ac = 0
    for al, to in grid:
        cfg = {"server": server, "fbd": fbd, "echo": False, "close_to": to, "drop_to": to, "open_to": 2 * to, "auto_loss": al, "aconn": True}
        for seq in guarded_blocks(itertools.product(ALPHABET_AC, repeat=depth), every=512):
            i = Interp(col, cfg)
            try:
                i.apply(("handshake",))
                for st_ in seq:
                    i.apply(st_)
            finally:
                i.teardown()
            n_ac += 1
            col.case(len(i.sources) >= 2, enum=True, cls=["short_histories_async_onConnect/%s/%s" % ("server" if server else "client", "auto-loss" if al else "scripted-loss")],
                     sample={"config": cfg, "steps": [list(x) for x in seq]} if n_ac % 499 == 1 else None)
    # onConnect() raising synchronously with a long text (the failure reason has to be cut to fit a close frame)
    for al, to in grid:
        cfg = {"server": server, "fbd": fbd, "echo": False, "close_to": to, "drop_to": to, "open_to": 0, "auto_loss": al, "aconn": "raise"}
        for seq in itertools.product(ALPHABET_AC[2:], repeat=2):
            i = Interp(col, cfg)
            try:
                i.apply(("handshake",))
                for st_ in seq:
                    i.apply(st_)
            finally:
                i.teardown()
            n_ac += 1
            col.case(True, enum=True, cls=["short_histories_raising_onConnect/%s" % ("server" if server else "client")])
    col.exhaustive.append("C05 short_histories with pending onConnect() %s fbd=%s: %d^%d event sequences x 4 configurations = %d histories" % (
        "server" if server else "client", fbd, len(ALPHABET_AC), depth, n_ac))


def truncate(col, seed, n):
    from hypothesis import strategies as st
    from autobahn.util import encode_truncate
    strat = st.tuples(st.one_of(st.text(max_size=140), st.sampled_from(REASONS), st.text(st.sampled_from("aé€😀"), max_size=140)), st.integers(0, 130))

    def body(t):
        s, limit = t
        case = {"check": "truncate", "s": s, "limit": limit}
        try:
            out = encode_truncate(s, limit)
        except Exception as e:
            raise Violation("C05|encode_truncate|raises|" + exc_key(e), repr(e), case)
        full = s.encode("utf-8")
        if not isinstance(out, bytes) or len(out) > limit:
            raise Violation("C05|encode_truncate|too-long", "%r -> %d bytes (limit %d)" % (s[:20], len(out), limit), case)
        try:
            dec_ = out.decode("utf-8")
        except UnicodeDecodeError:
            raise Violation("C05|encode_truncate|not-utf8", out.hex(), case)
        if not full.startswith(out):
            raise Violation("C05|encode_truncate|not-a-prefix", "%r vs %r" % (out[:20], full[:20]), case)
        if len(full) <= limit and out != full:
            raise Violation("C05|encode_truncate|truncated-although-it-fits", "", case)
        if len(full) > limit and len(out) < limit - 3:
            raise Violation("C05|encode_truncate|truncated-too-much", "%d bytes kept of limit %d" % (len(out), limit), case)
        col.case(len(full) > limit and any(ord(c) > 127 for c in s), dig=[s, limit], cls="encode_truncate/" + ("cut" if len(full) > limit else "fits"), sample=case)
    run_hypothesis(col, "truncate", strat, body, n, seed)


def replay(col, case):
    case = dec(case)
    c = case.get("case", case)
    if c.get("check") == "truncate":
        return
    cfg, steps = c["config"], c["steps"]
    i = Interp(col, cfg)
    for st_ in steps:
        st_ = list(st_)
        if st_[0].startswith("teardown"):
            continue
        i.apply(tuple(st_))
    i.teardown()
    col.case()
