"""C03 - WAMP messages survive every serializer unchanged."""
from harness.core import Violation, HarnessError, run_hypothesis, dec, exc_key, brief

DESCRIPTION = {
    "level": "exploration",
    "rule": ("For each of the 25 message classes Hypothesis draws the subset of optional fields present and their values from per-field "
             "strategies written from the constructor contracts (ids 0/1/2^53, loose+strict URIs, forward_for chains, option enums, payload "
             "transparency triples, recursive args/kwargs with bytes/nesting/|int|<=2^53/unicode/doubles), a serializer from {json,msgpack,cbor,ubjson} x "
             "{batched,unbatched}, and batches of 1-6 mixed messages; plus a serialization-cache history (A,B,A,mutate+uncache,A). Oracle: "
             "unserialize(serialize(batch)) has the same length/order/classes, marshal(result)==marshal(original) (deep, type-strict), every public "
             "attribute equal after the stated normalisation, is_binary flag == serializer.BINARY and JSON output decodes as UTF-8, cached bytes == "
             "fresh bytes; every received message object, re-serialized alone through the same serializer instance (forwarding), comes back as exactly that message.  Non-trivial = >=2 optional fields present, or payload with bytes/nesting/|int|>=2^32, or batch>=2; distinct by "
             "(class, present fields, serializer, batched, payload digest). A fifth serializer configuration is the JSON serializer with its other documented binary convention (use_binary_hex_encoding: '0x' + hex), batched and unbatched."),
    "assumptions": [
        "absent == falsy default (None/False/''/[]/{}) and tuple == list are treated as equal field values (the wire format omits defaults)",
        "payload floats are finite IEEE doubles of magnitude 0 or >= 2.3e-308 and must come back as the same float (smaller ones come back from the bjdata encoder as an equal Decimal, NaN/inf have no JSON form: not generated); Decimals and FlatBuffers are outside the statement; JSON strings starting with NUL are the documented binary convention and not generated",
        "UBJSON is backed by the installed bjdata package",
    ],
}

SERIALIZERS = ["json", "msgpack", "cbor", "ubjson"]


def plan(tier, seed):
    n = 800 if tier == "quick" else 5000
    jobs = []
    for i, ser in enumerate(SERIALIZERS):
        for batched in (False, True):
            jobs.append({"func": "roundtrip", "name": "rt/%s%s" % (ser, ".batched" if batched else ""),
                         "args": {"seed": seed * 1000 + i * 2 + int(batched), "n": n, "ser": ser, "batched": batched}})
    for batched in (False, True):
        jobs.append({"func": "roundtrip", "name": "rt/json-hex%s" % (".batched" if batched else ""),
                     "args": {"seed": seed * 1000 + 20 + int(batched), "n": n // 2, "ser": "json-hex", "batched": batched}})
    jobs.append({"func": "cache_history", "name": "cache", "args": {"seed": seed * 1000 + 77, "n": 150 if tier == "quick" else 1500}})
    if tier != "quick":
        for k in range(8):
            jobs.append({"func": "roundtrip", "name": "rt-extra/%d" % k,
                         "args": {"seed": seed * 1000 + 200 + k, "n": n, "ser": SERIALIZERS[k % 4], "batched": k >= 4}})
    return jobs


def make_serializer(name, batched):
    from autobahn.wamp import serializer as s
    if name == "json-hex":
        # the JSON serializer's other documented binary convention: "0x" + hex instead of NUL + base64
        return s.JsonSerializer(batched=batched, use_binary_hex_encoding=True)
    cls = {"json": "JsonSerializer", "msgpack": "MsgPackSerializer", "cbor": "CBORSerializer", "ubjson": "UBJSONSerializer"}[name]
    if not hasattr(s, cls):
        raise HarnessError("serializer %s not available" % cls)
    return getattr(s, cls)(batched=batched)


def has_0x_string(v):
    """a text starting with '0x' *is* the binary convention of the hex-mode JSON serializer (as NUL is of the default mode): not generated there"""
    if isinstance(v, str):
        return v.startswith("0x")
    if isinstance(v, (list, tuple)):
        return any(has_0x_string(x) for x in v)
    if isinstance(v, dict):
        return any(has_0x_string(k) or has_0x_string(x) for k, x in v.items())
    return False


def rich(v, depth=0):
    if isinstance(v, bytes):
        return True
    if isinstance(v, int) and not isinstance(v, bool) and abs(v) >= 2 ** 32:
        return True
    if isinstance(v, (list, tuple)):
        return depth >= 1 or any(rich(x, depth + 1) for x in v)
    if isinstance(v, dict):
        return depth >= 1 or any(rich(x, depth + 1) for x in v.values())
    return False


def check_batch(ser, batch, case):
    from harness import wampwire as W
    msgs = [W.build(n, kw) for n, kw in batch]
    marshalled = [m.marshal() for m in msgs]
    data = b""
    for m in msgs:
        try:
            b, is_binary = ser.serialize(m)
        except Exception as e:
            raise Violation("C03|serialize-raises|%s|%s" % (type(m).__name__, exc_key(e)), "%r on %r" % (e, brief(m.marshal())), case)
        if is_binary != ser._serializer.BINARY:
            raise Violation("C03|is_binary-flag", "serialize returned is_binary=%r, serializer.BINARY=%r" % (is_binary, ser._serializer.BINARY), case)
        if not isinstance(b, bytes):
            raise Violation("C03|serialize-type", "serialize returned %r" % type(b), case)
        if not is_binary:
            try:
                b.decode("utf-8")
            except UnicodeDecodeError:
                raise Violation("C03|text-serializer-produced-non-utf8", repr(b[:60]), case)
        data += b
    if not ser._serializer._batched and len(msgs) != 1:
        raise HarnessError("unbatched serializer with batch")
    try:
        back = ser.unserialize(data, ser._serializer.BINARY)
    except Exception as e:
        raise Violation("C03|unserialize-raises|%s|%s" % ("+".join(sorted(set(n for n, _ in batch))), exc_key(e)),
                        "%r; marshalled=%r" % (e, brief(marshalled)), case)
    if len(back) != len(msgs):
        raise Violation("C03|batch-length", "sent %d messages, got %d back" % (len(msgs), len(back)), case)
    for orig, got, mar in zip(msgs, back, marshalled):
        if type(got) is not type(orig):
            raise Violation("C03|class-changed|%s" % type(orig).__name__, "got %s" % type(got).__name__, case)
        cname = type(orig).__name__
        diffs = W.attrs_equal(orig, got)
        if diffs:
            raise Violation("C03|field-changed|%s|%s" % (cname, diffs[0][0]), "fields differ after round trip: %r (marshalled %r)" % (brief(diffs[:3]), brief(mar)), case)
        m2 = got.marshal()
        if not W.deep_eq(W.norm(mar), W.norm(m2)):
            # absent==empty for trailing args/kwargs
            if not W.deep_eq(strip_trailing(W.norm(mar)), strip_trailing(W.norm(m2))):
                raise Violation("C03|marshal-differs|%s" % cname, "orig %r / after %r" % (brief(mar), brief(m2)), case)
    # forwarding: each *received* message object goes through the same serializer instance once more, alone (what a router/proxy does): it must
    # come back as exactly that one message
    for orig, got in zip(msgs, back):
        try:
            b2, _ = ser.serialize(got)
            again = ser.unserialize(b2, ser._serializer.BINARY)
        except Exception as e:
            raise Violation("C03|forward|raises|%s|%s" % (type(orig).__name__, exc_key(e)), repr(e), case)
        if len(again) != 1 or type(again[0]) is not type(orig):
            raise Violation("C03|forward|batch-length-or-class", "a received %s re-serialized alone came back as %r" % (type(orig).__name__, [type(x).__name__ for x in again]), case)
        diffs = W.attrs_equal(orig, again[0])
        if diffs:
            raise Violation("C03|forward|field-changed|%s|%s" % (type(orig).__name__, diffs[0][0]), "fields differ after the second trip: %r" % (brief(diffs[:3]),), case)


def strip_trailing(l):
    l = list(l)
    while l and l[-1] in ([], {}, None) and len(l) > 3:
        l.pop()
    return l


def roundtrip(col, seed, n, ser, batched):
    from hypothesis import strategies as st
    from harness import wampwire as W
    S = W.message_strategies()
    names = sorted(S)
    if len(names) != 25:
        raise HarnessError("expected 25 message classes, table has %d" % len(names))
    serializer = make_serializer(ser, batched)
    one = st.sampled_from(names).flatmap(lambda nm: S[nm])
    strat = st.lists(one, min_size=1, max_size=6 if batched else 1)
    seen_cls = set()

    def body(batch):
        case = {"check": "rt", "ser": ser, "batched": batched, "batch": batch}
        if ser == "json-hex" and any(has_0x_string(kw) for _, kw in batch):
            col.count("json-hex/skipped-0x-text")
            return
        check_batch(serializer, batch, case)
        for nm, kw in batch:
            seen_cls.add(nm)
        nm, kw = batch[0]
        nopt = sum(1 for m_, k_ in batch for _ in k_) - len(batch)
        nt = len(batch) >= 2 or any(len(kw_) >= 4 for _, kw_ in batch) or any(rich(kw_.get("args")) or rich(kw_.get("kwargs")) for _, kw_ in batch)
        col.case(nt, dig=[ser, batched, [(a, sorted(b), W.norm(b.get("args")), W.norm(b.get("kwargs"))) for a, b in batch]],
                 cls=["class:" + a for a, _ in batch] + ["ser:%s%s" % (ser, ".batched" if batched else "")] + (["batch>=2"] if len(batch) >= 2 else []) +
                 (["payload-transparency"] if any("payload" in b for _, b in batch) else []) +
                 (["rich-app-payload"] if any(rich(b.get("args")) or rich(b.get("kwargs")) for _, b in batch) else []),
                 sample=[(a, b) for a, b in batch][:2])
    run_hypothesis(col, "rt", strat, body, n, seed)
    # every class must have been produced at least once in a 200+ case run
    missing = set(names) - seen_cls
    if n >= 200 and missing:
        col.notes.append("classes not drawn in %s%s run: %s" % (ser, ".batched" if batched else "", sorted(missing)))


def cache_history(col, seed, n):
    from hypothesis import strategies as st
    from harness import wampwire as W
    S = W.message_strategies()
    names = sorted(S)
    one = st.sampled_from(names).flatmap(lambda nm: S[nm])
    strat = st.tuples(one, st.lists(st.tuples(st.sampled_from(SERIALIZERS), st.booleans()), min_size=2, max_size=5), st.integers(1, 1000))
    sers = {(s, b): make_serializer(s, b) for s in SERIALIZERS for b in (False, True)}

    def body(t):
        (nm, kw), order, newid = t
        case = {"check": "cache", "msg": (nm, kw), "order": order, "newid": newid}
        msg = W.build(nm, kw)
        first = {}
        for key in order + order:
            ser = sers[tuple(key)]
            b, _ = ser.serialize(msg)
            fresh, _ = ser.serialize(W.build(nm, kw))
            if b != fresh:
                raise Violation("C03|cache|stale-or-cross-serializer-bytes", "%s: cached %r fresh %r" % (key, b[:40], fresh[:40]), case)
            if tuple(key) in first and first[tuple(key)] != b:
                raise Violation("C03|cache|unstable", repr(key), case)
            first[tuple(key)] = b
        # mutate an id field + uncache
        field = next((f for f in ("request", "session", "publication", "subscription") if f in kw and kw[f] != newid), None)
        if field:
            try:
                setattr(msg, field, newid)
            except AttributeError:      # read-only field on this class: nothing to mutate
                field = None
        if field:
            msg.uncache()
            kw2 = dict(kw)
            kw2[field] = newid
            if nm in ("Unsubscribed", "Unregistered") and field == "request":
                return
            for key in order:
                ser = sers[tuple(key)]
                b, _ = ser.serialize(msg)
                fresh, _ = ser.serialize(W.build(nm, kw2))
                if b != fresh:
                    raise Violation("C03|cache|stale-after-uncache", "%s field %s" % (key, field), case)
        col.case(len(set(map(tuple, order))) >= 2, dig=[nm, sorted(kw), order, newid], cls="cache-history", sample={"msg": nm, "order": order})
    run_hypothesis(col, "cache", strat, body, n, seed)


def replay(col, case):
    case = dec(case)
    c = case.get("case", case)
    if c["check"] == "rt":
        batch = [(a, b) for a, b in c["batch"]]
        check_batch(make_serializer(c["ser"], c["batched"]), fix_roles(batch), c)
    col.case()


def fix_roles(batch):
    # role feature objects do not survive JSON; replays store them as {"$r": repr}: rebuild default roles
    from autobahn.wamp import role
    out = []
    for nm, kw in batch:
        kw = dict(kw)
        if "roles" in kw and not all(hasattr(v, "ROLE") for v in kw["roles"].values()):
            kw["roles"] = {k: role.ROLE_NAME_TO_CLASS[k]() for k in kw["roles"]}
        out.append((nm, kw))
    return out
