"""C17 - silent peers are dropped on time, responsive peers never."""
import struct

from harness.core import Violation, HarnessError, run_hypothesis, dec, exc_key, brief

DESCRIPTION = {
    "level": "exploration",
    "rule": ("Hypothesis draws a role, a timer configuration from the grid {0 (off), 0.5, 1, 2, 5}s for open/close/server-drop/auto-ping interval/auto-ping timeout, "
             "autoPingRestartOnAnyTraffic, a fractional start offset of the virtual clock (the batched timers quantise to whole seconds) and, per timer, the placement "
             "of the peer's reaction on a discretised time line: never, deadline-1-d, deadline-d, deadline, deadline+d.  Scenarios: opening handshake, closing handshake "
             "initiated locally, TCP drop after a closing handshake (client, initiator and replier), auto-ping rounds answered by pong or by data (and by data only although the connection is configured so that only pongs count: dropped), auto-ping during a closing "
             "handshake, a ping outstanding when the application starts closing (answered in time by pong or data, close reply after the ping deadline), and running the clock far past onClose.  Oracle: silent peer => transport dropped at a virtual time <= arm time + timeout and onClose(False,1006,reason) "
             "whose text names the expired timer; peer with >=1s to spare => never dropped by that timer, connection open / closed cleanly; while pongs arrive at r with >=1s to "
             "spare the next ping is written within (r+interval-1, r+interval]; after onClose nothing happens.  Clients also connect through an explicit HTTP proxy (proxy silent / proxy answers and server silent / both answer): the opening-handshake deadline covers the CONNECT exchange.  A ping may be answered by a data frame followed by its pong.  Ping outstanding when the application starts closing: responsive peer is kept, silent peer is dropped by the ping deadline.  Silent-peer scenarios also run with a peer that has stopped reading: only an abort ends the connection there.  Non-trivial = a reaction within 1s of a deadline or two timers "
             "pending at once; distinct by (scenario, config, placements). In the opening scenario the peer's request / response may trickle in (1, 18, all-but-2, all-but-1 octets early, the rest at the drawn time or never): only the complete handshake stops the deadline."),
    "assumptions": ["timer granularity of one second: reactions placed in the last second before a deadline may or may not be in time (not asserted)",
                    "reason text matched by keyword only"],
}

GRID = [0, 0.5, 1, 2, 5]
EPS = 0.05


def plan(tier, seed):
    n = 700 if tier == "quick" else 15000
    jobs = []
    for i, fw in enumerate(("twisted", "asyncio")):
        for sh in range(3 if tier == "quick" else 8):
            jobs.append({"func": "schedules", "fw": fw, "name": "sched/%s/%d" % (fw, sh), "args": {"seed": seed * 1000 + i * 100 + sh, "n": n}})
    return jobs


class World:
    def __init__(self, c):
        from harness import drv, wsutil
        self.c = c
        self.d = drv.get_driver()
        self.d.advance(c["offset"])     # fractional start of the clock
        opts = {"openHandshakeTimeout": c["open_to"], "closeHandshakeTimeout": c["close_to"], "autoPingInterval": c["ping_iv"], "autoPingTimeout": c["ping_to"],
                "autoPingRestartOnAnyTraffic": c["restart"], "autoPingSize": 12}
        self.is_server = c["server"]
        if self.is_server:
            self.side = wsutil.server(self.d, opts=opts)
        else:
            opts["serverConnectionDropTimeout"] = c["drop_to"]
            fkw = {"proxy": {"host": "proxy.example", "port": 3128}} if c.get("proxy") else {}
            self.side = wsutil.client(self.d, opts=opts, **fkw)
        self.t_connect = self.d.now()
        self.ep = self.side.connect()
        self.proto = self.side.proto
        self.d.settle()
        self.hs_out = b""
        self.frames = []        # (time, Frame) written after handshake
        self._raw = b""
        self._seen_writes = 0
        self.handshook = False
        self.mk = b"\x55\x66\x77\x88" if self.is_server else None
        self.drop_time = None
        self.collect()

    def collect(self):
        from harness import ref6455
        w = self.ep.t.written
        while self._seen_writes < len(w):
            t, data = w[self._seen_writes]
            self._seen_writes += 1
            if not self.handshook:
                self.hs_out += data
            else:
                self._raw += data
                fr, rest = ref6455.parse_frames(self._raw)
                for f in fr:
                    self.frames.append((t, f))
                self._raw = rest
        self.ep.t.take()
        if self.drop_effective() and self.drop_time is None:
            self.drop_time = self.ep.t.close_time

    def drop_effective(self):
        """has the endpoint ended the connection?  With a peer that has stopped reading (self.stalled) what we wrote is still in the send buffer, and a
        graceful close (Twisted loseConnection / asyncio close) waits for that buffer to drain: only an abort ends the connection then"""
        dr = self.ep.drop_requested
        if dr and getattr(self, "stalled", False) and dr != "abort":
            return None
        return dr

    def handshake(self, part=None):
        """part=None: the whole request / response in one read; ("head", k): only its first k octets (k < 0: all but the last -k); ("tail", k): the rest"""
        from harness import wsutil
        if self.is_server:
            data = wsutil.raw_request()
            if part is not None:
                k = part[1] if part[1] >= 0 else len(data) + part[1]
                self.ep.feed(data[:k] if part[0] == "head" else data[k:])
                self.d.settle()
                self.collect()
                if part[0] == "head":
                    return
            else:
                self.ep.feed(data)
        else:
            if self.c.get("proxy") and not getattr(self, "proxy_answered", False):
                self.proxy_connect()
            out = self.hs_out.split(b"\r\n\r\n", 1)[1] if self.c.get("proxy") else self.hs_out
            parsed = wsutil.split_http(out)
            if parsed is None and self.ep.drop_requested:
                return          # the endpoint has already given up (deadline passed): nothing the peer sends now matters
            key = dict(parsed[1]).get("sec-websocket-key") if parsed else None
            if key is None:
                raise Violation("C17|open|no-websocket-request-after-proxy-connect" if self.c.get("proxy") else "C17|open|no-websocket-request", repr(self.hs_out[:200]), self.c)
            data = wsutil.raw_response(key)
            if part is not None:
                k = part[1] if part[1] >= 0 else len(data) + part[1]
                self.ep.feed(data[:k] if part[0] == "head" else data[k:])
                self.d.settle()
                self.collect()
                if part[0] == "head":
                    return
            else:
                self.ep.feed(data)
        self.d.settle()
        self.collect()
        self.handshook = True
        self.t_open = self.d.now()

    def proxy_connect(self):
        """the explicit HTTP proxy answers the client's CONNECT"""
        if not self.hs_out.startswith(b"CONNECT localhost:9000 HTTP/1.1\r\n"):
            raise Violation("C17|open|no-connect-request-to-proxy", repr(self.hs_out[:200]), self.c)
        self.proxy_answered = True
        self.ep.feed(b"HTTP/1.1 200 Connection established\r\n\r\n")
        self.d.settle()
        self.collect()

    def frame(self, opcode, payload=b""):
        from harness import ref6455
        return ref6455.encode_frame(opcode, payload, mask=self.mk)

    def feed(self, data):
        if not self.ep.loss_delivered:
            self.ep.feed(data)
            self.d.settle()
            self.collect()

    def advance_to(self, t):
        """advance the clock to absolute time t in small steps, delivering our own drop as soon as it is requested"""
        while self.d.now() < t - 1e-9:
            nxt = self.d.next_deadline()
            target = t if nxt is None or nxt > t else max(nxt, self.d.now())
            if target <= self.d.now():
                target = min(t, self.d.now() + 0.01)
            try:
                self.d.advance(target - self.d.now())
            except (Violation, HarnessError):
                raise
            except Exception as e:
                raise Violation("C17|exception-in-timer|" + exc_key(e), repr(e), self.c)
            self.collect()
            if self.drop_effective() and not self.ep.loss_delivered:
                self.ep.deliver_loss("aborted" if self.ep.drop_requested == "abort" else "done")
                self.d.settle()
                self.collect()

    def advance_answering(self, t, answered_upto):
        """like advance_to, but every ping written after index `answered_upto` is answered at once with its pong"""
        n = answered_upto
        pings = [f for _, f in self.frames if f.opcode == 9]
        while n < len(pings):       # pings already written when we get here are answered first
            self.feed(self.frame(10, pings[n].payload))
            n += 1
        while self.d.now() < t - 1e-9:
            nxt = self.d.next_deadline()
            target = t if nxt is None or nxt > t else max(nxt, self.d.now() + 1e-6)
            self.advance_to(min(t, target))
            pings = [f for _, f in self.frames if f.opcode == 9]
            while n < len(pings):
                self.feed(self.frame(10, pings[n].payload))
                n += 1

    def closes(self):
        return [e for e in self.side.log if e[0] == "close"]

    def finish(self):
        if self.ep.escaped:
            raise Violation("C17|exception-escaped|" + exc_key(self.ep.escaped[0]), repr(self.ep.escaped[0]), self.c)
        if self.d.loop_errors:
            raise Violation("C17|loop-exception", repr(self.d.loop_errors[0])[:300], self.c)
        # after onClose nothing may happen however far the clock runs
        if self.closes():
            n_log, n_calls = len(self.side.log), len(self.ep.t.calls)
            try:
                self.d.advance(200.0)
            except Exception as e:
                raise Violation("C17|exception-in-timer-after-close|" + exc_key(e), repr(e), self.c)
            if len(self.side.log) != n_log or len(self.ep.t.calls) != n_calls:
                raise Violation("C17|timer-effect-after-close", "log %r calls %r" % (self.side.log[n_log:], self.ep.t.calls[n_calls:]), self.c)
        self.d.close()


def expect_dropped(w, arm, timeout, keyword, what):
    deadline = arm + timeout
    if w.drop_time is None:
        raise Violation("C17|%s|silent-peer-not-dropped" % what, "armed t=%.2f timeout %.1f: no drop until t=%.2f" % (arm, timeout, w.d.now()), w.c)
    if w.drop_time > deadline + 1e-6:
        raise Violation("C17|%s|dropped-late" % what, "armed t=%.2f timeout %.1f deadline %.2f: dropped at %.2f" % (arm, timeout, deadline, w.drop_time), w.c)
    if w.drop_time < deadline - 1.0 - 1e-6:
        raise Violation("C17|%s|dropped-early" % what, "armed t=%.2f timeout %.1f: dropped at %.2f (more than the 1s granularity before the deadline %.2f)" % (arm, timeout, w.drop_time, deadline), w.c)
    cl = w.closes()
    if len(cl) != 1 or cl[0][1] is not False or cl[0][2] != 1006:
        raise Violation("C17|%s|unclean-close-not-reported" % what, repr(cl), w.c)
    if keyword not in str(cl[0][3]).lower():
        raise Violation("C17|%s|close-reason-does-not-name-timer" % what, "expected %r in %r" % (keyword, cl[0][3]), w.c)


def expect_alive(w, what):
    if w.drop_time is not None or w.closes():
        raise Violation("C17|%s|responsive-peer-dropped" % what, "dropped at %r, onClose %r (now t=%.2f)" % (w.drop_time, w.closes(), w.d.now()), w.c)


def place(c, deadline_rel, key):
    """reaction delay relative to the arm time for the drawn placement"""
    p = c[key]
    return {"never": None, "early": max(0.0, deadline_rel - 1.0 - EPS), "late-ok?": max(0.0, deadline_rel - EPS), "at": deadline_rel, "after": deadline_rel + EPS}[p]


def in_time(c, deadline_rel, key):
    """True: surely in time (>=1s to spare); False: surely too late; None: inside the last second (not asserted)"""
    p = c[key]
    if p == "never" or p == "after":
        return False
    if p == "early" and deadline_rel - 1.0 - EPS >= 0:
        return True
    if p == "early":
        return None if deadline_rel > 0 else False
    return None


# ---------------------------------------------------------------- scenarios

def sc_open(c):
    w = World(c)
    T = c["open_to"]
    arm = w.t_connect
    if T <= 0:
        w.advance_to(arm + 30)
        expect_alive(w, "open-disabled")
        w.finish()
        return "open/disabled"
    delay = place(c, T, "p1")
    verdict = in_time(c, T, "p1")
    if c.get("proxy") == "silent":
        # the proxy accepts the TCP connection and never answers the CONNECT: the opening handshake is not completed in time either
        delay, verdict = None, False
    if delay is not None:
        if c.get("proxy") == "answers-then-silent":
            # the proxy answers the CONNECT half way, the server behind it never answers the WebSocket request
            w.advance_to(arm + delay * 0.5)
            if not w.ep.loss_delivered:
                w.proxy_connect()
            delay, verdict = None, False
        elif c.get("proxy") == "answers":
            w.advance_to(arm + delay * 0.5)
            if not w.ep.loss_delivered:
                w.proxy_connect()
    split = c.get("hs_split") if not c.get("proxy") else None
    if split:
        # the peer's request / response trickles in: some octets early (well before the deadline), the rest at the drawn time - or never.
        # Only the *complete* handshake counts; the first octets must not disarm the deadline
        w.advance_to(arm + min(T, delay if delay is not None else T) * 0.25)
        if not w.ep.loss_delivered:
            w.handshake(("head", split))
    if delay is not None:
        w.advance_to(arm + delay)
        if not w.ep.loss_delivered:
            w.handshake(("tail", split) if split else None)
    if delay is None:
        w.stalled = bool(c.get("stalled"))
    w.advance_to(arm + T + 3)
    if verdict is False and delay is None:
        expect_dropped(w, arm, T, "opening handshake timeout", "open")
    elif verdict is False:
        # handshake arrived after the deadline: the endpoint must already have dropped by the deadline
        expect_dropped(w, arm, T, "opening handshake timeout", "open")
    elif verdict is True:
        expect_alive(w, "open")
        if w.side.count("open") != 1:
            raise Violation("C17|open|handshake-in-time-but-not-open", repr(w.side.log), c)
    w.finish()
    return "open/" + c["p1"] + ("/proxy-" + c["proxy"] if c.get("proxy") else "") + ("/trickled" if split else "")


def sc_close(c):
    """we initiate the close; the peer's close reply is placed around closeHandshakeTimeout; then (client) the TCP drop around serverConnectionDropTimeout"""
    w = World(c)
    w.handshake()
    w.advance_to(w.d.now() + c["idle"])
    if w.drop_time is not None:
        w.finish()
        return "close/dropped-before-close(ping)"
    t0 = w.d.now()
    w.d.call(w.proto.sendClose, 1000, "bye")
    w.d.settle()
    w.collect()
    T = c["close_to"]
    delay = place(c, T, "p1") if T > 0 else (None if c["p1"] == "never" else 0.7)
    verdict = in_time(c, T, "p1") if T > 0 else (True if delay is not None else None)
    if delay is not None:
        w.advance_to(t0 + delay)
        t1 = w.d.now()
        w.feed(w.frame(8, struct.pack("!H", 1000) + b"ok"))
    else:
        t1 = None
    tag = "close/" + c["p1"]
    if T > 0 and verdict is False:
        if delay is None:
            w.stalled = bool(c.get("stalled"))
        w.advance_to(t0 + T + 2)
        expect_dropped(w, t0, T, "closing handshake timeout", "close")
        w.finish()
        return tag + "/timeout"
    if verdict is None:
        w.advance_to(t0 + max(T, 1) + 12)
        w.finish()
        return tag + "/granularity-window"
    # reply in time
    if w.is_server:
        w.advance_to(t1 + 0.01)
        cl = w.closes()
        if w.drop_time is None or len(cl) != 1 or cl[0][1] is not True:
            raise Violation("C17|close|server-clean-close-not-completed", "drop=%r onClose=%r" % (w.drop_time, cl), c)
        w.finish()
        return tag + "/server-clean"
    # client: wait for the server's TCP drop
    D = c["drop_to"]
    if D <= 0:
        w.advance_to(t1 + 20)
        if c["ping_iv"] == 0:
            expect_alive(w, "drop-disabled")
        w.finish()
        return tag + "/client/drop-timer-off"
    ddelay = place(c, D, "p2")
    dverdict = in_time(c, D, "p2")
    if ddelay is not None:
        w.advance_to(t1 + ddelay)
        if not w.ep.loss_delivered:
            if w.drop_time is None:
                w.ep.deliver_loss("done")
                w.d.settle()
                w.collect()
    w.advance_to(t1 + D + 3)
    if dverdict is False:
        expect_dropped(w, t1, D, "did not drop tcp", "server-drop")
    elif dverdict is True:
        cl = w.closes()
        if w.drop_time is not None:
            raise Violation("C17|server-drop|responsive-peer-dropped", "server closed TCP %.2fs after the handshake (timeout %.1f) but the client dropped at %r; onClose=%r" % (ddelay, D, w.drop_time, cl), c)
        if len(cl) != 1 or cl[0][1] is not True or cl[0][2] != 1000:
            raise Violation("C17|server-drop|clean-close-not-reported", repr(cl), c)
    w.finish()
    return tag + "/client/" + c["p2"]


def sc_ping(c):
    """auto-ping rounds: every ping is answered after a placed delay (by pong or, when configured, by a data frame)"""
    w = World(c)
    w.handshake()
    I, T = c["ping_iv"], c["ping_to"]
    if I <= 0:
        w.advance_to(w.t_open + 20)
        if [f for _, f in w.frames if f.opcode == 9]:
            raise Violation("C17|ping|ping-sent-although-disabled", "", c)
        expect_alive(w, "ping-disabled")
        w.finish()
        return "ping/disabled"
    last_ref = w.t_open      # time of open or of the last answer
    rounds = c["rounds"]
    answered = 0
    seen_pings = 0
    for rnd in range(rounds):
        # next ping must be written within (last_ref + I - 1, last_ref + I]
        w.advance_to(last_ref + I + 1e-3)
        pings = [(t, f) for t, f in w.frames if f.opcode == 9]
        if len(pings) <= seen_pings:
            if w.drop_time is not None:
                raise Violation("C17|ping|responsive-peer-dropped", "round %d: dropped at %.2f, onClose %r" % (rnd, w.drop_time, w.closes()), c)
            raise Violation("C17|ping|pings-stopped", "round %d: no ping written by t=%.2f (last answer/open at %.2f, interval %.1f)" % (rnd, w.d.now(), last_ref, I), c)
        tp, fp = pings[seen_pings]
        if len(pings) > seen_pings + 1:
            raise Violation("C17|ping|extra-ping", "more than one ping in one interval: %r" % ([t for t, _ in pings[seen_pings:]],), c)
        seen_pings += 1
        if tp < last_ref + I - 1.0 - 1e-6 or tp > last_ref + I + 1e-6:
            raise Violation("C17|ping|ping-off-schedule", "ping written at %.2f, expected within (%.2f, %.2f]" % (tp, last_ref + I - 1.0, last_ref + I), c)
        if T <= 0:
            # no timeout configured: a silent peer is never dropped; pings continue only after pongs
            w.feed(w.frame(10, fp.payload))
            last_ref = w.d.now()
            continue
        last = rnd == rounds - 1
        key = "p1" if last else None
        if not last:
            delay, verdict = max(0.0, T - 1.0 - EPS) * c["frac"], True if T - 1.0 - EPS >= 0 else None
        else:
            delay, verdict = place(c, T, "p1"), in_time(c, T, "p1")
        # configured so that only a pong counts: a peer that sends data but no pong has NOT answered (last round only: it ends the connection)
        data_does_not_count = last and c["answer"] == "data" and not c["restart"]
        if data_does_not_count:
            verdict = False
        if delay is not None:
            w.advance_to(tp + delay)
            if w.ep.loss_delivered:
                if verdict is True:
                    raise Violation("C17|ping|responsive-peer-dropped", "answer due %.2fs after the ping (timeout %.1f) but dropped at %.2f" % (delay, T, w.drop_time), c)
                break
            if c["answer"] == "data" and (c["restart"] or data_does_not_count):
                w.feed(w.frame(1, b"traffic"))
            elif c["answer"] == "data+pong" and c["restart"]:
                # the peer reacts to the same ping twice: a data frame (which counts as the answer and restarts the interval) and, a moment
                # later and still before the deadline, the matching pong (which refers to a ping that is no longer outstanding)
                w.feed(w.frame(1, b"traffic"))
                t_data = w.d.now()
                w.advance_to(t_data + min(0.25, max(0.0, (tp + T) - t_data - 0.01)))
                if not w.ep.loss_delivered:
                    w.feed(w.frame(10, fp.payload))
                last_ref = t_data
                answered += 1
                # (the rounds after this one show whether exactly one ping chain is alive)
            else:
                w.feed(w.frame(10, fp.payload))
            if not data_does_not_count and not (c["answer"] == "data+pong" and c["restart"]):
                last_ref = w.d.now()
                answered += 1
        if last:
            if verdict is True:
                w.advance_answering(tp + T + 1.5, seen_pings)     # later pings are answered at once: only this round's timer is judged
            else:
                if delay is None:
                    w.stalled = bool(c.get("stalled"))
                w.advance_to(tp + T + 1.5)
            if verdict is False:
                expect_dropped(w, tp, T, "ping timeout", "ping" + ("|data-counted-although-only-pongs-do" if data_does_not_count else ""))
            elif verdict is True:
                if w.drop_time is not None:
                    raise Violation("C17|ping|responsive-peer-dropped", "pong/data sent %.2fs after the ping (timeout %.1f): dropped at %.2f %r" % (delay, T, w.drop_time, w.closes()), c)
        elif verdict is None:
            break
    w.finish()
    return "ping/%s/%s" % (c["answer"] if c["restart"] else ("data-only-while-pong-required" if c["answer"] == "data" else "pong"), c["p1"])


def sc_ping_while_closing(c):
    """a clean closing handshake with auto-ping configured: the peer answers everything on time and must not be dropped by the ping timer"""
    w = World(c)
    w.handshake()
    I, T = c["ping_iv"], c["ping_to"]
    t0 = w.d.now()
    if c["initiator"] == "local":
        w.d.call(w.proto.sendClose, 1000, "bye")
        w.d.settle()
        w.collect()
        w.advance_to(t0 + 0.1)
        w.feed(w.frame(8, struct.pack("!H", 1000)))
    else:
        w.feed(w.frame(8, struct.pack("!H", 1000)))
    t1 = w.d.now()
    if w.is_server:
        w.advance_to(t1 + 0.01)
        cl = w.closes()
        if len(cl) != 1 or cl[0][1] is not True:
            raise Violation("C17|ping-while-closing|server-clean-close-not-completed", repr(cl), c)
        w.finish()
        return "ping-while-closing/server"
    D = c["drop_to"]
    # the server drops TCP with >=1s to spare before the drop timeout (or after 8s if that timer is off)
    wait = max(0.0, D - 1.0 - EPS) if D > 0 else 8.0
    pings_before = len([1 for _, f in w.frames if f.opcode == 9])
    w.advance_to(t1 + wait)
    if w.drop_time is not None:
        cl = w.closes()
        raise Violation("C17|ping-while-closing|responsive-peer-dropped", "closing handshake completed at t=%.2f, server would drop TCP at t=%.2f (drop timeout %.1f); client dropped at %.2f reporting %r; "
                        "pings written while closing: %d" % (t1, t1 + wait, D, w.drop_time, cl, len([1 for _, f in w.frames if f.opcode == 9]) - pings_before), c)
    w.ep.deliver_loss("done")
    w.d.settle()
    cl = w.closes()
    if len(cl) != 1 or cl[0][1] is not True:
        raise Violation("C17|ping-while-closing|clean-close-not-reported", repr(cl), c)
    w.finish()
    return "ping-while-closing/client/" + c["initiator"]


def sc_ping_outstanding_then_close(c):
    """an auto-ping is outstanding when the application starts the closing handshake; the peer answers the ping in time (pong, or a data frame when
    any traffic counts) and sends its close reply only after the ping deadline, well within the close timeout: it met every deadline"""
    I, T = c["ping_iv"], max(2, c["ping_to"])
    silent = c["p1"] == "never"
    # (silent variant: the peer answers neither the ping nor the close; the closing-handshake timeout is off or later than the ping deadline)
    c = dict(c, ping_to=T, close_to=(0 if (silent and c["frac"] < 0.75) else T + 6), drop_to=0)
    w = World(c)
    w.handshake()
    w.advance_to(w.t_open + I + 1e-3)
    pings = [(t, f) for t, f in w.frames if f.opcode == 9]
    if len(pings) != 1:
        raise Violation("C17|ping|pings-stopped" if not pings else "C17|ping|extra-ping", "%d pings by t=%.2f" % (len(pings), w.d.now()), c)
    tp, fp = pings[0]
    w.advance_to(tp + 0.2)
    w.d.call(w.proto.sendClose, 1000, "bye")
    w.d.settle()
    w.collect()
    if silent:
        # starting the closing handshake does not release the peer from answering the ping that is already out: dropped by that ping's deadline
        w.stalled = bool(c.get("stalled"))
        w.advance_to(tp + T + 1.5)
        expect_dropped(w, tp, T, "ping timeout", "ping-then-close")
        w.finish()
        return "ping-then-close/silent-peer/close_to=%s" % ("off" if c["close_to"] == 0 else "later")
    w.advance_to(tp + 0.2 + max(0.0, T - 1.0 - EPS - 0.2) * c["frac"])
    if c["answer"] == "data" and c["restart"]:
        w.feed(w.frame(1, b"traffic while closing"))
    else:
        w.feed(w.frame(10, fp.payload))
    w.advance_to(tp + T + 1.5)
    if w.drop_time is not None:
        raise Violation("C17|ping-then-close|responsive-peer-dropped", "ping at %.2f answered by %s before its deadline (timeout %.1f) while closing; dropped at %.2f reporting %r" % (
            tp, "data" if (c["answer"] == "data" and c["restart"]) else "pong", T, w.drop_time, w.closes()), c)
    w.feed(w.frame(8, struct.pack("!H", 1000)))
    w.advance_to(w.d.now() + 0.01)
    if not w.is_server:
        if w.drop_time is not None:
            raise Violation("C17|ping-then-close|responsive-peer-dropped", "client dropped at %.2f right after the close reply: %r" % (w.drop_time, w.closes()), c)
        w.ep.deliver_loss("done")
        w.d.settle()
    cl = w.closes()
    if len(cl) != 1 or cl[0][1] is not True:
        raise Violation("C17|ping-then-close|clean-close-not-reported", repr(cl), c)
    w.finish()
    return "ping-then-close/%s" % ("data" if (c["answer"] == "data" and c["restart"]) else "pong")


SCENARIOS = {"open": sc_open, "close": sc_close, "ping": sc_ping, "ping-while-closing": sc_ping_while_closing, "ping-then-close": sc_ping_outstanding_then_close}


def strategy():
    from hypothesis import strategies as st
    grid = st.sampled_from(GRID)
    pos = st.sampled_from(["never", "early", "late-ok?", "at", "after"])

    @st.composite
    def case(draw):
        sc = draw(st.sampled_from(["open", "close", "close", "ping", "ping", "ping-while-closing", "ping-then-close"]))
        c = {"sc": sc, "server": draw(st.booleans()), "offset": draw(st.sampled_from([0.0, 0.25, 0.5, 0.75, 0.999, 3.3])),
             "open_to": draw(grid), "close_to": draw(grid), "drop_to": draw(grid), "ping_iv": 0, "ping_to": 0, "restart": draw(st.booleans()),
             "p1": draw(pos), "p2": draw(pos), "idle": draw(st.sampled_from([0.0, 0.4, 1.7])), "rounds": draw(st.integers(1, 4)), "frac": draw(st.sampled_from([0.0, 0.5, 1.0])),
             "answer": draw(st.sampled_from(["pong", "data", "data+pong"])), "stalled": draw(st.booleans()), "initiator": draw(st.sampled_from(["local", "peer"]))}
        if sc in ("ping", "ping-while-closing", "ping-then-close") or draw(st.integers(0, 3)) == 0:
            c["ping_iv"] = draw(st.sampled_from([1, 2, 5] if sc != "close" else [5]))
            c["ping_to"] = draw(st.sampled_from(GRID if sc == "ping" else [1, 2, 5]))
            if sc == "ping" and draw(st.integers(0, 6)) == 0:
                c["ping_iv"] = 0
        if sc == "open":
            c["ping_iv"] = c["ping_to"] = 0
            c["hs_split"] = draw(st.sampled_from([None, None, 1, 18, -2, -1]))
            if not c["server"]:
                # a client may go through an explicit HTTP proxy: the deadline covers the CONNECT exchange as well
                c["proxy"] = draw(st.sampled_from([None, None, "silent", "answers", "answers-then-silent"]))
        else:
            # sub-second timeouts are inside the 1s timer granularity: outside "open" scenarios keep the unrelated timers >= 2s or off
            if c["open_to"] and c["open_to"] < 2:
                c["open_to"] = 2
        if sc in ("ping", "ping-while-closing", "ping-then-close") and c["close_to"] and c["close_to"] < 2:
            c["close_to"] = 2
        if sc == "close" and c["ping_iv"]:
            c["idle"] = 0.0
        return c
    return case()


def run_case(c):
    try:
        return SCENARIOS[c["sc"]](c)
    except (Violation, HarnessError):
        raise
    except Exception as e:
        from harness.core import in_autobahn
        if in_autobahn(e):
            raise Violation("C17|exception|" + exc_key(e), repr(e), c)
        raise


def schedules(col, seed, n):
    def body(c):
        tag = run_case(c)
        near = c["p1"] in ("late-ok?", "at", "after") or (c["sc"] == "close" and c["p2"] in ("late-ok?", "at", "after"))
        two = sum(1 for k in ("open_to", "close_to", "drop_to", "ping_iv") if c[k]) >= 2
        col.case(near or two, dig=c, cls=[tag, "role:" + ("server" if c["server"] else "client")], sample=c)
    run_hypothesis(col, "sched", strategy(), body, n, seed)


def replay(col, case):
    case = dec(case)
    c = case.get("case", case)
    run_case(c)
    col.case()
