"""C13 - WAMP transports attach a session only after valid negotiation and fail closed."""
import itertools
import struct

from harness.core import Violation, HarnessError, run_hypothesis, dec, exc_key, brief, in_autobahn

DESCRIPTION = {
    "level": "exploration",
    "rule": ("(a) RawSocket handshake, exhaustive: every value of handshake octets 1-2 (65536) with zero and non-zero reserved octets, for the library server (several serializer "
             "sets) and the library client (each serializer), on Twisted and asyncio, delivered in 1-4 reads.  (a') handshake octets followed immediately by three WAMP frames as ONE stream from a scripted raw peer: every 1-cut and 2-cut segmentation (RawSocket, both roles), "
             "every 1-cut plus cuts around the end of the HTTP header (WebSocket, both roles): the session is attached once and receives exactly those messages.  "
             "(b) WebSocket subprotocols, exhaustive: every ordered subset of "
             "{json,msgpack,cbor,ubjson} on the client side x every subset on the server side (65x65) through the real WebSocket handshake between library client and server.  "
             "(c) Traffic: library client <-> library server (RawSocket and WebSocket) with recording sessions, Hypothesis message sequences whose serialized length is steered to "
             "limit-1/limit/limit+1 of the negotiated maximum (2^9..2^24), all serializers, adversarial segmentation (incl. several reads per event-loop turn); length prefixes above the locally announced maximum "
             "delivered header-only.  (d) Corruption injected at every position of a valid stream: flipped WebSocket frame type, truncated/garbage payload, unknown message type, "
             "out-of-phase message (session raising ProtocolError), session callbacks raising in onOpen/onMessage/onClose.  Oracle: a session's onOpen happens iff the reference "
             "handshake rules accept (magic 0x7F and a supported serializer code; first wamp.2.* subprotocol in the client's order that the server supports), both ends then hold "
             "the same serializer and use matching text/binary framing; every other handshake ends with the transport closed/aborted, no session and no exception leaving "
             "dataReceived/data_received; attached peers receive the same messages in order; no frame longer than the peer's announced maximum is written (the sender gets an "
             "exception); an over-limit incoming prefix closes the transport before the payload arrives; corruption closes the transport (WS 1002/1011, RawSocket abort) and the "
             "session's onClose is called exactly once.  A session that took the transport in onOpen and then raised is told exactly once, too.  RawSocket limits include non powers of two; the limit that counts is the one read from each side's handshake octets.  Subprotocol negotiation is also enumerated over batched and unbatched variants of two serializers.  Non-trivial = handshake differing from a valid one in one field, a message within +-1 of a limit, or an injected "
             "corruption; enumerated handshakes count each value. (c') RawSocket client and server of each framework against a raw peer announcing every maximum 2^9..2^20 (thorough: 2^23): messages of limit-1 / limit go out as one exact frame, limit+1 / 3*limit are refused with an error and nothing is written."),
    "assumptions": ["non-zero reserved RawSocket octets: only 'no exception, same verdict under every split' is asserted",
                    "cross-framework pairings (Twisted client <-> asyncio server) are not run: one framework per process",
                    "an exception raised by lengthLimitExceeded out of Twisted's dataReceived counts as rejection (the driver converts it into connection loss as the reactor does)"],
}

SERS = ["json", "msgpack", "cbor", "ubjson"]
SER_ID = {"json": 1, "msgpack": 2, "cbor": 3, "ubjson": 4}


def plan(tier, seed):
    jobs = []
    q = tier == "quick"
    for i, fw in enumerate(("twisted", "asyncio")):
        nsh = 4
        for sh in range(nsh):
            jobs.append({"func": "rs_handshake", "fw": fw, "name": "rs-hs/%s/%d" % (fw, sh), "args": {"shard": sh, "nshards": nsh, "stride": 2 if q else 1, "offset": seed % 2 if q else 0}})
        jobs.append({"func": "coalesced", "fw": fw, "name": "coalesced/%s" % fw, "args": {"full": not q, "offset": seed}})
        jobs.append({"func": "ws_subprotocols", "fw": fw, "name": "ws-sub/%s" % fw, "args": {"stride": 2 if q else 1, "offset": seed % 2 if q else 0}})
        jobs.append({"func": "ws_subprotocols", "fw": fw, "name": "ws-sub-batched/%s" % fw, "args": {"stride": 2 if q else 1, "offset": seed % 2 if q else 0, "names": BATCHED_MIX}})
        for sh in range(2 if q else 6):
            jobs.append({"func": "traffic", "fw": fw, "name": "traffic/%s/%d" % (fw, sh), "args": {"seed": seed * 1000 + i * 100 + sh, "n": 300 if q else 2000}})
            if sh == 0:
                # library endpoint against a raw peer that announces each possible maximum (the asyncio factories cannot lower their own, so a
                # library pair never meets a limit below 16 MiB there)
                jobs.append({"func": "announced_limits", "fw": fw, "name": "announced/%s" % fw, "args": {"top": 11 if q else 14, "offset": seed}})
            jobs.append({"func": "corruption", "fw": fw, "name": "corrupt/%s/%d" % (fw, sh), "args": {"seed": seed * 1000 + i * 100 + 50 + sh, "n": 500 if q else 3000}})
    return jobs


class RecSession:
    """minimal ISession: records what the transport tells it"""

    def __init__(self, log, raise_in=None):
        self.log = log
        self.raise_in = raise_in or {}
        self._transport = None
        # attributes the transports read for logging
        self._authid = None
        self._session_id = None

    def onOpen(self, transport):
        self.log.append(("open", transport))
        self._transport = transport
        if "onOpen" in self.raise_in:
            raise self.raise_in["onOpen"]

    def onMessage(self, msg):
        self.log.append(("msg", msg))
        if "onMessage" in self.raise_in:
            e = self.raise_in["onMessage"]
            if isinstance(e, tuple):     # raise on the k-th message
                k, exc = e
                if sum(1 for x in self.log if x[0] == "msg") == k:
                    raise exc
            else:
                raise e

    def onClose(self, wasClean):
        self.log.append(("close", wasClean))
        if "onClose" in self.raise_in:
            raise self.raise_in["onClose"]


def _mods():
    from harness import drv
    if drv.FW == "twisted":
        from autobahn.twisted import rawsocket as rs, websocket as ws
    else:
        from autobahn.asyncio import rawsocket as rs, websocket as ws
    return rs, ws


def ser_objs(names):
    from harness.wamptx import serializer_obj
    return [serializer_obj(n[:-len(".batched")], batched=True) if n.endswith(".batched") else serializer_obj(n) for n in names]


def feed_split(ep, data, split):
    if split == 1:
        ep.feed(data)
    elif split == 2:
        ep.feed(data[:1])
        ep.feed(data[1:])
    elif split == 3:
        ep.feed(data[:2])
        ep.feed(data[2:3])
        ep.feed(data[3:])
    else:
        for i in range(len(data)):
            ep.feed(data[i:i + 1])


# ---------------------------------------------------------------- (a') handshake and first frames in one stream

COALESCED_MSGS = [[16, 1, {}, "com.example.topic", ["first", 1]], [16, 2, {"acknowledge": True}, "com.example.topic2", ["x" * 40], {"k": 2}], [6, {}, "wamp.close.normal"]]


def coalesced_one(d, kind, role, ser, cuts):
    from harness import wamptx, wsutil, ref6455
    rs, ws = _mods()
    msgs = COALESCED_MSGS
    log = []
    if kind == "rs":
        if role == "server":
            f = rs.WampRawSocketServerFactory(lambda: RecSession(log), serializers=ser_objs([ser]))
            ep = d.connect(f)
            head = bytes([0x7F, 0xF0 | SER_ID[ser], 0, 0])
        else:
            f = rs.WampRawSocketClientFactory(lambda: RecSession(log), serializer=ser_objs([ser])[0])
            ep = d.connect(f)
            d.settle()
            ep.take()
            head = bytes([0x7F, 0xF0 | SER_ID[ser], 0, 0])
        body = b"".join(struct.pack("!L", len(x)) + x for x in (wamptx.dumps(ser, m) for m in msgs))
    else:
        kw = {"reactor": d.clock} if d.fw == "twisted" else {"loop": d.loop}
        binary = ser != "json"
        if role == "server":
            f = ws.WampWebSocketServerFactory(lambda: RecSession(log), url="ws://localhost:9000", serializers=ser_objs([ser]), **kw)
            f.setProtocolOptions(openHandshakeTimeout=0, closeHandshakeTimeout=0)
            ep = d.connect(f)
            head = wsutil.raw_request(protocols=["wamp.2." + ser])
            mk = b"\x11\x22\x33\x44"
        else:
            f = ws.WampWebSocketClientFactory(lambda: RecSession(log), url="ws://localhost:9000", serializers=ser_objs([ser]), **kw)
            f.setProtocolOptions(openHandshakeTimeout=0, closeHandshakeTimeout=0, serverConnectionDropTimeout=0)
            ep = d.connect(f)
            d.settle()
            parsed = wsutil.split_http(ep.take())
            head = wsutil.raw_response(dict(parsed[1]).get("sec-websocket-key"), protocol="wamp.2." + ser)
            mk = None
        body = b"".join(ref6455.encode_frame(2 if binary else 1, wamptx.dumps(ser, m), mask=mk) for m in msgs)
    data = head + body
    prev = 0
    for cpos in list(cuts) + [len(data)]:
        ep.feed(data[prev:cpos])
        prev = cpos
    d.settle()
    case = {"check": "coalesced", "kind": kind, "role": role, "ser": ser, "cuts": list(cuts), "headlen": len(head)}
    esc = list(ep.escaped) + list(d.loop_errors)
    d.loop_errors[:] = []
    if esc:
        e = esc[0]
        raise Violation("C13|coalesced|exception-escaped|" + (exc_key(e) if isinstance(e, Exception) else "loop"), repr(e)[:300], case)
    opens = [x for x in log if x[0] == "open"]
    got = [x[1].marshal() for x in log if x[0] == "msg"]
    if len(opens) != 1:
        raise Violation("C13|coalesced|session-not-attached-once", "%s %s cuts %r: %d onOpen calls" % (kind, role, cuts, len(opens)), case)
    if [wamptx.loads("json", wamptx.dumps("json", g)) for g in got] != msgs:
        raise Violation("C13|coalesced|messages-after-handshake-lost-or-altered", "%s %s/%s cuts %r (handshake %d octets): delivered %r" % (
            kind, role, ser, cuts, len(head), brief(got)), case)
    if ep.drop_requested:
        raise Violation("C13|coalesced|valid-stream-dropped", "%s %s cuts %r" % (kind, role, cuts), case)
    return len(data), len(head)


def coalesced(col, full, offset):
    """scripted raw peer -> library endpoint: the peer's handshake octets followed immediately by WAMP frames, delivered under every segmentation
    with one or two cuts (RawSocket, both roles: enumerated completely; WebSocket: every single cut, two cuts sampled).  The session must be attached
    once and receive exactly the frames' messages, in order, whatever the cuts are."""
    from harness import drv, wamptx, wsutil, ref6455
    rs, ws = _mods()
    d = drv.get_driver()
    n = 0
    for kind in ("rs", "ws"):
        for role in ("server", "client"):
            for si, ser in enumerate(SERS if full else [SERS[(offset + (kind == "ws") + (role == "client")) % 4]]):
                total, headlen = coalesced_one(d, kind, role, ser, ())
                if kind == "rs":
                    lim = min(total, headlen + 16)
                    combos = [(i,) for i in range(1, total)] + [(i, j) for i in range(1, lim) for j in range(i + 1, total)]
                else:
                    combos = [(i,) for i in range(1, total)] + [(i, j) for i in range(headlen - 6, headlen + 1) for j in range(i + 1, min(total, headlen + 12))]
                    if full:
                        combos += [(i, j) for i in range(1, headlen, 7) for j in range(headlen - 3, min(total, headlen + 8)) if j > i]
                from harness.core import guarded_blocks
                for cuts in guarded_blocks(combos):
                    coalesced_one(d, kind, role, ser, cuts)
                    n += 1
                    straddle = any(c_ >= headlen for c_ in cuts) and any(0 < c_ < headlen for c_ in cuts) or (len(cuts) == 1 and 0 < cuts[0] < headlen)
                    col.case(straddle, enum=True, cls=["coalesced/%s/%s" % (kind, role)] + (["coalesced/handshake-completing-read-carries-frame-octets"] if straddle else []),
                             sample={"kind": kind, "role": role, "ser": ser, "cuts": cuts, "handshake_octets": headlen})
    d.close()
    col.exhaustive.append("handshake+frames stream: RawSocket every 1-cut and every 2-cut segmentation with the first cut within 16 octets after the handshake; WebSocket every 1-cut")


# ---------------------------------------------------------------- (a) RawSocket handshake

def rs_handshake(col, shard, nshards, stride, offset):
    from harness import drv
    rs, _ = _mods()
    d = drv.get_driver()
    server_sets = [["json", "msgpack", "cbor", "ubjson"], ["json"], ["cbor", "msgpack"]]
    # the 256 values whose first octet is the magic 0x7F decide everything that follows: always all of them, the rest by stride
    vals = sorted(set(range(offset, 65536, stride)) | set(range(0x7F00, 0x8000)))[shard::nshards]
    from harness.core import guarded_blocks
    for v in guarded_blocks(vals):
        b0, b1 = v >> 8, v & 0xFF
        for reserved in ((0, 0), (0, 1), (0x80, 0)) if (v % 64 == 0 or b0 == 0x7F) else ((0, 0),):
            hs = bytes([b0, b1, reserved[0], reserved[1]])
            split = 1 + (v + reserved[1]) % 4
            # --- library server
            sset = server_sets[v % len(server_sets)]
            log = []
            f = rs.WampRawSocketServerFactory(lambda: RecSession(log), serializers=ser_objs(sset))
            ep = d.connect(f)
            feed_split(ep, hs, split)
            d.settle()
            case = {"check": "rs-hs", "role": "server", "hs": hs, "split": split, "set": sset}
            ok = b0 == 0x7F and (b1 & 0x0F) in [SER_ID[s] for s in sset]
            judge_rs_hs(col, d, ep, log, case, ok, reserved != (0, 0), want_ser=b1 & 0x0F, server=True)
            # --- library client
            cser = SERS[(v >> 3) % 4]
            log = []
            f = rs.WampRawSocketClientFactory(lambda: RecSession(log), serializer=ser_objs([cser])[0])
            ep = d.connect(f)
            d.settle()
            first = ep.take()
            if len(first) != 4 or first[0] != 0x7F or (first[1] & 0x0F) != SER_ID[cser] or first[2:] != b"\x00\x00":
                raise Violation("C13|rs-hs|client-handshake-malformed", repr(first), {"check": "rs-hs", "role": "client", "ser": cser})
            feed_split(ep, hs, split)
            d.settle()
            case = {"check": "rs-hs", "role": "client", "hs": hs, "split": split, "ser": cser}
            ok = b0 == 0x7F and (b1 & 0x0F) == SER_ID[cser]
            judge_rs_hs(col, d, ep, log, case, ok, reserved != (0, 0), want_ser=SER_ID[cser], server=False)
    d.close()
    if shard == 0:
        col.exhaustive.append("RawSocket handshake: %s values of octets 1-2 x {server, client}, reserved octets zero/non-zero, 1-4 reads" % ("all 65536" if stride == 1 else "1/%d (seed-selected) of the 65536" % stride))


def judge_rs_hs(col, d, ep, log, case, ok, reserved_nonzero, want_ser, server):
    esc = list(ep.escaped) + list(d.loop_errors)
    d.loop_errors[:] = []
    if esc:
        e = esc[0]
        ek = exc_key(e) if isinstance(e, Exception) else ("loop|" + (exc_key(e.get("exception")) if isinstance(e, dict) and e.get("exception") else "?"))
        raise Violation("C13|rs-hs|exception-escaped|%s|%s" % (case["role"], ek), "%r for handshake %s" % (e, case["hs"].hex()), case)
    opened = [x for x in log if x[0] == "open"]
    if reserved_nonzero:
        # don't-care verdict, but never an exception (checked above) and never a half-state
        if opened and not ok:
            raise Violation("C13|rs-hs|session-attached-on-invalid-handshake|" + case["role"], case["hs"].hex(), case)
        col.case(True, enum=True, cls="rs-hs/%s/reserved-nonzero" % case["role"])
        return
    if ok:
        if len(opened) != 1:
            raise Violation("C13|rs-hs|valid-handshake-refused|" + case["role"], "%s: session opens %d, dropped=%r" % (case["hs"].hex(), len(opened), ep.drop_requested), case)
        tr = opened[0][1]
        got = getattr(tr._serializer, "RAWSOCKET_SERIALIZER_ID", None)
        if got != want_ser:
            raise Violation("C13|rs-hs|serializer-mismatch|" + case["role"], "negotiated %r but transport uses %r" % (want_ser, got), case)
        if server:
            reply = ep.t.all_written()
            if len(reply) != 4 or reply[0] != 0x7F or (reply[1] & 0x0F) != want_ser or reply[2:] != b"\x00\x00":
                raise Violation("C13|rs-hs|server-reply-malformed", reply.hex(), case)
        if ep.drop_requested:
            raise Violation("C13|rs-hs|dropped-after-valid-handshake|" + case["role"], "", case)
    else:
        if opened:
            raise Violation("C13|rs-hs|session-attached-on-invalid-handshake|" + case["role"], case["hs"].hex(), case)
        if not ep.drop_requested:
            raise Violation("C13|rs-hs|invalid-handshake-not-closed|" + case["role"], "%s: transport left open" % case["hs"].hex(), case)
    col.case(True, enum=True, cls="rs-hs/%s/%s" % (case["role"], "valid" if ok else "invalid"), sample={"role": case["role"], "hs": case["hs"].hex(), "split": case["split"]})


# ---------------------------------------------------------------- (b) WebSocket subprotocol negotiation

def ordered_subsets(items):
    out = [()]
    for k in range(1, len(items) + 1):
        out.extend(itertools.permutations(items, k))
    return out


BATCHED_MIX = ["json", "json.batched", "msgpack", "msgpack.batched"]      # a serializer and its batched variant are different subprotocols (wamp.2.json vs wamp.2.json.batched)


def ws_subprotocols(col, stride, offset, only=None, names=None):
    from harness import drv, wsutil
    _, ws = _mods()
    if only is not None and any(".batched" in x for x in list(only[0]) + list(only[1])):
        names = BATCHED_MIX
    subsets = ordered_subsets(names or SERS)
    pairs = [(c, s) for c in subsets for s in subsets if c and s]
    d = drv.get_driver()
    from harness.core import guarded_blocks
    for idx, (cl, sl) in guarded_blocks(list(enumerate(pairs))):
        if only is not None:
            if (list(cl), list(sl)) != (list(only[0]), list(only[1])):
                continue
        elif idx % stride != offset:
            continue
        clog, slog = [], []
        kw = {"reactor": d.clock} if d.fw == "twisted" else {"loop": d.loop}
        sf = ws.WampWebSocketServerFactory(lambda: RecSession(slog), url="ws://localhost:9000", serializers=ser_objs(sl), **kw)
        cf = ws.WampWebSocketClientFactory(lambda: RecSession(clog), url="ws://localhost:9000", serializers=ser_objs(cl), **kw)
        for f in (sf, cf):
            f.setProtocolOptions(openHandshakeTimeout=0, closeHandshakeTimeout=0)
        se, ce = d.connect(sf), d.connect(cf)
        pipe = wsutil.Pipe(d, ce, se)
        pipe.run([(0, 7), (1, 5)] if idx % 3 == 0 else ())
        case = {"check": "ws-sub", "client": list(cl), "server": list(sl)}
        esc = list(se.escaped) + list(ce.escaped) + list(d.loop_errors)
        d.loop_errors[:] = []
        if esc:
            e = esc[0]
            raise Violation("C13|ws-sub|exception-escaped|" + (exc_key(e) if isinstance(e, Exception) else "loop"), repr(e)[:300], case)
        want = next((s for s in cl if s in sl), None)
        copen = [x for x in clog if x[0] == "open"]
        sopen = [x for x in slog if x[0] == "open"]
        if want is None:
            if copen or sopen:
                raise Violation("C13|ws-sub|session-attached-without-common-serializer", "client %r server %r: opens client=%d server=%d" % (cl, sl, len(copen), len(sopen)), case)
            if not ce.drop_requested:
                raise Violation("C13|ws-sub|no-common-serializer-not-closed", "client transport left open", case)
        else:
            if len(copen) != 1 or len(sopen) != 1:
                raise Violation("C13|ws-sub|common-serializer-but-no-session", "client %r server %r: opens client=%d server=%d" % (cl, sl, len(copen), len(sopen)), case)
            cs, ss = copen[0][1]._serializer.SERIALIZER_ID, sopen[0][1]._serializer.SERIALIZER_ID
            if cs != want or ss != want:
                raise Violation("C13|ws-sub|wrong-serializer-chosen", "client order %r, server set %r: expected %s, client uses %s, server uses %s" % (cl, sl, want, cs, ss), case)
            # one message each way: framing type must match the serializer
            from autobahn.wamp import message
            copen[0][1].send(message.Published(1, 2))
            sopen[0][1].send(message.Published(3, 4))
            pipe.run()
            if [x[1].request for x in slog if x[0] == "msg"] != [1] or [x[1].request for x in clog if x[0] == "msg"] != [3]:
                raise Violation("C13|ws-sub|message-not-delivered-after-negotiation", "serializer %s" % want, case)
        col.case(True, enum=True, cls="ws-sub/" + ("common:" + want if want else "none"), sample=case)
    d.close()
    col.exhaustive.append("WebSocket subprotocol negotiation over %r: %s of the 64x64 non-empty ordered serializer subsets (client x server)" % (names or SERS, "all" if stride == 1 else "1/%d" % stride))


# ---------------------------------------------------------------- (c) traffic around the limits

class PairWorld:
    def __init__(self, kind, ser, server_max=None, client_max=None, raise_in_server=None, raise_in_client=None):
        from harness import drv, wsutil
        rs, ws = _mods()
        self.d = drv.get_driver()
        d = self.d
        self.clog, self.slog = [], []
        self.kind = kind
        if kind == "rs":
            sf = rs.WampRawSocketServerFactory(lambda: RecSession(self.slog, raise_in_server), serializers=ser_objs([ser]))
            cf = rs.WampRawSocketClientFactory(lambda: RecSession(self.clog, raise_in_client), serializer=ser_objs([ser])[0])
            if d.fw == "twisted":
                if server_max:
                    sf.setProtocolOptions(maxMessagePayloadSize=server_max)
                if client_max:
                    cf.setProtocolOptions(maxMessagePayloadSize=client_max)
            self.server_max = server_max if d.fw == "twisted" and server_max else 2 ** 24
            self.client_max = client_max if d.fw == "twisted" and client_max else 2 ** 24
        else:
            kw = {"reactor": d.clock} if d.fw == "twisted" else {"loop": d.loop}
            sf = ws.WampWebSocketServerFactory(lambda: RecSession(self.slog, raise_in_server), url="ws://localhost:9000", serializers=ser_objs([ser]), **kw)
            cf = ws.WampWebSocketClientFactory(lambda: RecSession(self.clog, raise_in_client), url="ws://localhost:9000", serializers=ser_objs([ser]), **kw)
            sf.setProtocolOptions(openHandshakeTimeout=0, closeHandshakeTimeout=0, failByDrop=False, **({"maxMessagePayloadSize": server_max} if server_max else {}))
            cf.setProtocolOptions(openHandshakeTimeout=0, closeHandshakeTimeout=0, failByDrop=False, serverConnectionDropTimeout=0, **({"maxMessagePayloadSize": client_max} if client_max else {}))
            self.server_max, self.client_max = server_max, client_max
        self.se, self.ce = d.connect(sf), d.connect(cf)
        self.pipe = wsutil.Pipe(d, self.ce, self.se)
        self.pipe.run()
        if kind == "rs":
            # the limit that counts is the one each side *announced* in its handshake octets (second octet, high nibble: 2^(9+n)), whatever was configured
            hs_c, hs_s = bytes(self.pipe.delivered[0][:4]), bytes(self.pipe.delivered[1][:4])
            if len(hs_c) == 4 and len(hs_s) == 4 and hs_c[0] == 0x7F and hs_s[0] == 0x7F:
                self.client_max = 2 ** (9 + (hs_c[1] >> 4))
                self.server_max = 2 ** (9 + (hs_s[1] >> 4))

    def transports(self):
        c = [x[1] for x in self.clog if x[0] == "open"]
        s = [x[1] for x in self.slog if x[0] == "open"]
        return (c[0] if c else None), (s[0] if s else None)

    def close(self):
        self.d.close()


def sized_message(ser_obj, target):
    """a PUBLISH whose serialized size is exactly `target` bytes if reachable (else the closest below)"""
    from autobahn.wamp import message
    lo, hi = 0, max(0, target)
    best = None
    for _ in range(40):
        n = (lo + hi) // 2
        m = message.Publish(1, "com.example.topic", args=["x" * n])
        size = len(ser_obj.serialize(m)[0])
        if size == target:
            return m, size
        if size < target:
            best = (m, size)
            lo = n + 1
        else:
            hi = n - 1
        if lo > hi:
            break
    return best if best else (message.Publish(1, "com.example.topic", args=[""]), 0)


def traffic(col, seed, n):
    from hypothesis import strategies as st
    from harness import wampwire as W
    S = W.message_strategies()
    names = sorted(S)
    anymsg = st.sampled_from(names).flatmap(lambda nm: S[nm])
    strat = st.fixed_dictionaries({
        "kind": st.sampled_from(["rs", "ws"]), "ser": st.sampled_from(SERS), "limit": st.sampled_from([512, 1024, 4096, 65536, 2 ** 17, 1000, 3000, 5000, 100000]),
        "deltas": st.lists(st.sampled_from([-1, 0, 1, -100, 37]), min_size=1, max_size=4), "dir": st.sampled_from(["c2s", "s2c"]),
        "msgs": st.lists(anymsg, max_size=4), "schedule": st.lists(st.tuples(st.integers(0, 1), st.one_of(st.none(), st.integers(1, 300))), max_size=12),
        "header_only_excess": st.sampled_from([1, 100, 2 ** 20]), "burst": st.sampled_from([0, 0, 3, 6])})   # burst: that many reads per event-loop turn

    def body(c):
        check_traffic(c)
        col.case(True, dig=c, cls=["traffic/%s/%s" % (c["kind"], c["ser"]), "traffic/limit:%d" % c["limit"]], sample={k: c[k] for k in ("kind", "ser", "limit", "deltas", "dir")})
    run_hypothesis(col, "traffic", strat, body, n, seed)


def check_traffic(c):
    from harness import wampwire as W, drv
    from autobahn.exception import PayloadExceededError
    from autobahn.wamp.exception import SerializationError
    limit = c["limit"]
    # RawSocket: the *receiver* announces the limit in its handshake.  WebSocket has no such announcement: the sender's own
    # configured maxMessagePayloadSize is what protects the peer there.
    if c["kind"] == "rs":
        kw = {"server_max": limit} if c["dir"] == "c2s" else {"client_max": limit}
    else:
        kw = {"client_max": limit} if c["dir"] == "c2s" else {"server_max": limit}
    w = PairWorld(c["kind"], c["ser"], **kw)
    try:
        ct, st_ = w.transports()
        if ct is None or st_ is None:
            raise Violation("C13|traffic|pair-did-not-attach", "client log %r server log %r" % (w.clog[:2], w.slog[:2]), c)
        sender, rlog = (ct, w.slog) if c["dir"] == "c2s" else (st_, w.clog)
        recv_ep = w.se if c["dir"] == "c2s" else w.ce
        send_ep = w.ce if c["dir"] == "c2s" else w.se
        if c["kind"] == "rs":
            eff_limit = (w.server_max if c["dir"] == "c2s" else w.client_max)
        else:
            eff_limit = (w.client_max if c["dir"] == "c2s" else w.server_max)
        if eff_limit and eff_limit >= 2 ** 24:
            eff_limit = None       # the asyncio RawSocket factories cannot lower the 16 MiB maximum: messages around 2^24 octets are not generated
        sent = []
        ser_obj = sender._serializer
        plan_msgs = [W.build(nm, kwargs) for nm, kwargs in c["msgs"]]
        for dlt in c["deltas"]:
            m, size = sized_message(ser_obj, (eff_limit or limit) + dlt)
            plan_msgs.append(m)
        for k, m in enumerate(plan_msgs):
            size = len(ser_obj.serialize(m)[0])
            before = len(send_ep.t.written)
            try:
                w.d.call(lambda m=m: sender.send(m))
                raised = None
            except (PayloadExceededError, SerializationError, ValueError) as e:
                raised = e
            except Exception as e:
                if in_autobahn(e):
                    raise Violation("C13|traffic|send-raised|" + exc_key(e), repr(e), c)
                raise
            over = bool(eff_limit) and size > eff_limit
            if over:
                wrote = b"".join(dta for _, dta in send_ep.t.written[before:])
                if raised is None and len(wrote) >= size:
                    raise Violation("C13|traffic|over-limit-message-sent", "%s/%s: message of %d bytes written although the peer announced %d" % (c["kind"], c["ser"], size, eff_limit), c)
                if raised is None:
                    raise Violation("C13|traffic|over-limit-send-silently-dropped", "size %d limit %d: no exception" % (size, eff_limit), c)
            else:
                if raised is not None:
                    raise Violation("C13|traffic|within-limit-send-refused|" + exc_key(raised), "size %d limit %r: %r" % (size, eff_limit, raised), c)
                sent.append(m)
            if k % 2 == 0 and not c.get("burst"):
                w.pipe.run(c["schedule"])
        if c.get("burst"):
            w.pipe.run_bytewise(53, burst=c["burst"])
        w.pipe.run(c["schedule"])
        w.pipe.run()
        esc = list(w.se.escaped) + list(w.ce.escaped) + list(w.d.loop_errors)
        if esc:
            e = esc[0]
            raise Violation("C13|traffic|exception-escaped|" + (exc_key(e) if isinstance(e, Exception) else "loop"), repr(e)[:300], c)
        got = [x[1] for x in rlog if x[0] == "msg"]
        if len(got) != len(sent):
            raise Violation("C13|traffic|message-count-differs", "%s/%s limit %r: sent %d received %d (receiver closes: %r)" % (
                c["kind"], c["ser"], eff_limit, len(sent), len(got), [x for x in rlog if x[0] == "close"]), c)
        for a, b in zip(sent, got):
            if type(a) is not type(b) or W.attrs_equal(a, b):
                raise Violation("C13|traffic|message-altered", "%s vs %s: %r" % (type(a).__name__, type(b).__name__, brief(W.attrs_equal(a, b))[:3] if type(a) is type(b) else ""), c)
        # an incoming length prefix above the announced maximum, header only (RawSocket)
        if c["kind"] == "rs" and eff_limit and eff_limit < 2 ** 24:
            n_msgs = len(got)
            n_close = sum(1 for x in rlog if x[0] == "close")
            recv_ep.feed(struct.pack("!L", eff_limit + c["header_only_excess"]))
            w.d.settle()
            if not recv_ep.drop_requested and not recv_ep.loss_delivered:
                raise Violation("C13|traffic|over-limit-prefix-not-rejected", "prefix %d with announced maximum %d: transport still open" % (eff_limit + c["header_only_excess"], eff_limit), c)
            if not recv_ep.loss_delivered:
                recv_ep.deliver_loss("aborted")
            w.d.settle()
            if len([x for x in rlog if x[0] == "msg"]) != n_msgs:
                raise Violation("C13|traffic|over-limit-frame-delivered", "", c)
            if sum(1 for x in rlog if x[0] == "close") != n_close + 1:
                raise Violation("C13|traffic|onClose-count-after-over-limit-prefix", repr([x for x in rlog if x[0] == "close"]), c)
    finally:
        w.close()


def announced_limits(col, top, offset):
    """enumerated: RawSocket library client and server (this framework) x every length nibble 0..top the raw peer can announce (2^9 .. 2^(9+top)
    octets) x serializer (rotating) x messages of limit-1 / limit / limit+1 / 3*limit octets: a message within the announced maximum goes out as one
    frame with the right prefix and payload, a longer one is refused with an error and not a single octet of it is written"""
    from harness import drv
    from autobahn.exception import PayloadExceededError
    from autobahn.wamp.exception import SerializationError
    rs, _ = _mods()
    d = drv.get_driver()
    for role in ("client", "server"):
        for nib in range(0, top + 1):
            limit = 2 ** (9 + nib)
            ser = SERS[(nib + offset + (role == "server")) % 4]
            log = []
            if role == "server":
                f = rs.WampRawSocketServerFactory(lambda: RecSession(log), serializers=ser_objs([ser]))
                ep = d.connect(f)
                ep.feed(bytes([0x7F, (nib << 4) | SER_ID[ser], 0, 0]))
            else:
                f = rs.WampRawSocketClientFactory(lambda: RecSession(log), serializer=ser_objs([ser])[0])
                ep = d.connect(f)
                d.settle()
                ep.take()
                ep.feed(bytes([0x7F, (nib << 4) | SER_ID[ser], 0, 0]))
            d.settle()
            ep.take()
            case = {"check": "announced", "role": role, "nibble": nib, "ser": ser}
            tr = [x[1] for x in log if x[0] == "open"]
            if len(tr) != 1:
                raise Violation("C13|announced|session-not-attached", "log %r escaped %r" % (log[:2], ep.escaped), case)
            tr = tr[0]
            ser_obj = tr._serializer
            for delta in (-1, 0, 1, 2 * limit):
                m, size = sized_message(ser_obj, limit + delta)
                before = len(ep.t.written)
                try:
                    d.call(lambda m=m: tr.send(m))
                    raised = None
                except (PayloadExceededError, SerializationError, ValueError) as e:
                    raised = e
                except Exception as e:
                    if in_autobahn(e):
                        raise Violation("C13|announced|send-raised|" + exc_key(e), repr(e), dict(case, size=size))
                    raise
                d.settle()
                wrote = b"".join(dta for _, dta in ep.t.written[before:])
                if size > limit:
                    if wrote:
                        raise Violation("C13|traffic|over-limit-message-sent", "rs/%s %s: %d octets written for a message of %d octets although the peer announced %d" % (
                            ser, role, len(wrote), size, limit), dict(case, size=size))
                    if raised is None:
                        raise Violation("C13|traffic|over-limit-send-silently-dropped", "size %d limit %d: no exception" % (size, limit), dict(case, size=size))
                else:
                    if raised is not None:
                        raise Violation("C13|traffic|within-limit-send-refused|" + exc_key(raised), "size %d limit %d: %r" % (size, limit, raised), dict(case, size=size))
                    if len(wrote) != 4 + size or struct.unpack("!L", wrote[:4])[0] != size or wrote[4:] != ser_obj.serialize(m)[0]:
                        raise Violation("C13|announced|frame-differs", "size %d: wrote %d octets, prefix %r" % (size, len(wrote), wrote[:4]), dict(case, size=size))
                col.case(True, enum=True, cls=["announced/%s" % role, "announced/" + ("over" if size > limit else "within")],
                         sample=dict(case, size=size) if delta == 1 else None)
            if ep.escaped or d.loop_errors:
                raise Violation("C13|announced|exception-escaped", repr((ep.escaped or d.loop_errors)[0])[:300], case)
    d.close()
    col.exhaustive.append("RawSocket announced maximum: {client, server} x length nibbles 0..%d x sizes limit-1/limit/limit+1/3*limit" % top)


# ---------------------------------------------------------------- (d) corruption

def corruption(col, seed, n):
    from hypothesis import strategies as st
    strat = st.fixed_dictionaries({
        "kind": st.sampled_from(["rs", "ws"]), "ser": st.sampled_from(SERS), "victim": st.sampled_from(["server", "client"]),
        "fault": st.sampled_from(["flip-frame-type", "garbage-payload", "truncated-payload", "unknown-type", "protocol-error-in-session", "exception-in-onMessage",
                                  "exception-in-onOpen", "exception-in-onClose", "empty-payload", "not-a-list"]),
        "n_before": st.integers(0, 3), "split": st.sampled_from([1, 2, 4])})

    def body(c):
        check_corruption(c)
        col.case(True, dig=c, cls=["corrupt/%s/%s" % (c["kind"], c["fault"])], sample=c)
    run_hypothesis(col, "corrupt", strat, body, n, seed)


def check_corruption(c):
    """a library endpoint (the victim) talks to the scripted raw peer; a fault is injected after n_before valid messages"""
    from harness import drv, wsutil, ref6455, wamptx
    from autobahn.wamp.exception import ProtocolError
    rs, ws = _mods()
    d = drv.get_driver()
    try:
        log = []
        fault = c["fault"]
        raise_in = {}
        if fault == "protocol-error-in-session":
            raise_in["onMessage"] = (c["n_before"] + 1, ProtocolError("out of phase"))
        if fault == "exception-in-onMessage":
            raise_in["onMessage"] = (c["n_before"] + 1, RuntimeError("session bug"))
        if fault == "exception-in-onOpen":
            raise_in["onOpen"] = RuntimeError("onOpen bug")
        if fault == "exception-in-onClose":
            raise_in["onClose"] = RuntimeError("onClose bug")
        ser = c["ser"]
        server = c["victim"] == "server"
        mk = b"\x01\x02\x03\x04" if server else None
        if c["kind"] == "rs":
            f = (rs.WampRawSocketServerFactory(lambda: RecSession(log, raise_in), serializers=ser_objs([ser])) if server
                 else rs.WampRawSocketClientFactory(lambda: RecSession(log, raise_in), serializer=ser_objs([ser])[0]))
            ep = d.connect(f)
            d.settle()
            ep.take()
            ep.feed(bytes([0x7F, 0xF0 | SER_ID[ser], 0, 0]))
        else:
            kw = {"reactor": d.clock} if d.fw == "twisted" else {"loop": d.loop}
            if server:
                f = ws.WampWebSocketServerFactory(lambda: RecSession(log, raise_in), url="ws://localhost:9000", serializers=ser_objs([ser]), **kw)
                f.setProtocolOptions(openHandshakeTimeout=0, closeHandshakeTimeout=0, failByDrop=False)
                ep = d.connect(f)
                ep.feed(wsutil.raw_request(protocols=["wamp.2." + ser]))
            else:
                f = ws.WampWebSocketClientFactory(lambda: RecSession(log, raise_in), url="ws://localhost:9000", serializers=ser_objs([ser]), **kw)
                f.setProtocolOptions(openHandshakeTimeout=0, closeHandshakeTimeout=0, failByDrop=False, serverConnectionDropTimeout=0)
                ep = d.connect(f)
                d.settle()
                key = dict(wsutil.split_http(ep.take())[1]).get("sec-websocket-key")
                ep.feed(wsutil.raw_response(key, protocol="wamp.2." + ser))
        d.settle()
        ep.take()
        opened = [x for x in log if x[0] == "open"]
        if fault == "exception-in-onOpen":
            # the session failed while attaching: the transport must be closed, nothing escapes
            pass
        elif len(opened) != 1:
            raise Violation("C13|corrupt|valid-handshake-did-not-attach", "%s %s %s: log %r escaped %r" % (c["kind"], c["victim"], ser, log[:2], ep.escaped), c)

        def frame(payload, binary_flag=None):
            if c["kind"] == "rs":
                return struct.pack("!L", len(payload)) + payload
            b = wamptx.binary(ser) if binary_flag is None else binary_flag
            return ref6455.encode_frame(2 if b else 1, payload, mask=mk)
        valid = wamptx.dumps(ser, [17, 5, 6])      # PUBLISHED
        stream = b"".join(frame(valid) for _ in range(c["n_before"]))
        if fault == "flip-frame-type":
            if c["kind"] == "rs":
                # a reserved frame type (3..7) in the first octet of the length prefix (1 and 2 are RawSocket PING / PONG: legal frames the statement
                # says nothing about - not generated)
                bad = bytes([(0x07, 0x03, 0x04, 0x05, 0x06)[(c["n_before"] + c["split"]) % 5]]) + struct.pack("!L", len(valid))[1:] + valid
            else:
                bad = frame(valid, binary_flag=not wamptx.binary(ser))
        elif fault == "garbage-payload":
            bad = frame(b"\xc1\xff\x00garbage\x1c")
        elif fault == "truncated-payload":
            bad = frame(valid[:-1])
        elif fault == "unknown-type":
            bad = frame(wamptx.dumps(ser, [255, 1, 2]))
        elif fault == "empty-payload":
            bad = frame(b"")
        elif fault == "not-a-list":
            bad = frame(wamptx.dumps(ser, {"a": 1}))
        else:
            bad = frame(valid)        # the session itself fails on this message / on close
        stream += bad + frame(valid)
        if not ep.loss_delivered:
            feed_split(ep, stream, c["split"]) if len(stream) < 4000 else ep.feed(stream)
        d.settle()
        out = ep.take()
        if not ep.loss_delivered and ep.drop_requested:
            ep.deliver_loss("aborted" if ep.drop_requested == "abort" else "done")
        elif not ep.loss_delivered and fault == "exception-in-onClose":
            ep.deliver_loss("lost")
        d.settle()
        esc = [e for e in list(ep.escaped) + list(d.loop_errors)]
        if esc and not (c["kind"] == "rs" and d.fw == "twisted" and "PayloadExceededError" in repr(esc[0])):
            e = esc[0]
            ek = exc_key(e) if isinstance(e, Exception) else ("loop|" + (exc_key(e.get("exception")) if isinstance(e, dict) and e.get("exception") else "?"))
            raise Violation("C13|corrupt|exception-escaped|%s|%s|%s" % (c["kind"], fault, ek), repr(e)[:300], c)
        msgs = [x for x in log if x[0] == "msg"]
        closes = [x for x in log if x[0] == "close"]
        if fault == "exception-in-onClose":
            if len(closes) != 1:
                raise Violation("C13|corrupt|onClose-count|" + fault, repr(closes), c)
            return
        limit_msgs = c["n_before"] + (1 if fault in ("protocol-error-in-session", "exception-in-onMessage") else 0)
        if fault == "exception-in-onOpen":
            limit_msgs = 0 if c["kind"] == "ws" else limit_msgs
        # (messages that were already buffered behind the corrupt one may still reach the session before the loss is delivered: not asserted)
        if not ep.loss_delivered:
            # WebSocket: the closing handshake was started (close frame written); RawSocket must have aborted
            allout = ep.t.all_written()
            allout = allout.split(b"\r\n\r\n", 1)[1] if b"\r\n\r\n" in allout else allout
            frames = ref6455.parse_frames(allout)[0] if c["kind"] == "ws" else []
            cl = [f_ for f_ in frames if f_.opcode == 8]
            if c["kind"] == "rs" or not cl:
                raise Violation("C13|corrupt|transport-not-closed|%s|%s" % (c["kind"], fault), "corrupt input did not close the transport (log %r)" % ([x[0] for x in log],), c)
            code = struct.unpack("!H", cl[0].payload[:2])[0] if len(cl[0].payload) >= 2 else None
            want = 1011 if fault in ("exception-in-onMessage", "exception-in-onOpen") else 1002
            if code != want and not (fault == "exception-in-onOpen"):
                raise Violation("C13|corrupt|wrong-close-status|%s|expected%d-got%s" % (fault, want, code), "", c)
            # peer completes the closing handshake / drops
            ep.deliver_loss("done")
            d.settle()
            closes = [x for x in log if x[0] == "close"]
        if opened and len(closes) != 1 and fault != "exception-in-onOpen":
            raise Violation("C13|corrupt|onClose-count-%d|%s" % (len(closes), fault), "session told %d times that the transport is gone" % len(closes), c)
        if fault == "exception-in-onOpen" and len(closes) != 1:
            raise Violation("C13|corrupt|onClose-count-%d|%s|%s" % (len(closes), fault, c["kind"]), "session took the transport in onOpen and then failed: told %d times that the transport is gone" % len(closes), c)
    finally:
        d.close()


def replay_coalesced(c):
    from harness import drv
    d = drv.get_driver()
    try:
        coalesced_one(d, c["kind"], c["role"], c["ser"], tuple(c["cuts"]))
    finally:
        d.close()


def replay(col, case):
    case = dec(case)
    c = case.get("case", case)
    kind = c.get("check")
    if kind == "rs-hs":
        from harness import drv
        rs, _ = _mods()
        d = drv.get_driver()
        hs, log = c["hs"], []
        if c["role"] == "server":
            f = rs.WampRawSocketServerFactory(lambda: RecSession(log), serializers=ser_objs(c["set"]))
            ep = d.connect(f)
            ok = hs[0] == 0x7F and (hs[1] & 0x0F) in [SER_ID[x] for x in c["set"]]
            want = hs[1] & 0x0F
        else:
            f = rs.WampRawSocketClientFactory(lambda: RecSession(log), serializer=ser_objs([c["ser"]])[0])
            ep = d.connect(f)
            d.settle()
            ep.take()
            ok = hs[0] == 0x7F and (hs[1] & 0x0F) == SER_ID[c["ser"]]
            want = SER_ID[c["ser"]]
        feed_split(ep, hs, c.get("split", 1))
        d.settle()
        judge_rs_hs(col, d, ep, log, c, ok, hs[2:] != b"\x00\x00", want_ser=want, server=c["role"] == "server")
        d.close()
        return
    if kind == "ws-sub":
        ws_subprotocols(col, 1, 0, only=(c["client"], c["server"]))
        return
    if kind == "coalesced":
        replay_coalesced(c)
        col.case()
        return
    if kind == "announced":
        announced_limits(col, max(11, c.get("nibble", 0)), 0)
        announced_limits(col, max(11, c.get("nibble", 0)), SERS.index(c["ser"]) if c.get("ser") in SERS else 1)
        return
    c.pop("check", None)
    if "fault" in c:
        check_corruption(c)
    elif "deltas" in c:
        c["msgs"] = [tuple(m) for m in c["msgs"]]
        check_traffic(c)
    col.case()
