"""C04 - each WAMP request completes exactly once with its own reply."""
from harness.core import Violation, HarnessError, run_hypothesis, run_machine, dec, exc_key, brief, in_autobahn

DESCRIPTION = {
    "level": "exploration",
    "rule": ("Hypothesis RuleBasedStateMachine over one joined ApplicationSession on an in-memory ITransport (every sent message goes through a real serializer round trip), "
             "Twisted Deferreds and asyncio Futures.  Rules: call / publish (acknowledged or not) / subscribe / unsubscribe / register / unregister with generated URI, args, "
             "kwargs and options; router replies drawn from the model's pending set in any order with kind in {success, error, progressive, duplicate of an answered id, unknown "
             "id, wrong reply type for that id}; unrelated EVENTs and INVOCATIONs interleaved.  Oracle after every step: the transport log grew by exactly the expected "
             "message; request ids are 1,2,3.. in issue order; the message carries the given URI/args/kwargs and the option attributes computed by an independent option->wire (an explicitly empty black-/whitelist is kept: it is not the same as an absent option) "
             "table; each returned Deferred/Future completes at most once, exactly once after its matching reply, with the reply's content (result shape rules) or an "
             "ApplicationError with the reply's URI/args/kwargs; no other pending result changes state; progressive results reach only that call's on_progress; duplicate / "
             "unknown / wrong-type replies raise ProtocolError and complete nothing.  Exhaustive cross-type job: each of the 6 request kinds pending alone x each of the 5 other reply types x {success form, ERROR form} x 3 "
             "serializers - the wrong-type reply bearing the pending id is a protocol violation and the genuine reply still completes the request.  Enumerated synchronous-router job: the reply (success or ERROR) is delivered while transport.send() of the request is still running, for all "
             "six kinds: the request completes exactly once, a second copy is rejected.  IdGenerator is checked directly around 2^53.  Every wire option of the four option objects (transaction_hash, caller / caller_authid / caller_authrole, forward_for, get_retained, concurrency, force_reregister, the invoke policies) is drawn independently and must be on the request exactly as given (absent ones absent).  Enumerated progress_grid job: 2-3 calls outstanding x subsets with a progress handler x details x every order of progressive results x 2 orders of final results - every progressive result reaches the handler of exactly its own call, nothing completes early.  unregister() may be repeated while an earlier UNREGISTER for the same registration is unanswered (also enumerated: 2-3 outstanding x every reply order x UNREGISTERED/ERROR).  Enumerated decorated_objects job: register(obj)/subscribe(obj) of an object with three decorated methods x which of them carry decorator-level options x options passed to the call: each request carries its own decorator's options, else the call's.  Non-trivial = >=2 outstanding requests of "
             "different kinds answered in non-issue order; distinct by digest of the operation sequence. Send faults (enumerated): for each of the six request kinds the transport's send() fails (message above the size limit, unserializable, transport gone): the call fails, nothing is written, the request is gone - a later reply bearing its id (success or ERROR form) is a protocol violation - other pending requests are untouched and the next request completes normally. Duplicate and unknown-id replies to calls are also sent in their progressive form (RESULT progress=true for a call that is no longer, or never was, pending)."),
    "assumptions": ["a progressive result for a call that did not ask for progress is a router fault: ignoring it and rejecting it are both accepted, completing the call with it is not"],
}

TWO53 = 9007199254740992


def plan(tier, seed):
    n = 150 if tier == "quick" else 1500
    jobs = []
    for i, fw in enumerate(("twisted", "asyncio")):
        for sh in range(3 if tier == "quick" else 8):
            jobs.append({"func": "machine", "fw": fw, "name": "machine/%s/%d" % (fw, sh), "args": {"seed": seed * 1000 + i * 100 + sh, "n": n}})
    for fw in ("twisted", "asyncio"):
        jobs.append({"func": "crosstype", "fw": fw, "name": "crosstype/" + fw, "args": {}})
        jobs.append({"func": "syncreply", "fw": fw, "name": "syncreply/" + fw, "args": {}})
        jobs.append({"func": "progress_grid", "fw": fw, "name": "progress_grid/" + fw, "args": {}})
        jobs.append({"func": "repeat_unregister", "fw": fw, "name": "repeat_unregister/" + fw, "args": {}})
        jobs.append({"func": "decorated_objects", "fw": fw, "name": "decorated_objects/" + fw, "args": {}})
        jobs.append({"func": "send_faults", "fw": fw, "name": "send_faults/" + fw, "args": {}})
    jobs.append({"func": "idgen", "name": "idgen", "args": {"seed": seed * 1000 + 900, "n": 500 if tier == "quick" else 5000}})
    return jobs


def norm(v):
    if isinstance(v, tuple):
        return [norm(x) for x in v]
    if isinstance(v, list):
        return [norm(x) for x in v]
    if isinstance(v, dict):
        return {k: norm(x) for k, x in v.items()}
    return v


class Interp:
    def __init__(self, col, serializer):
        from harness.wampsess import SessionWorld
        self.col = col
        self.w = SessionWorld(serializer=serializer)
        self.w.join()
        self.s = self.w.session
        self.steps = []
        self.cfg = {"serializer": serializer}
        self.next_id = 1
        self.reqs = []          # dicts: kind,id,track,state(pending/done),extra
        self.subs = []          # resolved Subscription objects (model: [sub_obj, handler_log, id])
        self.regs = []
        self.progress_log = {}  # request id -> list
        self.router_ids = 1000
        self.nontrivial = False
        self.kinds_answered_out_of_order = 0

    def fail(self, what, detail):
        self.col.finding("C04|" + what, "%s  [steps=%r]" % (detail, brief(self.steps[-6:])), {"config": self.cfg, "steps": self.steps})

    # ---- helpers
    def snapshot(self):
        return [(r["id"], r["track"].n) for r in self.reqs if r["track"] is not None]

    def expect_sent(self, before, cls_name, rid):
        sent = self.w.t.sent[before:]
        if len(sent) != 1:
            self.fail("api-call-sent-%d-messages" % len(sent), "%s: %r" % (cls_name, [type(m).__name__ for m in sent]))
            return None
        m = sent[0]
        if type(m).__name__ != cls_name:
            self.fail("wrong-message-class", "expected %s got %s" % (cls_name, type(m).__name__))
            return None
        if m.request != rid:
            self.fail("request-id-not-sequential", "%s carries request id %r, expected %d" % (cls_name, m.request, rid))
        if not (1 <= m.request <= TWO53):
            self.fail("request-id-out-of-range", repr(m.request))
        return m

    def check_payload(self, m, args, kwargs, what):
        a = norm(m.args) or []
        k = norm(m.kwargs) or {}
        if a != norm(list(args)) or k != norm(kwargs):
            self.fail("payload-not-faithful|" + what, "sent args=%r kwargs=%r, given args=%r kwargs=%r" % (brief(m.args), brief(m.kwargs), brief(args), brief(kwargs)))

    def guarded_api(self, fn, what):
        try:
            return self.w.call(fn), None
        except (Violation, HarnessError):
            raise
        except Exception as e:
            return None, e

    # ---- steps
    def apply(self, step):
        from harness import core as _core
        if _core.STALLED[0] is not None:
            raise _core.STALLED[0]
        with _core.cpu_guard({"config": getattr(self, "cfg", None) or getattr(self, "config", None), "steps": self.steps}, "step"):
            self._apply(step)

    def _apply(self, step):
        self.steps.append(step)
        getattr(self, "do_" + step[0])(*step[1:])
        self.w.settle()
        if self.w.d.loop_errors:
            e = self.w.d.loop_errors[0]
            self.w.d.loop_errors[:] = []
            self.fail("loop-exception", repr(e)[:300])

    def do_call(self, proc, args, kwargs, opts):
        from autobahn.wamp.types import CallOptions
        rid = self.next_id
        plog = []
        self.progress_log[rid] = plog
        o = None
        if any(v is not None and v is not False for v in opts.values()):
            o = CallOptions(on_progress=(lambda *a, **k: plog.append((a, k))) if opts.get("on_progress") else None, timeout=opts.get("timeout"),
                            details=True if opts.get("details") else None, **{k: opts[k] for k in CALL_EXTRA if opts.get(k) is not None})
        before = len(self.w.t.sent)
        snap = self.snapshot()
        kw = dict(kwargs)
        if o is not None:
            kw["options"] = o
        fut, err = self.guarded_api(lambda: self.s.call(proc, *args, **kw), "call")
        if err is not None:
            self.fail("call-raised|" + exc_key(err), "call(%r, options=%r) raised %r" % (proc, opts, err))
            return
        self.next_id += 1
        m = self.expect_sent(before, "Call", rid)
        if m is not None:
            if m.procedure != proc:
                self.fail("uri-not-faithful|call", "%r vs %r" % (m.procedure, proc))
            self.check_payload(m, args, kwargs, "call")
            if bool(m.receive_progress) != bool(opts.get("on_progress")):
                self.fail("option-not-faithful|call.receive_progress", "%r for on_progress=%r" % (m.receive_progress, opts.get("on_progress")))
            if m.timeout != opts.get("timeout"):
                self.fail("option-not-faithful|call.timeout", "%r vs %r" % (m.timeout, opts.get("timeout")))
            self.check_extra(m, opts, CALL_EXTRA, "call")
        tr = self.w.track(fut)
        self.reqs.append({"kind": "call", "id": rid, "track": tr, "state": "pending", "opts": opts, "uri": proc})
        self.unchanged(snap, None)

    def do_publish(self, topic, args, kwargs, opts):
        from autobahn.wamp.types import PublishOptions
        rid = self.next_id
        o = PublishOptions(**{k: v for k, v in opts.items() if v is not None}) if any(v is not None for v in opts.values()) else None
        before = len(self.w.t.sent)
        snap = self.snapshot()
        kw = dict(kwargs)
        if o is not None:
            kw["options"] = o
        fut, err = self.guarded_api(lambda: self.s.publish(topic, *args, **kw), "publish")
        if err is not None:
            self.fail("publish-raised|" + exc_key(err), "publish(%r, options=%r) raised %r" % (topic, opts, err))
            return
        self.next_id += 1
        m = self.expect_sent(before, "Publish", rid)
        if m is not None:
            if m.topic != topic:
                self.fail("uri-not-faithful|publish", "%r vs %r" % (m.topic, topic))
            self.check_payload(m, args, kwargs, "publish")
            for k, v in opts.items():
                want = v
                if k.startswith(("exclude", "eligible")) and k != "exclude_me" and v is not None and not isinstance(v, list):
                    want = [v]
                got = getattr(m, k)
                if k.startswith(("exclude", "eligible")) and k != "exclude_me":
                    # black-/whitelists: an explicitly empty list ("nobody") is not the same as an absent option
                    if got != want:
                        self.fail("option-not-faithful|publish." + k, "wire %r for option %r" % (got, v))
                elif (got or None) != (want or None) and not (got is False and want is None) and got != want:
                    self.fail("option-not-faithful|publish." + k, "wire %r for option %r" % (got, v))
        if opts.get("acknowledge"):
            if fut is None:
                self.fail("acknowledged-publish-returned-no-future", "")
                return
            tr = self.w.track(fut)
            self.reqs.append({"kind": "publish", "id": rid, "track": tr, "state": "pending", "uri": topic})
        else:
            if fut is not None:
                self.fail("unacknowledged-publish-returned-future", repr(fut))
        self.unchanged(snap, None)

    def check_extra(self, m, opts, names, what):
        """every wire option given through the options object is on the request message, and none that was not given"""
        for k in names:
            want, got = opts.get(k), getattr(m, k)
            if got != want or type(got) is not type(want):
                self.fail("option-not-faithful|%s.%s" % (what, k), "wire %r for option %r (all options %r)" % (got, want, opts))

    def do_subscribe(self, topic, match, details, extra=None):
        from autobahn.wamp.types import SubscribeOptions
        rid = self.next_id
        hlog = []
        extra = extra or {}
        o = SubscribeOptions(match=match, details=True if details else None, **{k: v for k, v in extra.items() if v is not None}) if (match or details or any(v is not None for v in extra.values())) else None
        before = len(self.w.t.sent)
        snap = self.snapshot()
        fut, err = self.guarded_api(lambda: self.s.subscribe(lambda *a, **k: hlog.append((a, k)), topic, o), "subscribe")
        if err is not None:
            self.fail("subscribe-raised|" + exc_key(err), repr(err))
            return
        self.next_id += 1
        m = self.expect_sent(before, "Subscribe", rid)
        if m is not None:
            if m.topic != topic:
                self.fail("uri-not-faithful|subscribe", "%r vs %r" % (m.topic, topic))
            if (m.match or "exact") != (match or "exact"):
                self.fail("option-not-faithful|subscribe.match", "%r vs %r" % (m.match, match))
            self.check_extra(m, extra, SUB_EXTRA, "subscribe")
        self.reqs.append({"kind": "subscribe", "id": rid, "track": self.w.track(fut), "state": "pending", "uri": topic, "hlog": hlog})
        self.unchanged(snap, None)

    def do_register(self, proc, match, invoke, extra=None):
        from autobahn.wamp.types import RegisterOptions
        rid = self.next_id
        extra = extra or {}
        o = RegisterOptions(match=match, invoke=invoke, **{k: v for k, v in extra.items() if v is not None}) if (match or invoke or any(v is not None for v in extra.values())) else None
        before = len(self.w.t.sent)
        snap = self.snapshot()
        fut, err = self.guarded_api(lambda: self.s.register(lambda *a, **k: 42, proc, o), "register")
        if err is not None:
            self.fail("register-raised|" + exc_key(err), repr(err))
            return
        self.next_id += 1
        m = self.expect_sent(before, "Register", rid)
        if m is not None:
            if m.procedure != proc:
                self.fail("uri-not-faithful|register", "%r vs %r" % (m.procedure, proc))
            if (m.match or "exact") != (match or "exact") or (m.invoke or "single") != (invoke or "single"):
                self.fail("option-not-faithful|register", "match %r/%r invoke %r/%r" % (m.match, match, m.invoke, invoke))
            self.check_extra(m, extra, REG_EXTRA, "register")
        self.reqs.append({"kind": "register", "id": rid, "track": self.w.track(fut), "state": "pending", "uri": proc})
        self.unchanged(snap, None)

    def do_unsubscribe(self, k):
        live = [s for s in self.subs if s["obj"].active]
        if not live:
            return
        sub = live[k % len(live)]
        same = [s for s in live if s["obj"].id == sub["obj"].id]
        rid = self.next_id
        before = len(self.w.t.sent)
        snap = self.snapshot()
        fut, err = self.guarded_api(lambda: sub["obj"].unsubscribe(), "unsubscribe")
        if err is not None:
            self.fail("unsubscribe-raised|" + exc_key(err), repr(err))
            return
        if len(same) == 1:
            self.next_id += 1
            m = self.expect_sent(before, "Unsubscribe", rid)
            if m is not None and m.subscription != sub["obj"].id:
                self.fail("unsubscribe-wrong-subscription-id", "%r vs %r" % (m.subscription, sub["obj"].id))
            self.reqs.append({"kind": "unsubscribe", "id": rid, "track": self.w.track(fut), "state": "pending"})
        else:
            if len(self.w.t.sent) != before:
                self.fail("unsubscribe-sent-although-handlers-remain", "")
        self.unchanged(snap, None)

    def do_unregister(self, k):
        live = [r for r in self.regs if r["obj"].active]
        if not live:
            return
        reg = live[k % len(live)]
        # unregister() may be called again while an earlier UNREGISTER for the same registration is unanswered (the registration stays active
        # until the reply): every such request is a request of its own and completes with its own reply
        if reg.get("unregistering", 0) >= 3:
            return
        rid = self.next_id
        before = len(self.w.t.sent)
        snap = self.snapshot()
        fut, err = self.guarded_api(lambda: reg["obj"].unregister(), "unregister")
        if err is not None:
            self.fail("unregister-raised|" + exc_key(err), repr(err))
            return
        self.next_id += 1
        reg["unregistering"] = reg.get("unregistering", 0) + 1
        m = self.expect_sent(before, "Unregister", rid)
        if m is not None and m.registration != reg["obj"].id:
            self.fail("unregister-wrong-registration-id", "%r vs %r" % (m.registration, reg["obj"].id))
        self.reqs.append({"kind": "unregister", "id": rid, "track": self.w.track(fut), "state": "pending"})
        self.unchanged(snap, None)

    def unchanged(self, snap, except_id):
        now = dict(self.snapshot())
        for rid, n in snap:
            if rid != except_id and now.get(rid) != n:
                self.fail("unrelated-request-completed", "request %d changed completion count %d -> %r" % (rid, n, now.get(rid)))
        for r in self.reqs:
            if r["track"].n > 1:
                self.fail("request-completed-twice", "request %d (%s) completed %d times" % (r["id"], r["kind"], r["track"].n))

    REQ_TYPE = {"call": 48, "publish": 16, "subscribe": 32, "unsubscribe": 34, "register": 64, "unregister": 66}

    def do_reply(self, idx, kind, args, kwargs, uri):
        M = self.w.message
        pending = [r for r in self.reqs if r["state"] == "pending"]
        done = [r for r in self.reqs if r["state"] == "done"]
        snap = self.snapshot()
        before_sent = len(self.w.t.sent)
        if kind in ("success", "error", "progressive", "wrongtype") and not pending:
            return
        if kind == "duplicate" and not done:
            return
        if kind in ("success", "error", "progressive", "wrongtype"):
            r = pending[idx % len(pending)]
            if pending.index(r) != 0 and len(set(p["kind"] for p in pending)) >= 2:
                self.nontrivial = True
        if kind == "success":
            msg, expect = self.success_msg(r, args, kwargs)
            err = self.w.feed(msg)
            if err is not None:
                self.fail("valid-reply-raised|%s|%s" % (r["kind"], exc_key(err)), "%s reply for request %d raised %r" % (r["kind"], r["id"], err))
                r["state"] = "done"
                return
            r["state"] = "done"
            tr = r["track"]
            if tr.n != 1:
                self.fail("request-not-completed-by-its-reply|" + r["kind"], "request %d completion count %d" % (r["id"], tr.n))
            elif not tr.ok:
                self.fail("success-reply-failed-the-request|" + r["kind"], repr(tr.value))
            else:
                expect(tr.value)
            self.unchanged(snap, r["id"])
        elif kind == "error":
            msg = M.Error(self.REQ_TYPE[r["kind"]], r["id"], uri, args=list(args) or None, kwargs=dict(kwargs) or None)
            err = self.w.feed(msg)
            r["state"] = "done"
            if err is not None:
                self.fail("valid-error-reply-raised|%s|%s" % (r["kind"], exc_key(err)), repr(err))
                return
            tr = r["track"]
            from autobahn.wamp.exception import ApplicationError
            if tr.n != 1 or tr.ok:
                self.fail("error-reply-did-not-fail-the-request|" + r["kind"], "n=%d ok=%r" % (tr.n, tr.ok))
            elif not isinstance(tr.value, ApplicationError) or tr.value.error != uri or norm(list(tr.value.args)) != norm(list(args)) or norm(tr.value.kwargs) != norm(kwargs):
                self.fail("error-content-differs|" + r["kind"], "got %r (args=%r kwargs=%r), reply had %r %r %r" % (
                    tr.value, getattr(tr.value, "args", None), getattr(tr.value, "kwargs", None), uri, args, kwargs))
            if r["kind"] == "unregister":
                for g in self.regs:
                    g.pop("unregistering", None)
            self.unchanged(snap, r["id"])
        elif kind == "progressive":
            if r["kind"] != "call":
                return
            if not r["opts"].get("on_progress"):
                # a router sending a progressive result that the call did not ask for: it may be ignored or rejected, but it is not the call's result
                from autobahn.wamp.exception import ProtocolError
                msg = M.Result(r["id"], args=list(args) or None, kwargs=dict(kwargs) or None, progress=True)
                err = self.w.feed(msg)
                if err is not None and not isinstance(err, ProtocolError):
                    self.fail("progressive-result-raised|" + exc_key(err), "unrequested progressive result: %r" % (err,))
                if r["track"].n:
                    self.fail("progressive-result-completed-the-call", "a RESULT with progress=true completed call %d, which has no progress handler (value %r)" % (r["id"], r["track"].value))
                self.unchanged(snap, None)
                return
            plog = self.progress_log[r["id"]]
            n0 = len(plog)
            others = {k: len(v) for k, v in self.progress_log.items() if k != r["id"]}
            msg = M.Result(r["id"], args=list(args) or None, kwargs=dict(kwargs) or None, progress=True)
            err = self.w.feed(msg)
            if err is not None:
                self.fail("progressive-result-raised|" + exc_key(err), "details=%r args=%r kwargs=%r: %r" % (r["opts"].get("details"), args, kwargs, err))
                return
            if self.w.user_errors:
                e = self.w.user_errors.pop()
                self.fail("progressive-result-handler-error|" + (exc_key(e[0]) if isinstance(e[0], Exception) else "?"), repr(e)[:200])
                return
            if len(plog) != n0 + 1:
                self.fail("progress-not-delivered-to-its-handler", "call %d: handler invocations %d -> %d" % (r["id"], n0, len(plog)))
            else:
                a, k = plog[-1]
                if r["opts"].get("details"):
                    from autobahn.wamp.types import CallResult
                    if len(a) != 1 or not isinstance(a[0], CallResult) or norm(list(a[0].results)) != norm(list(args)) or norm(a[0].kwresults) != norm(kwargs):
                        self.fail("progress-content-differs", "details mode: got %r" % (a,))
                elif norm(list(a)) != norm(list(args)) or norm(k) != norm(kwargs):
                    self.fail("progress-content-differs", "got %r %r expected %r %r" % (a, k, args, kwargs))
            for k2, v2 in others.items():
                if len(self.progress_log[k2]) != v2:
                    self.fail("progress-delivered-to-other-call", "call %d got the progress of call %d" % (k2, r["id"]))
            if r["track"].n:
                self.fail("progressive-result-completed-the-call", "")
            self.unchanged(snap, None)
        else:
            # duplicate / unknown / wrongtype: must raise ProtocolError and complete nothing
            from autobahn.wamp.exception import ProtocolError
            if kind == "duplicate":
                r = done[idx % len(done)]
                msg, _ = self.success_msg(r, args, kwargs, again=True)
                tag = "duplicate|" + r["kind"]
            elif kind == "unknown":
                fake = {"kind": ["call", "publish", "subscribe", "unsubscribe", "register", "unregister"][idx % 6], "id": self.next_id + 50 + idx}
                msg, _ = self.success_msg(fake, args, kwargs, again=True)
                tag = "unknown|" + fake["kind"]
            else:
                other = [k for k in self.REQ_TYPE if k != r["kind"]][idx % 5]
                if idx % 2 == 0:
                    msg, _ = self.success_msg({"kind": other, "id": r["id"]}, args, kwargs, again=True)
                else:
                    msg = M.Error(self.REQ_TYPE[other], r["id"], uri)
                tag = "wrongtype|%s-for-%s" % (other, r["kind"])
            if kind in ("duplicate", "unknown") and type(msg).__name__ == "Result" and (len(args) + idx) % 2 == 1:
                # ... also in its progressive form: a progressive RESULT for a call that is no longer (or never was) pending matches nothing either
                msg = M.Result(msg.request, args=list(args) or None, kwargs=dict(kwargs) or None, progress=True)
                tag += "|progressive"
            # a reply of another type whose id happens to be pending for *that* type is a legitimate reply: skip those
            if kind == "wrongtype" and any(p["id"] == r["id"] and p["kind"] == other for p in pending):
                return
            err = self.w.feed(msg)
            if err is None:
                self.fail("unmatched-reply-not-rejected|" + tag, "%s was accepted silently" % type(msg).__name__)
            elif not isinstance(err, ProtocolError):
                self.fail("unmatched-reply-raised-other-exception|%s|%s" % (tag, exc_key(err)), repr(err))
            self.unchanged(snap, None)
        if len(self.w.t.sent) != before_sent:
            self.fail("reply-caused-send", repr([type(m).__name__ for m in self.w.t.sent[before_sent:]]))

    def success_msg(self, r, args, kwargs, again=False):
        M = self.w.message
        from autobahn.wamp import types, request
        self.router_ids += 1
        rid2 = self.router_ids
        k = r["kind"]
        if k == "call":
            msg = M.Result(r["id"], args=list(args) or None, kwargs=dict(kwargs) or None)
            details = (r.get("opts") or {}).get("details")

            def expect(v):
                if kwargs or details:
                    if not isinstance(v, types.CallResult) or norm(list(v.results)) != norm(list(args)) or norm(v.kwresults) != norm(kwargs):
                        self.fail("result-content-differs|call", "got %r (results=%r kw=%r) expected args=%r kwargs=%r" % (v, getattr(v, "results", None), getattr(v, "kwresults", None), args, kwargs))
                elif len(args) > 1:
                    if not isinstance(v, types.CallResult) or norm(list(v.results)) != norm(list(args)):
                        self.fail("result-content-differs|call", "got %r expected CallResult(%r)" % (v, args))
                elif len(args) == 1:
                    if norm(v) != norm(args[0]) or type(v) != type(args[0]) and not isinstance(v, (list, dict)):
                        self.fail("result-content-differs|call", "got %r expected %r" % (v, args[0]))
                elif v is not None:
                    self.fail("result-content-differs|call", "got %r expected None" % (v,))
        elif k == "publish":
            msg = M.Published(r["id"], rid2)

            def expect(v):
                if not isinstance(v, request.Publication) or v.id != rid2:
                    self.fail("result-content-differs|publish", repr(v))
        elif k == "subscribe":
            # sometimes reuse an existing subscription id (several handlers per id)
            ids = [s["obj"].id for s in self.subs if s["obj"].active]
            sid = ids[rid2 % len(ids)] if ids and rid2 % 3 == 0 else rid2
            msg = M.Subscribed(r["id"], sid)

            def expect(v):
                if not isinstance(v, request.Subscription) or v.id != sid or v.topic != r["uri"]:
                    self.fail("result-content-differs|subscribe", repr(v))
                else:
                    self.subs.append({"obj": v, "hlog": r["hlog"]})
        elif k == "register":
            msg = M.Registered(r["id"], rid2)

            def expect(v):
                if not isinstance(v, request.Registration) or v.id != rid2 or v.procedure != r["uri"]:
                    self.fail("result-content-differs|register", repr(v))
                else:
                    self.regs.append({"obj": v})
        elif k == "unsubscribe":
            msg = M.Unsubscribed(r["id"])

            def expect(v):
                pass
        else:
            msg = M.Unregistered(r["id"])

            def expect(v):
                pass
        return msg, expect

    def do_event(self, k, args, kwargs):
        live = [s for s in self.subs if s["obj"].active]
        if not live:
            return
        sub = live[k % len(live)]
        snap = self.snapshot()
        err = self.w.feed(self.w.message.Event(sub["obj"].id, 777, args=list(args) or None, kwargs=dict(kwargs) or None))
        if err is not None:
            self.fail("event-raised|" + exc_key(err), repr(err))
        self.unchanged(snap, None)

    def do_invocation(self, k, args, kwargs):
        live = [r for r in self.regs if r["obj"].active]
        if not live:
            return
        reg = live[k % len(live)]
        self.router_ids += 1
        snap = self.snapshot()
        before = len(self.w.t.sent)
        err = self.w.feed(self.w.message.Invocation(self.router_ids, reg["obj"].id, args=list(args) or None, kwargs=dict(kwargs) or None))
        if err is not None:
            self.fail("invocation-raised|" + exc_key(err), repr(err))
        sent = self.w.t.sent[before:]
        if len(sent) != 1 or type(sent[0]).__name__ != "Yield" or sent[0].request != self.router_ids:
            self.fail("invocation-not-answered-by-one-yield", repr([type(m).__name__ for m in sent]))
        self.unchanged(snap, None)

    def teardown(self):
        self.w.close()


CALL_EXTRA = ("transaction_hash", "caller", "caller_authid", "caller_authrole", "forward_for")
SUB_EXTRA = ("get_retained", "forward_for")
REG_EXTRA = ("concurrency", "force_reregister", "forward_for")


def make_machine_factory(col):
    from hypothesis import strategies as st
    from hypothesis.stateful import RuleBasedStateMachine, rule, initialize
    from harness import wampwire as W
    uris = st.sampled_from(["com.example.a", "com.example.b", "a.b", "x"])
    vals = st.lists(W.values, max_size=3)
    kws = st.dictionaries(st.sampled_from(["a", "b", "x1", "ü"]), W.values, max_size=3)
    FWD = st.lists(st.fixed_dictionaries({"session": st.sampled_from([1, 7, 2 ** 53]), "authid": st.sampled_from(["joe", "ü"]), "authrole": st.sampled_from(["user", "r"])}), max_size=2)

    def make(holder):
        class M(RuleBasedStateMachine):
            def __init__(self):
                super().__init__()
                self.i = None

            @initialize(ser=st.sampled_from(["json", "cbor", "msgpack"]))
            def start(self, ser):
                self.i = Interp(col, ser)
                holder["config"] = self.i.cfg
                holder["steps"] = self.i.steps

            def ap(self, *step):
                holder["steps"] = self.i.steps
                self.i.apply(step)

            @rule(proc=uris, args=vals, kwargs=kws, opts=st.fixed_dictionaries({"on_progress": st.booleans(), "details": st.booleans(), "timeout": st.sampled_from([None, None, 1, 30]),
                                                                                "transaction_hash": st.sampled_from([None, None, None, "0xabcdef", "h"]), "caller": st.sampled_from([None, None, None, 1, 2 ** 53]),
                                                                                "caller_authid": st.sampled_from([None, None, None, "joe", "ü"]), "caller_authrole": st.sampled_from([None, None, None, "user", "a"]),
                                                                                "forward_for": st.one_of(st.none(), st.none(), st.none(), FWD)}))
            def call(self, proc, args, kwargs, opts):
                self.ap("call", proc, args, kwargs, opts)

            @rule(topic=uris, args=vals, kwargs=kws, opts=st.fixed_dictionaries({
                "acknowledge": st.sampled_from([None, True, True, False]), "exclude_me": st.sampled_from([None, True, False]), "exclude": st.sampled_from([None, None, 7, [1, 2], []]),
                "eligible": st.sampled_from([None, None, None, 9, [3, 4], []]), "exclude_authid": st.sampled_from([None, None, None, "eve", ["x"], []]),
                "eligible_authid": st.sampled_from([None, None, "joe", ["a", "b"], []]), "exclude_authrole": st.sampled_from([None, None, "admin", []]),
                "eligible_authrole": st.sampled_from([None, None, None, "user", ["u", "v"], []]), "retain": st.sampled_from([None, True]),
                "transaction_hash": st.sampled_from([None, None, None, "0xabcdef"]), "forward_for": st.one_of(st.none(), st.none(), st.none(), FWD)}))
            def publish(self, topic, args, kwargs, opts):
                self.ap("publish", topic, args, kwargs, opts)

            @rule(topic=uris, match=st.sampled_from([None, None, "prefix", "wildcard", "exact"]), details=st.booleans(),
                  extra=st.fixed_dictionaries({"get_retained": st.sampled_from([None, None, True, False]), "forward_for": st.one_of(st.none(), st.none(), st.none(), FWD)}))
            def subscribe(self, topic, match, details, extra):
                self.ap("subscribe", topic, match, details, extra)

            @rule(proc=uris, match=st.sampled_from([None, None, "prefix"]), invoke=st.sampled_from([None, None, "roundrobin", "single", "first", "last", "random"]),
                  extra=st.fixed_dictionaries({"concurrency": st.sampled_from([None, None, 1, 3]), "force_reregister": st.sampled_from([None, None, True, False]),
                                               "forward_for": st.one_of(st.none(), st.none(), st.none(), FWD)}))
            def register(self, proc, match, invoke, extra):
                self.ap("register", proc, match, invoke, extra)

            @rule(k=st.integers(0, 20))
            def unsubscribe(self, k):
                self.ap("unsubscribe", k)

            @rule(k=st.integers(0, 20))
            def unregister(self, k):
                self.ap("unregister", k)

            @rule(idx=st.integers(0, 30), kind=st.sampled_from(["success", "success", "success", "error", "progressive", "duplicate", "unknown", "wrongtype"]),
                  args=vals, kwargs=kws, uri=st.sampled_from(["wamp.error.not_authorized", "com.example.error1", "wamp.error.no_such_procedure"]))
            def reply(self, idx, kind, args, kwargs, uri):
                self.ap("reply", idx, kind, args, kwargs, uri)

            @rule(k=st.integers(0, 10), args=vals, kwargs=kws)
            def event(self, k, args, kwargs):
                self.ap("event", k, args, kwargs)

            @rule(k=st.integers(0, 10), args=vals, kwargs=kws)
            def invocation(self, k, args, kwargs):
                self.ap("invocation", k, args, kwargs)

            def teardown(self):
                if self.i is not None:
                    i, self.i = self.i, None
                    i.teardown()
                    kinds = sorted(set(s[0] + (":" + s[2] if s[0] == "reply" else "") for s in i.steps))
                    col.case(i.nontrivial, dig=[i.cfg, i.steps], cls=["ser:" + i.cfg["serializer"]] + kinds, sample={"config": i.cfg, "steps": i.steps[:12]})
        return M
    return make


def machine(col, seed, n):
    run_machine(col, "machine", make_machine_factory(col), n, seed, step_count=40)


def crosstype(col):
    """exhaustive: every request kind pending alone x every other reply type x {success form, ERROR form} x serializer;
    the wrong-type reply bearing the pending id must be a protocol violation, and the genuine reply must still complete the request"""
    U = "com.example.a"
    E = "wamp.error.not_authorized"
    popts = {"acknowledge": True, "exclude_me": None, "exclude": None, "eligible": None, "exclude_authid": None, "eligible_authid": None, "exclude_authrole": None,
             "eligible_authrole": None, "retain": None}
    ok = ("reply", 0, "success", [], {}, E)
    setup = {
        "call": [("call", U, [1], {}, {"on_progress": False, "details": False, "timeout": None})],
        "publish": [("publish", U, [1], {}, popts)],
        "subscribe": [("subscribe", U, None, False)],
        "register": [("register", U, None, None)],
        "unsubscribe": [("subscribe", U, None, False), ok, ("unsubscribe", 0)],
        "unregister": [("register", U, None, None), ok, ("unregister", 0)],
    }
    for ser in ("json", "cbor", "msgpack"):
        for kind in sorted(setup):
            for idx in range(10):
                i = Interp(col, ser)
                try:
                    for st_ in setup[kind] + [("reply", idx, "wrongtype", [7], {}, E), ("reply", 0, "success", [1], {}, E)]:
                        i.apply(st_)
                    pend = [r for r in i.reqs if r["kind"] == kind]
                    if not pend or pend[-1]["track"].n != 1:
                        i.fail("request-not-completed-by-its-reply|%s|after-wrongtype" % kind, "completion count %r" % (pend[-1]["track"].n if pend else None,))
                finally:
                    i.teardown()
                other = [k for k in Interp.REQ_TYPE if k != kind][idx % 5]
                col.case(True, enum=True, cls=["crosstype/%s-pending/%s-%s" % (kind, other, "success-form" if idx % 2 == 0 else "error-form")],
                         sample={"ser": ser, "pending": kind, "reply_type": other, "form": "success" if idx % 2 == 0 else "error"})
    col.exhaustive.append("C04 crosstype: 6 pending kinds x 5 other reply types x 2 forms x 3 serializers")


def progress_grid(col):
    """enumerated: 2-3 calls outstanding at once, each with / without a progress handler, with / without call details; progressive
    results arrive for each call in every order, then the final results in every order.  Every progressive result reaches the handler of
    exactly its own call (do_reply checks the routing, the content and that nothing completes), every final result completes exactly its own call."""
    import itertools
    U = "com.example.a"
    E = "wamp.error.not_authorized"
    n_cases = 0
    for ncalls in (2, 3):
        for flags in itertools.product((False, True), repeat=ncalls):
            if not any(flags):
                continue
            for details in (False, True):
                for perm in itertools.permutations(range(ncalls)):
                    for fin in (tuple(range(ncalls)), tuple(reversed(range(ncalls)))):
                        i = Interp(col, "json")
                        try:
                            for k, f in enumerate(flags):
                                i.apply(("call", U, [k], {}, {"on_progress": f, "details": details and f, "timeout": None}))
                            # pending list keeps issue order while nothing is answered: index = call number
                            for rnd in range(2):
                                for k in perm:
                                    i.apply(("reply", k, "progressive", [k, rnd], {"r": rnd}, E))
                            done = []
                            for k in fin:
                                idx = sorted(set(range(ncalls)) - set(done)).index(k)
                                i.apply(("reply", idx, "success", [100 + k], {}, E))
                                done.append(k)
                            calls = [r for r in i.reqs if r["kind"] == "call"]
                            for k, r in enumerate(calls):
                                if r["track"].n != 1:
                                    i.fail("request-not-completed-by-its-reply|call|after-progress", "call %d completion count %r" % (r["id"], r["track"].n))
                                want = 2 if flags[k] else 0
                                if len(i.progress_log[r["id"]]) != want:
                                    i.fail("progress-not-delivered-to-its-handler", "call %d: %d handler invocations, %d progressive results sent to it" % (r["id"], len(i.progress_log[r["id"]]), want))
                        finally:
                            i.teardown()
                        n_cases += 1
                        col.case(True, enum=True, cls=["progress_grid/%d-calls/%s" % (ncalls, "".join("P" if f else "-" for f in flags))],
                                 sample={"flags": list(flags), "details": details, "progress_order": list(perm), "final_order": list(fin)})
    col.exhaustive.append("C04 progress_grid: 2-3 outstanding calls x progress-handler subsets x details x every order of progressive results x 2 final orders (%d histories)" % n_cases)


def repeat_unregister(col):
    """enumerated: unregister() called 2-3 times on the same registration before any reply (the registration stays active until the router
    answers), answered in every order with every mix of UNREGISTERED / ERROR: each of the requests completes exactly once with its own reply"""
    import itertools
    U = "com.example.a"
    E = "wamp.error.no_such_registration"
    n_cases = 0
    for ser in ("json", "cbor"):
        for n in (2, 3):
            for perm in itertools.permutations(range(n)):
                for kinds in itertools.product(("success", "error"), repeat=n):
                    i = Interp(col, ser)
                    try:
                        i.apply(("register", U, None, None))
                        i.apply(("reply", 0, "success", [], {}, E))
                        for _ in range(n):
                            i.apply(("unregister", 0))
                        unregs = [r for r in i.reqs if r["kind"] == "unregister"]
                        if len(unregs) != n:
                            i.fail("unregister-request-not-issued", "%d of %d unregister() calls on an active registration produced a request" % (len(unregs), n))
                        done = []
                        for k in perm:
                            idx = sorted(set(range(n)) - set(done)).index(k)
                            i.apply(("reply", idx, kinds[k], [], {}, E))
                            done.append(k)
                        for r in unregs:
                            if r["track"].n != 1:
                                i.fail("request-not-completed-by-its-reply|unregister|repeated", "unregister request %d completion count %r" % (r["id"], r["track"].n))
                    finally:
                        i.teardown()
                    n_cases += 1
                    col.case(True, enum=True, cls=["repeat_unregister/%d" % n], sample={"ser": ser, "n": n, "reply_order": list(perm), "replies": list(kinds)})
    col.exhaustive.append("C04 repeat_unregister: 2-3 outstanding unregister requests for one registration x every reply order x success/error mixes x 2 serializers (%d histories)" % n_cases)


def decorated_one(col, c):
    """register(obj) / subscribe(obj) of an object with three decorated methods: which of them carry decorator-level options is given by c["own"];
    c["session_opts"] says whether options are also passed to register()/subscribe().  One request per method, each carrying its own decorator's
    options if it has any and the options passed to the call otherwise; replies in reverse order complete the matching registrations."""
    from autobahn import wamp
    from autobahn.wamp.types import RegisterOptions, SubscribeOptions
    from harness.wampsess import SessionWorld
    kind, own, sess = c["kind"], c["own"], c["session_opts"]
    w = SessionWorld(serializer="json")
    try:
        w.join()
        s, M = w.session, w.message
        if kind == "register":
            OWN = [RegisterOptions(invoke="roundrobin"), RegisterOptions(concurrency=3), RegisterOptions(match="prefix", invoke="last")]
            given = RegisterOptions(match="wildcard", force_reregister=True) if sess else None
            deco, attrs = wamp.register, ("match", "invoke", "concurrency", "force_reregister")
        else:
            OWN = [SubscribeOptions(match="prefix"), SubscribeOptions(get_retained=True), SubscribeOptions(match="wildcard", get_retained=False)]
            given = SubscribeOptions(match="exact", get_retained=True) if sess else None
            deco, attrs = wamp.subscribe, ("match", "get_retained")
        names = ["m_a", "m_b", "m_c"]
        ns = {}
        for k, nm in enumerate(names):
            def fn(self_, *a, **kw):
                return None
            fn.__name__ = nm
            ns[nm] = deco("com.example.obj.%s" % nm, options=OWN[k] if own[k] else None)(fn)
        Obj = type("Obj", (object,), ns)
        before = len(w.t.sent)
        fut = w.call(lambda: (s.register(Obj(), options=given) if kind == "register" else s.subscribe(Obj(), options=given)))
        sent = w.t.sent[before:]
        want_cls = "Register" if kind == "register" else "Subscribe"
        if [type(m).__name__ for m in sent] != [want_cls] * 3:
            raise Violation("C04|decorated-object|request-count|" + kind, "%r" % ([type(m).__name__ for m in sent],), c)
        ids = [m.request for m in sent]
        if ids != list(range(ids[0], ids[0] + 3)):
            raise Violation("C04|decorated-object|request-ids-not-sequential", repr(ids), c)
        for m in sent:
            uri = m.procedure if kind == "register" else m.topic
            k = names.index(uri.rsplit(".", 1)[1])
            src = OWN[k] if own[k] else given
            for a in attrs:
                want = getattr(src, a, None) if src is not None else None
                dflt = {"match": "exact", "invoke": "single"}.get(a)        # the message classes report the protocol default for an absent option
                if (getattr(m, a) or dflt) != (want or dflt) or (dflt is None and getattr(m, a) != want):
                    raise Violation("C04|option-not-faithful|%s-object.%s" % (kind, a), "%s for %s carries %s=%r; the options that apply to this method (%s) say %r" % (
                        want_cls.upper(), uri, a, getattr(m, a), "its decorator's" if own[k] else ("those passed to the call" if sess else "none"), want), c)
        tr = w.track(fut)
        for j, m in enumerate(reversed(sent)):
            err = w.feed(M.Registered(m.request, 700 + j) if kind == "register" else M.Subscribed(m.request, 700 + j))
            if err is not None:
                raise Violation("C04|decorated-object|valid-reply-raised|" + exc_key(err), repr(err), c)
        w.settle()
        if tr.n != 1 or not tr.ok:
            raise Violation("C04|decorated-object|result-not-completed", "n=%r ok=%r value=%r" % (tr.n, tr.ok, tr.value), c)
        got = [x[1] if isinstance(x, tuple) else x for x in tr.value]
        for j, m in enumerate(reversed(sent)):
            uri = m.procedure if kind == "register" else m.topic
            hit = [g for g in got if getattr(g, "id", None) == 700 + j]
            if len(hit) != 1 or (kind == "register" and hit[0].procedure != uri) or (kind == "subscribe" and hit[0].topic != uri):
                raise Violation("C04|decorated-object|reply-matched-to-wrong-request", "reply %d for %s: %r" % (700 + j, uri, got), c)
    finally:
        w.close()


def decorated_objects(col):
    import itertools
    n = 0
    for kind in ("register", "subscribe"):
        for own in itertools.product((False, True), repeat=3):
            for sess in (False, True):
                c = {"check": "decorated_object", "kind": kind, "own": list(own), "session_opts": sess}
                try:
                    decorated_one(col, c)
                except (Violation, HarnessError):
                    raise
                except Exception as e:
                    from harness.core import in_autobahn
                    if in_autobahn(e):
                        raise Violation("C04|decorated-object|exception|" + exc_key(e), repr(e), c)
                    raise
                n += 1
                col.case(True, enum=True, cls=["decorated-object/%s/%s" % (kind, "".join("O" if o else "-" for o in own))], sample=c)
    col.exhaustive.append("C04 decorated_objects: register/subscribe x 8 subsets of methods with decorator options x options passed to the call or not (%d cases)" % n)


def syncreply(col):
    """enumerated: the router's reply arrives *while transport.send() of the request is still running* (an in-process / loopback router answers
    synchronously).  Each of the six request kinds, success and ERROR replies, three serializers: the request completes exactly once with that reply,
    nothing is rejected as unmatched, and a second copy of the reply afterwards is a protocol violation."""
    from harness.wampsess import SessionWorld
    from autobahn.wamp.exception import ProtocolError, ApplicationError
    from autobahn.wamp.types import PublishOptions
    REQ = {"Call": 48, "Publish": 16, "Subscribe": 32, "Unsubscribe": 34, "Register": 64, "Unregister": 66}
    for ser in ("json", "cbor", "msgpack"):
        for kind in ("call", "publish", "subscribe", "unsubscribe", "register", "unregister"):
            for as_error in (False, True):
                w = SessionWorld(serializer=ser)
                case = {"check": "syncreply", "ser": ser, "kind": kind, "error": as_error}
                try:
                    w.join()
                    s, M = w.session, w.message
                    sub = reg = None
                    if kind == "unsubscribe":
                        t0 = w.track(w.call(lambda: s.subscribe(lambda *a, **k: None, "com.x.t")))
                        w.feed(M.Subscribed(w.t.sent[-1].request, 801))
                        sub = t0.value
                    if kind == "unregister":
                        t0 = w.track(w.call(lambda: s.register(lambda *a, **k: None, "com.x.p")))
                        w.feed(M.Registered(w.t.sent[-1].request, 901))
                        reg = t0.value
                    inside = {"err": None, "reply": None, "n": 0}

                    def router(msg):
                        name = type(msg).__name__
                        if name not in REQ:
                            return
                        inside["n"] += 1
                        if as_error:
                            reply = M.Error(REQ[name], msg.request, "wamp.error.not_authorized", args=["no"])
                        else:
                            reply = {"Call": lambda: M.Result(msg.request, args=[42]), "Publish": lambda: M.Published(msg.request, 7001), "Subscribe": lambda: M.Subscribed(msg.request, 802),
                                     "Unsubscribe": lambda: M.Unsubscribed(msg.request), "Register": lambda: M.Registered(msg.request, 902), "Unregister": lambda: M.Unregistered(msg.request)}[name]()
                        inside["reply"] = reply
                        try:
                            s.onMessage(reply)
                        except Exception as e:
                            inside["err"] = e
                    w.t.on_send = router
                    api = {"call": lambda: s.call("com.x.p", 1), "publish": lambda: s.publish("com.x.t", 1, options=PublishOptions(acknowledge=True)),
                           "subscribe": lambda: s.subscribe(lambda *a, **k: None, "com.x.t2"), "register": lambda: s.register(lambda *a, **k: None, "com.x.p2"),
                           "unsubscribe": lambda: sub.unsubscribe(), "unregister": lambda: reg.unregister()}[kind]
                    try:
                        fut = w.call(api)
                    except Exception as e:
                        raise Violation("C04|syncreply|api-raised|%s|%s" % (kind, exc_key(e)), repr(e), case)
                    w.t.on_send = None
                    tr = w.track(fut)
                    if inside["n"] != 1:
                        raise Violation("C04|syncreply|request-count", "%d request messages" % inside["n"], case)
                    if inside["err"] is not None:
                        raise Violation("C04|syncreply|reply-during-send-rejected|%s|%s" % (kind, exc_key(inside["err"])), "the reply to the %s request was delivered while send() was running and raised %r" % (kind, inside["err"]), case)
                    if tr.n != 1:
                        raise Violation("C04|syncreply|request-not-completed-by-its-reply|" + kind, "completion count %d" % tr.n, case)
                    if as_error and (tr.ok or not isinstance(tr.value, ApplicationError) or tr.value.error != "wamp.error.not_authorized"):
                        raise Violation("C04|syncreply|error-content-differs|" + kind, repr(tr.value), case)
                    if not as_error and not tr.ok:
                        raise Violation("C04|syncreply|success-reply-failed-the-request|" + kind, repr(tr.value), case)
                    again = w.feed(inside["reply"])
                    if not isinstance(again, ProtocolError):
                        raise Violation("C04|syncreply|duplicate-reply-not-rejected|" + kind, "second copy of the reply: %r" % (again,), case)
                    if tr.n != 1:
                        raise Violation("C04|request-completed-twice", kind, case)
                finally:
                    w.close()
                col.case(True, enum=True, cls=["syncreply/%s/%s" % (kind, "error" if as_error else "success")], sample=case)
    col.exhaustive.append("C04 syncreply: 6 request kinds x {success, ERROR} x 3 serializers with the reply delivered inside transport.send()")


def idgen(col, seed, n):
    from hypothesis import strategies as st
    from autobahn.util import IdGenerator
    strat = st.one_of(st.sampled_from([0, 1, TWO53 - 2, TWO53 - 1, TWO53]), st.integers(0, TWO53))

    def body(start):
        g = IdGenerator()
        if not hasattr(g, "_next"):
            raise HarnessError("IdGenerator has no _next attribute")
        case = {"check": "idgen", "start": start}
        first = g.next() if start == 0 else None
        if start == 0 and first != 1:
            raise Violation("C04|idgen|first-id-not-1", repr(first), case)
        g._next = start
        prev = start
        for _ in range(4):
            v = g.next()
            if not (1 <= v <= TWO53) or type(v) != int:
                raise Violation("C04|idgen|out-of-range", "after %d: %r" % (prev, v), case)
            if v != (prev + 1 if prev < TWO53 else 1):
                raise Violation("C04|idgen|not-sequential", "after %d: %r" % (prev, v), case)
            prev = v
        col.case(start >= TWO53 - 4, dig=start, cls="idgen/" + ("wrap" if start >= TWO53 - 4 else "mid"), sample=case)
    run_hypothesis(col, "idgen", strat, body, n, seed)

    # a session positioned just below 2^53
    from harness.wampsess import SessionWorld
    w = SessionWorld()
    w.join()
    w.session._request_id_gen._next = TWO53 - 1
    seen = []
    for k in range(3):
        before = len(w.t.sent)
        w.call(lambda: w.session.call("a.b", k))
        seen.append(w.t.sent[before].request)
    w.close()
    if seen != [TWO53, 1, 2]:
        raise Violation("C04|idgen|session-wrap", repr(seen), {"check": "idgen-session"})
    col.case(True, dig="session-wrap", cls="idgen/session-wrap", sample=seen)


def send_fault_one(col, c):
    """one request whose transport.send() fails (the message is above the transport's size limit, cannot be serialized, or the transport has just gone):
    the API call fails (raises, or returns a result that has failed), nothing is written, and the request is gone - a later reply bearing its id
    matches no pending request and is a protocol violation, in both the success and the ERROR form.  Other pending requests are untouched, and
    the next request works."""
    from autobahn.exception import PayloadExceededError
    from autobahn.wamp.exception import SerializationError, TransportLost, ProtocolError
    from autobahn.wamp.types import PublishOptions
    kind, fault, ser, form = c["kind"], c["fault"], c["ser"], c["form"]
    U = "com.example.a"
    E = "wamp.error.not_authorized"
    ok = ("reply", 0, "success", [], {}, E)
    i = Interp(col, ser)

    def fail(what, detail):
        col.finding("C04|send-fault|" + what, "%s  [%r]" % (detail, c), dict(c, check="send_fault"))
    try:
        # another request of another kind stays pending throughout
        i.apply(("call", "com.example.other", [1], {}, {"on_progress": False, "details": False, "timeout": None}))
        if kind == "unsubscribe":
            i.apply(("subscribe", U, None, False))
            i.apply(("reply", 1, "success", [], {}, E))
        elif kind == "unregister":
            i.apply(("register", U, None, None))
            i.apply(("reply", 1, "success", [], {}, E))
        w, sess, M = i.w, i.s, i.w.message
        rid = i.next_id
        exc = {"payload": PayloadExceededError("message too big for this transport"), "serialization": SerializationError("cannot serialize"),
               "lost": TransportLost()}[fault]
        api = {"call": lambda: sess.call(U, 1, k=2), "publish": lambda: sess.publish(U, 1, options=PublishOptions(acknowledge=True)),
               "subscribe": lambda: sess.subscribe(lambda *a, **k: None, U), "register": lambda: sess.register(lambda *a, **k: None, U),
               "unsubscribe": lambda: i.subs[-1]["obj"].unsubscribe(), "unregister": lambda: i.regs[-1]["obj"].unregister()}[kind]
        before = len(w.t.sent)
        snap = i.snapshot()
        w.t.fail_next_send = exc
        fut, err = i.guarded_api(api, kind)
        w.settle()
        if w.t.fail_next_send is not None:
            raise HarnessError("the %s call did not reach transport.send()" % kind)
        if len(w.t.sent) != before:
            fail("message-written-after-failed-send|" + kind, repr([type(m).__name__ for m in w.t.sent[before:]]))
        if err is None:
            tr = w.track(fut)
            w.settle()
            if tr.n != 1 or tr.ok:
                fail("request-pending-after-failed-send|" + kind, "%s() returned a result that did not fail (completions %d) although send() raised %r" % (kind, tr.n, exc))
        elif type(err) is not type(exc):
            fail("other-exception-after-failed-send|%s|%s" % (kind, exc_key(err)), "send() raised %r, the caller got %r" % (exc, err))
        # the reply that would have answered it: no such request is pending any more
        if form == "success":
            msg = {"call": lambda: M.Result(rid, args=[1]), "publish": lambda: M.Published(rid, 777), "subscribe": lambda: M.Subscribed(rid, 778),
                   "register": lambda: M.Registered(rid, 779), "unsubscribe": lambda: M.Unsubscribed(rid), "unregister": lambda: M.Unregistered(rid)}[kind]()
        else:
            msg = M.Error(Interp.REQ_TYPE[kind], rid, E, args=["no"])
        e2 = w.feed(msg)
        if e2 is None:
            fail("reply-for-unsent-request-accepted|%s|%s" % (kind, form), "%s reply bearing id %d was accepted although that request was never sent (send() raised %s)" % (
                form, rid, type(exc).__name__))
        elif not isinstance(e2, ProtocolError):
            fail("reply-for-unsent-request-raised-other|%s|%s" % (kind, exc_key(e2)), repr(e2))
        i.unchanged(snap, None)
        if w.d.loop_errors:
            e3 = w.d.loop_errors[0]
            w.d.loop_errors[:] = []
            fail("loop-exception|" + kind, repr(e3)[:300])
        # the session still works: the next request of the same kind is sent and completes with its own reply (its id is the next unused one)
        if fault != "lost" and kind in ("call", "publish", "subscribe", "register"):
            before = len(w.t.sent)
            fut2, err2 = i.guarded_api(api, kind)
            if err2 is not None or len(w.t.sent) != before + 1:
                fail("next-request-failed|" + kind, "%r / %d messages" % (err2, len(w.t.sent) - before))
            else:
                m2 = w.t.sent[-1]
                if m2.request not in (rid, rid + 1):
                    fail("next-request-id|" + kind, "request id %r after a failed request %d" % (m2.request, rid))
                tr2 = w.track(fut2)
                good = {"call": lambda: M.Result(m2.request, args=[5]), "publish": lambda: M.Published(m2.request, 780), "subscribe": lambda: M.Subscribed(m2.request, 781),
                        "register": lambda: M.Registered(m2.request, 782)}[kind]()
                e4 = w.feed(good)
                if e4 is not None or tr2.n != 1 or not tr2.ok:
                    fail("next-request-not-completed|" + kind, "%r n=%d ok=%r" % (e4, tr2.n, tr2.ok))
    finally:
        try:
            i.w.close()
        except Exception:
            pass


def send_faults(col):
    n = 0
    for ser in ("json", "cbor"):
        for kind in ("call", "publish", "subscribe", "register", "unsubscribe", "unregister"):
            for fault in ("payload", "serialization", "lost"):
                for form in ("success", "error"):
                    c = {"kind": kind, "fault": fault, "ser": ser, "form": form}
                    send_fault_one(col, c)
                    n += 1
                    col.case(True, enum=True, cls=["send-fault/%s/%s" % (kind, fault)], sample=c)
    col.exhaustive.append("C04 send faults: 6 request kinds x 3 ways transport.send() fails x reply in success / ERROR form x 2 serializers")


def replay(col, case):
    case = dec(case)
    c = case.get("case", case)
    if c.get("check") in ("idgen", "idgen-session"):
        return
    if c.get("check") == "send_fault":
        send_fault_one(col, c)
        col.case()
        return
    if c.get("check") == "syncreply":
        syncreply(col)
        return
    if c.get("check") == "decorated_object":
        decorated_one(col, c)
        col.case()
        return
    i = Interp(col, c["config"]["serializer"])
    try:
        for s in c["steps"]:
            i.apply(tuple(s))
    finally:
        i.teardown()
    col.case()
