"""C20 - end-to-end encrypted payloads are recovered exactly or rejected."""
from harness.core import Violation, HarnessError, run_hypothesis, dec, exc_key, brief

DESCRIPTION = {
    "level": "fault_enumeration",
    "rule": ("Two sessions (originator, responder) with cryptobox KeyRings are joined through a scripted router (both frameworks, several serializers).  Hypothesis draws the "
             "keyring layout {default key, per-prefix keys, originator-only / responder-only key halves, several key pairs of one process facing the same peer key (tenants), mismatching keys, a key for the covering prefix installed on both ends "
             "*after* the URIs were first used - messages must then open under the new key with PyNaCl directly, ciphertexts under the superseded key are refused}, URIs/args/kwargs from the JSON domain (bytes, nesting, "
             "unicode) carrying a unique marker (also requests without any argument, whose result still carries it), and the direction {publish->event, call->invocation (exact or prefix registration with the concrete procedure in the invocation details), "
             "yield->result incl. progressive results, error - also with the error URI mapped to an exception class at the caller}.  Fault enumeration in transit: every single-byte "
             "alteration of the ciphertext (each position x a drawn non-zero XOR; thorough: several XOR values), truncations, swapping the envelope URI (ciphertext of a.b delivered "
             "under registration/subscription a.c) and replay under another key.  Oracle: untampered => handler/endpoint/caller receive exactly the sent args/kwargs, the WAMP "
             "message has enc_algo='cryptobox', a payload and no args/kwargs, and the serialized bytes do not contain the marker; tampered / wrong key / URI mismatch => the "
             "application handler is never invoked, events are dropped, invocations are answered with an encryption ERROR and calls fail with an ApplicationError whose URI is in "
             "the wamp.error.encryption.* / no_payload_codec set - never a silent success, never altered data.  Events are delivered to 1-3 handlers attached to the same subscription: all get the genuine payload, none any forged, swapped or superseded one.  Enumerated job: values the transport can carry but the payload codec cannot (set, frozenset, datetime, UUID, nested) in all directions incl. progressive results - the operation may fail, the clear payload never goes out.  Registrations are also made relative to register(prefix=...).  Non-trivial = a tampered ciphertext or a per-prefix keyring; "
             "distinct by (direction, layout, alteration). Layout 'tenants': per-prefix keys where several key pairs of one process face the same peer public key (another originator pair towards the same responder, another responder pair for the same originator), created before the pair under test. In the error direction the endpoint raises an application URI, a standard wamp.error.* URI or a plain Python exception (generic runtime-error URI): with a default key the ERROR payload is encrypted for each of them."),
    "assumptions": ["errors are asserted to be encrypted only for keyrings that hold a key for the error URI (default-key layouts); with per-prefix keys the library looks the key up by error URI (don't-care)"],
}

MARK = "S3CR3TMARK"
_REKEY = None


def independent_open(payload, responder_priv_b64, originator_pub_b64):
    """decrypt a cryptobox payload with PyNaCl directly (responder's view); None if it does not authenticate under that key pair"""
    import json
    from nacl.public import PrivateKey, PublicKey, Box
    from nacl.encoding import Base64Encoder
    from nacl.exceptions import CryptoError
    try:
        return json.loads(Box(PrivateKey(responder_priv_b64.encode(), encoder=Base64Encoder), PublicKey(originator_pub_b64.encode(), encoder=Base64Encoder)).decrypt(payload).decode("utf8"))
    except (CryptoError, ValueError):
        return None
ENC_URIS = {"wamp.error.encryption.trusted_uri_mismatch", "wamp.error.encryption.decrypt_error", "wamp.error.no_payload_codec"}


def plan(tier, seed):
    n = 120 if tier == "quick" else 1500
    jobs = []
    for i, fw in enumerate(("twisted", "asyncio")):
        for sh in range(3 if tier == "quick" else 8):
            jobs.append({"func": "flows", "fw": fw, "name": "flows/%s/%d" % (fw, sh), "args": {"seed": seed * 1000 + i * 100 + sh, "n": n, "xors": 1 if tier == "quick" else 3}})
        jobs.append({"func": "unencodable", "fw": fw, "name": "unencodable/" + fw, "args": {}})
    return jobs


def norm(v):
    if isinstance(v, (tuple, list)):
        return [norm(x) for x in v]
    if isinstance(v, dict):
        return {k: norm(x) for k, x in v.items()}
    return v


def strategy():
    from hypothesis import strategies as st
    from harness import wampwire as W
    vals = st.lists(W.values, max_size=3)
    kws = st.dictionaries(st.sampled_from(["a", "b", "código", "x1"]), W.values, max_size=3)
    return st.fixed_dictionaries({"layout": st.sampled_from(["default", "default", "prefix", "halves", "mismatch", "responder-no-codec", "rekey", "tenants"]),
                                  "direction": st.sampled_from(["publish", "call", "call-error"]), "args": vals, "kwargs": kws,
                                  "ser": st.sampled_from(["json", "cbor", "msgpack"]), "xor": st.integers(1, 255), "seed": st.integers(0, 1 << 20),
                                  "empty": st.sampled_from([False, False, False, True]),
                                  "progress": st.booleans(), "prefix_reg": st.sampled_from([False, False, True]), "caller_defines": st.booleans(),
                                  # the error the endpoint raises: an application URI, a standard wamp.error.* URI, or a plain Python exception (generic runtime-error URI)
                                  "err_uri": st.sampled_from(["com.myapp.error.e1", "com.myapp.error.e1", "wamp.error.invalid_argument", "plain"]),
                                  "handlers": st.sampled_from([1, 1, 2, 3]), "prefix_kw": st.sampled_from([False, False, True])})     # calls ask for progressive results: encrypted progressive chunks reach on_progress exactly or not at all    # a request without any arguments (the result still carries the secret)


def keyrings(layout):
    from autobahn.wamp.cryptobox import KeyRing, Key
    from nacl.public import PrivateKey
    from nacl.encoding import Base64Encoder

    def gen():
        k = PrivateKey.generate()
        return k.encode(encoder=Base64Encoder).decode(), k.public_key.encode(encoder=Base64Encoder).decode()
    a_priv, a_pub = gen()
    b_priv, b_pub = gen()
    c_priv, c_pub = gen()
    global _REKEY
    _REKEY = None
    if layout == "rekey":
        # both ends start with a default key; after the URIs have been used once, a key for the covering prefix is installed on both ends
        o, r = KeyRing(default_key=Key(originator_priv=a_priv, responder_priv=b_priv)), KeyRing(default_key=Key(originator_priv=a_priv, responder_priv=b_priv))
        a2_priv, a2_pub = gen()
        b2_priv, b2_pub = gen()
        _REKEY = {"make": lambda: Key(originator_priv=a2_priv, responder_priv=b2_priv), "b2_priv": b2_priv, "a2_pub": a2_pub, "b_priv": b_priv, "a_pub": a_pub}
        return o, r
    if layout in ("default", "responder-no-codec"):
        full = Key(originator_priv=a_priv, responder_priv=b_priv)
        o, r = KeyRing(default_key=full), KeyRing(default_key=Key(originator_priv=a_priv, responder_priv=b_priv))
    elif layout == "prefix":
        o, r = KeyRing(), KeyRing()
        o.set_key("com.myapp.", Key(originator_priv=a_priv, responder_priv=b_priv))
        r.set_key("com.myapp.", Key(originator_priv=a_priv, responder_priv=b_priv))
    elif layout == "halves":
        o = KeyRing(default_key=Key(originator_priv=a_priv, responder_pub=b_pub))
        r = KeyRing(default_key=Key(originator_pub=a_pub, responder_priv=b_priv))
    elif layout == "tenants":
        # per-prefix keys where several key pairs of this process face the same peer key: another tenant's originator pair (c) towards the same responder
        # identity (b), and another responder pair (c) trusted for the same originator (a) - each created before the pair under test
        o, r = KeyRing(), KeyRing()
        o.set_key("com.othertenant.", Key(originator_priv=c_priv, responder_pub=b_pub))
        o.set_key("com.myapp.", Key(originator_priv=a_priv, responder_pub=b_pub))
        r.set_key("com.otherservice.", Key(originator_pub=a_pub, responder_priv=c_priv))
        r.set_key("com.othertenant.", Key(originator_pub=c_pub, responder_priv=b_priv))
        r.set_key("com.myapp.", Key(originator_pub=a_pub, responder_priv=b_priv))
    else:   # mismatch: the responder holds another originator key
        o = KeyRing(default_key=Key(originator_priv=a_priv, responder_priv=b_priv))
        r = KeyRing(default_key=Key(originator_priv=c_priv, responder_priv=b_priv))
    if layout == "responder-no-codec":
        r = None
    return o, r


class Pair:
    def __init__(self, c):
        from harness.wampsess import SessionWorld
        self.c = c
        self.o = SessionWorld(serializer=c["ser"])
        self.r = SessionWorld(serializer=c["ser"], driver=self.o.d)
        self.o.join()
        self.r.join()
        ko, kr = keyrings(c["layout"])
        self.o.session.set_payload_codec(ko)
        if kr is not None:
            self.r.session.set_payload_codec(kr)
        self.M = self.o.message
        self.ko, self.kr, self.rekey = ko, kr, _REKEY
        self.calls = []        # what the responder's handlers/endpoints saw
        self.rid = 100

    def close(self):
        self.r.close()
        self.o.close()

    def wire_checks(self, world, msg, what):
        """the message the originator wrote: encrypted, no clear args, no marker in the bytes"""
        c = self.c
        if msg.enc_algo != "cryptobox" or not msg.payload:
            raise Violation("C20|%s|not-encrypted" % what, "enc_algo=%r payload=%r args=%r" % (msg.enc_algo, msg.payload, msg.args), c)
        if msg.args or msg.kwargs:
            raise Violation("C20|%s|clear-payload-alongside-ciphertext" % what, "args=%r kwargs=%r" % (msg.args, msg.kwargs), c)
        raw = world.t.sent_raw[-1]
        data, _ = world.t._serializer.serialize(raw)
        if MARK.encode() in data:
            raise Violation("C20|%s|clear-marker-on-the-wire" % what, "serialized message contains the clear marker", c)


class _CallFailedExplicitly(Exception):
    pass


def tampered_variants(payload, xor, n_xors):
    out = []
    for i in range(len(payload)):
        for k in range(n_xors):
            x = ((xor + 37 * k) % 255) + 1
            out.append(("flip@%d" % i, payload[:i] + bytes([payload[i] ^ x]) + payload[i + 1:]))
    for cut in (1, 23, 24, 39, 40, len(payload) - 1):      # an empty payload marshals as 'no payload' (an unencrypted message): not a ciphertext alteration
        if 0 < cut < len(payload):
            out.append(("truncate@%d" % cut, payload[:cut]))
    out.append(("append", payload + b"\x00"))
    return out


def progressive_part(feed_progress, enc, chunk_args, chunk_kw, prog, p, c, n_xors):
    n_t = 0
    got = feed_progress(enc.payload, "genuine")
    if len(got) != 1 or norm(list(got[0][0])) != norm(chunk_args) or norm(got[0][1]) != norm(chunk_kw):
        raise Violation("C20|progress|payload-not-recovered", "on_progress saw %r" % (brief(got),), c)
    for name, bad in tampered_variants(enc.payload, c["xor"], n_xors)[::2]:
        got = feed_progress(bad, name)
        n_t += 1
        if got:
            raise Violation("C20|progress|tampered-ciphertext-delivered", "%s: on_progress invoked with %r" % (name, brief(got)), c)
    other = p.kr.encode(False, "com.myapp.proc2", ["chunk of another call"], {"x": 1})
    got = feed_progress(other.payload, "swapped-uri")
    if got:
        raise Violation("C20|progress|envelope-uri-mismatch-delivered", "a progressive result encrypted for proc2 reached on_progress of a call to proc1: %r" % (brief(got),), c)
    foreign, _ = keyrings("default")
    got = feed_progress(foreign.encode(False, "com.myapp.proc1", ["forged"], None).payload, "foreign-key")
    if got:
        raise Violation("C20|progress|wrong-key-delivered", "a progressive result under a foreign key reached on_progress: %r" % (brief(got),), c)
    return n_t


def check_flow(c, n_xors=1):
    import txaio
    from autobahn.wamp.exception import ApplicationError
    from autobahn.wamp.types import PublishOptions
    p = Pair(c)
    stats = {"tampered": 0}
    try:
        M = p.M
        o, r = p.o, p.r
        args = [MARK] + list(c["args"])
        kwargs = dict(c["kwargs"])
        kwargs["m"] = MARK + "-kw"
        if c.get("empty"):
            args, kwargs = [], {}
        layout = c["layout"]
        can_decrypt = layout in ("default", "prefix", "halves", "rekey", "tenants")
        if c["direction"] == "publish":
            seen = []
            # one or several handlers attached to the same subscription (the router hands out one id per topic): each of them is an application handler
            nh = c.get("handlers") or 1
            for _ in range(nh):
                tr = r.track(r.call(lambda: r.session.subscribe(lambda *a, **k: seen.append((a, k)), "com.myapp.topic1")))
                r.feed(M.Subscribed(r.t.sent[-1].request, 801))
            for _ in range(nh):
                tr2 = r.track(r.call(lambda: r.session.subscribe(lambda *a, **k: seen.append(("OTHER", a, k)), "com.myapp.topic2")))
                r.feed(M.Subscribed(r.t.sent[-1].request, 802))
            old = None
            if layout == "rekey":
                o.call(lambda: o.session.publish("com.myapp.topic1", "warm-up"))
                old = o.t.sent[-1]
                r.feed(M.Event(801, 4999, payload=old.payload, enc_algo=old.enc_algo, enc_key=old.enc_key, enc_serializer=old.enc_serializer))
                if len(seen) != nh:
                    raise Violation("C20|event|payload-not-recovered", "warm-up event before the key change: %r" % (brief(seen),), c)
                del seen[:]
                p.ko.set_key("com.myapp.", p.rekey["make"]())
                p.kr.set_key("com.myapp.", p.rekey["make"]())
            o.call(lambda: o.session.publish("com.myapp.topic1", *args, **kwargs))
            pub = o.t.sent[-1]
            p.wire_checks(o, pub, "publish")
            if layout == "rekey":
                clear = independent_open(pub.payload, p.rekey["b2_priv"], p.rekey["a2_pub"])
                if clear is None or clear.get("uri") != "com.myapp.topic1":
                    raise Violation("C20|publish|not-encrypted-under-the-applicable-key", "after set_key('com.myapp.') the PUBLISH does not open under the new prefix key (opens under the superseded default key: %r)" % (
                        independent_open(pub.payload, p.rekey["b_priv"], p.rekey["a_pub"]) is not None,), c)

            def deliver(payload, sub=801, pubid=[5000]):
                pubid[0] += 1
                n0 = len(seen)
                err = r.feed(M.Event(sub, pubid[0], payload=payload, enc_algo=pub.enc_algo, enc_key=pub.enc_key, enc_serializer=pub.enc_serializer))
                if err is not None:
                    raise Violation("C20|event|onMessage-raised|" + exc_key(err), repr(err), c)
                return seen[n0:]
            got = deliver(pub.payload)
            if can_decrypt:
                if len(got) != nh or any(norm(list(g[0])) != norm(args) or norm(g[1]) != norm(kwargs) for g in got):
                    raise Violation("C20|event|payload-not-recovered", "%d handler(s) saw %r, published args=%r kwargs=%r" % (nh, brief(got), brief(args), brief(kwargs)), c)
            elif got:
                raise Violation("C20|event|delivered-without-key", "layout %s: handler invoked with %r" % (layout, brief(got)), c)
            for name, bad in tampered_variants(pub.payload, c["xor"], n_xors):
                got = deliver(bad)
                stats["tampered"] += 1
                if got:
                    raise Violation("C20|event|tampered-ciphertext-delivered", "%s: handler invoked with %r" % (name, brief(got)), c)
            if old is not None:
                got = deliver(old.payload)
                if got:
                    raise Violation("C20|event|superseded-key-accepted", "an EVENT encrypted under the superseded key reached the handler after set_key(): %r" % (brief(got),), c)
            got = deliver(pub.payload, sub=802)
            if got:
                raise Violation("C20|event|envelope-uri-mismatch-delivered", "ciphertext of topic1 delivered under topic2 reached the handler: %r" % (brief(got),), c)
        else:
            invoked = []
            fail_with = []
            callee_progress = []
            ERR = c.get("err_uri") or "com.myapp.error.e1"
            ERR_WIRE = "wamp.error.runtime_error" if ERR == "plain" else ERR

            def endpoint(*a, **k):
                det = k.pop("details", None)
                if det is not None and det.progress is not None:
                    det.progress(MARK + "-prog", n=1)        # a progressive result of the callee: must be encrypted like the final one
                invoked.append((a, k))
                if fail_with:
                    if ERR == "plain":
                        raise RuntimeError(*args)
                    raise ApplicationError(ERR, *args, **kwargs)
                return {"echo": [MARK, list(a)], "kw": {kk: vv for kk, vv in k.items()}}
            from autobahn.wamp.types import RegisterOptions
            for name, sid in (("com.myapp.proc1", 901), ("com.myapp.proc2", 902)):
                if sid == 901 and c.get("prefix_reg"):
                    # pattern-based registration: the dealer names the concrete procedure in INVOCATION.details.procedure
                    tr = r.track(r.call(lambda: r.session.register(endpoint, "com.myapp.pro", RegisterOptions(match="prefix", details_arg="details"))))
                elif c.get("prefix_kw"):
                    # register(..., prefix=...): the procedure is given relative to a URI prefix; the registration is for the full URI
                    tr = r.track(r.call(lambda name=name: r.session.register(endpoint, name[len("com.myapp."):], RegisterOptions(details_arg="details"), prefix="com.myapp.")))
                    if r.t.sent[-1].procedure != name:
                        raise Violation("C20|register|prefix-not-applied", "REGISTER carries %r" % (r.t.sent[-1].procedure,), c)
                else:
                    tr = r.track(r.call(lambda name=name: r.session.register(endpoint, name, RegisterOptions(details_arg="details"))))
                r.feed(M.Registered(r.t.sent[-1].request, sid))
            old = None
            if layout == "rekey":
                tr_w = o.track(o.call(lambda: o.session.call("com.myapp.proc1", "warm-up")))
                old = o.t.sent[-1]
                p.rid += 1
                r.feed(M.Invocation(p.rid, 901, payload=old.payload, enc_algo=old.enc_algo, enc_key=old.enc_key, enc_serializer=old.enc_serializer,
                                    procedure="com.myapp.proc1" if c.get("prefix_reg") else None))
                if len(invoked) != 1 or type(r.t.sent[-1]).__name__ != "Yield":
                    raise Violation("C20|invocation|payload-not-recovered", "warm-up call before the key change: invoked=%r" % (brief(invoked),), c)
                del invoked[:]
                p.ko.set_key("com.myapp.", p.rekey["make"]())
                p.kr.set_key("com.myapp.", p.rekey["make"]())
            class MappedError(Exception):
                def __init__(self, *a, **k):
                    Exception.__init__(self, *a)
                    self.kwargs = k
            if c.get("caller_defines"):
                # the caller maps the error URIs to an exception class of its own: forged errors must still surface as encryption errors
                o.session.define(MappedError, "com.myapp.error.e1")

                class OtherMapped(MappedError):
                    pass
                o.session.define(OtherMapped, "com.myapp.error.other")
            prog = []
            call_kwargs = dict(kwargs)
            if c.get("progress") and c["direction"] == "call":
                from autobahn.wamp.types import CallOptions
                call_kwargs["options"] = CallOptions(on_progress=lambda *a, **k: prog.append((a, k)))
            tr_call = o.track(o.call(lambda: o.session.call("com.myapp.proc1", *args, **call_kwargs)))
            call = o.t.sent[-1]
            p.wire_checks(o, call, "call")
            if layout == "rekey":
                clear = independent_open(call.payload, p.rekey["b2_priv"], p.rekey["a2_pub"])
                if clear is None or clear.get("uri") != "com.myapp.proc1":
                    raise Violation("C20|call|not-encrypted-under-the-applicable-key", "after set_key('com.myapp.') the CALL does not open under the new prefix key (opens under the superseded default key: %r)" % (
                        independent_open(call.payload, p.rekey["b_priv"], p.rekey["a_pub"]) is not None,), c)
            if c["direction"] == "call-error":
                fail_with.append(1)

            def invoke(payload, reg=901):
                p.rid += 1
                n_inv, n_sent = len(invoked), len(r.t.sent)
                want_progress = bool(c.get("progress")) and c["direction"] == "call" and reg == 901
                err = r.feed(M.Invocation(p.rid, reg, payload=payload, enc_algo=call.enc_algo, enc_key=call.enc_key, enc_serializer=call.enc_serializer,
                                          procedure="com.myapp.proc1" if (reg == 901 and c.get("prefix_reg")) else None, receive_progress=True if want_progress else None))
                if err is not None:
                    raise Violation("C20|invocation|onMessage-raised|" + exc_key(err), repr(err), c)
                out = r.t.sent[n_sent:]
                if want_progress and len(out) == 2 and type(out[0]).__name__ == "Yield" and out[0].progress:
                    # the callee's progressive YIELD: encrypted, no clear payload, marker not on the wire
                    prog_msg = out[0]
                    if prog_msg.enc_algo != "cryptobox" or not prog_msg.payload or prog_msg.args or prog_msg.kwargs:
                        raise Violation("C20|yield-progress|not-encrypted", "progressive YIELD: enc_algo=%r payload=%r args=%r kwargs=%r" % (
                            prog_msg.enc_algo, bool(prog_msg.payload), brief(prog_msg.args), brief(prog_msg.kwargs)), c)
                    data, _ = r.t._serializer.serialize(r.t.sent_raw[n_sent])
                    if MARK.encode() in data:
                        raise Violation("C20|yield-progress|clear-marker-on-the-wire", "", c)
                    callee_progress.append(prog_msg)
                    out = out[1:]
                if len(out) != 1 or out[0].request != p.rid:
                    raise Violation("C20|invocation|not-answered-once", repr([type(m).__name__ for m in out]), c)
                return invoked[n_inv:], out[0]
            # tampered / mismatching invocations first (they must never reach the endpoint)
            for name, bad in tampered_variants(call.payload, c["xor"], n_xors):
                inv, reply = invoke(bad)
                stats["tampered"] += 1
                if inv:
                    raise Violation("C20|invocation|tampered-ciphertext-delivered", "%s: endpoint invoked with %r" % (name, brief(inv)), c)
                if type(reply).__name__ != "Error" or reply.error not in ENC_URIS:
                    raise Violation("C20|invocation|tampered-not-answered-with-encryption-error", "%s: reply %s %r" % (name, type(reply).__name__, getattr(reply, "error", None)), c)
            if old is not None:
                inv, reply = invoke(old.payload)
                if inv:
                    raise Violation("C20|invocation|superseded-key-accepted", "an INVOCATION encrypted under the superseded key reached the endpoint after set_key(): %r" % (brief(inv),), c)
                if type(reply).__name__ != "Error" or reply.error not in ENC_URIS:
                    raise Violation("C20|invocation|superseded-key-not-answered-with-encryption-error", repr(getattr(reply, "error", None)), c)
            inv, reply = invoke(call.payload, reg=902)
            if inv:
                raise Violation("C20|invocation|envelope-uri-mismatch-delivered", "ciphertext of proc1 invoked proc2: %r" % (brief(inv),), c)
            if type(reply).__name__ != "Error" or reply.error not in ENC_URIS:
                raise Violation("C20|invocation|envelope-uri-mismatch-not-an-encryption-error", repr(getattr(reply, "error", None)), c)
            # the genuine invocation
            inv, reply = invoke(call.payload)
            if not can_decrypt:
                if inv:
                    raise Violation("C20|invocation|delivered-without-key", "layout %s: endpoint invoked" % layout, c)
                if type(reply).__name__ != "Error" or reply.error not in ENC_URIS:
                    raise Violation("C20|invocation|undecryptable-not-answered-with-encryption-error", repr(getattr(reply, "error", None)), c)
                # the router forwards the error: the call must fail explicitly
                err = o.feed(M.Error(48, call.request, reply.error, args=reply.args, kwargs=reply.kwargs, payload=reply.payload, enc_algo=reply.enc_algo,
                                     enc_serializer=reply.enc_serializer, enc_key=reply.enc_key))
                if err is not None:
                    raise Violation("C20|error|onMessage-raised|" + exc_key(err), repr(err), c)
                if tr_call.n != 1 or tr_call.ok:
                    raise Violation("C20|call|undecryptable-call-did-not-fail", "n=%d ok=%r" % (tr_call.n, tr_call.ok), c)
                return stats
            if len(inv) != 1 or norm(list(inv[0][0])) != norm(args) or norm(inv[0][1]) != norm(kwargs):
                raise Violation("C20|invocation|payload-not-recovered", "endpoint saw %r, called with args=%r kwargs=%r" % (brief(inv), brief(args), brief(kwargs)), c)
            if c["direction"] == "call":
                if type(reply).__name__ != "Yield":
                    raise Violation("C20|yield|not-a-yield", "%s %r" % (type(reply).__name__, getattr(reply, "error", None)), c)
                p.wire_checks(r, reply, "yield")
                expected = {"echo": [MARK, norm(args)], "kw": norm(kwargs)}
                # tampered results must fail the call explicitly: use extra calls so the original stays pending
                for name, bad in tampered_variants(reply.payload, c["xor"], n_xors)[::3]:
                    t2 = o.track(o.call(lambda: o.session.call("com.myapp.proc1", 1)))
                    c2 = o.t.sent[-1]
                    err = o.feed(M.Result(c2.request, payload=bad, enc_algo=reply.enc_algo, enc_key=reply.enc_key, enc_serializer=reply.enc_serializer))
                    stats["tampered"] += 1
                    if err is not None:
                        raise Violation("C20|result|onMessage-raised|" + exc_key(err), repr(err), c)
                    if t2.n != 1 or t2.ok or not isinstance(t2.value, ApplicationError) or t2.value.error not in ENC_URIS:
                        raise Violation("C20|result|tampered-result-not-an-encryption-error", "%s: n=%d ok=%r value=%r" % (name, t2.n, t2.ok, brief(t2.value)), c)
                if c.get("progress") and p.kr is not None:
                    # progressive chunks for the pending call, encrypted by the responder's keyring: genuine, altered, for another procedure, under a foreign key
                    chunk_args, chunk_kw = [MARK + "-chunk", 1], {"n": 1}
                    enc = p.kr.encode(False, "com.myapp.proc1", chunk_args, chunk_kw)

                    def feed_progress(payload, what):
                        n0 = len(prog)
                        err = o.feed(M.Result(call.request, payload=payload, enc_algo=enc.enc_algo, enc_key=enc.enc_key, enc_serializer=enc.enc_serializer, progress=True))
                        if err is not None:
                            raise Violation("C20|progress|onMessage-raised|" + exc_key(err), "%s: %r" % (what, err), c)
                        if tr_call.n:
                            # failing the whole call with an explicit encryption error on a forged chunk is a legitimate reaction; anything else is not
                            if what != "genuine" and not tr_call.ok and isinstance(tr_call.value, ApplicationError) and tr_call.value.error in ENC_URIS and not prog[n0:]:
                                raise _CallFailedExplicitly()
                            raise Violation("C20|progress|progressive-result-completed-the-call", what, c)
                        return prog[n0:]
                    try:
                        stats["tampered"] += progressive_part(feed_progress, enc, chunk_args, chunk_kw, prog, p, c, n_xors)
                    except _CallFailedExplicitly:
                        return stats
                err = o.feed(M.Result(call.request, payload=reply.payload, enc_algo=reply.enc_algo, enc_key=reply.enc_key, enc_serializer=reply.enc_serializer))
                if err is not None:
                    raise Violation("C20|result|onMessage-raised|" + exc_key(err), repr(err), c)
                if tr_call.n != 1 or not tr_call.ok or norm(tr_call.value) != expected:
                    raise Violation("C20|result|payload-not-recovered", "caller got %r, expected %r" % (brief(tr_call.value), brief(expected)), c)
            else:
                if ERR == "plain":
                    kwargs = {}       # a plain exception carries positional arguments only
                if type(reply).__name__ != "Error" or reply.error != ERR_WIRE:
                    raise Violation("C20|error|not-the-application-error", "%s %r" % (type(reply).__name__, getattr(reply, "error", None)), c)
                if layout in ("default", "halves"):
                    p.wire_checks(r, reply, "error")
                if reply.payload:
                    for name, bad in tampered_variants(reply.payload, c["xor"], n_xors)[::3]:
                        t2 = o.track(o.call(lambda: o.session.call("com.myapp.proc1", 1)))
                        c2 = o.t.sent[-1]
                        err = o.feed(M.Error(48, c2.request, reply.error, payload=bad, enc_algo=reply.enc_algo, enc_key=reply.enc_key, enc_serializer=reply.enc_serializer))
                        stats["tampered"] += 1
                        if err is not None:
                            raise Violation("C20|error|onMessage-raised|" + exc_key(err), repr(err), c)
                        if t2.n != 1 or t2.ok or not isinstance(t2.value, ApplicationError) or t2.value.error not in ENC_URIS:
                            raise Violation("C20|error|tampered-error-not-an-encryption-error", "%s: value=%r" % (name, brief(t2.value)), c)
                if reply.payload:
                    # the ciphertext of error e1 delivered under the envelope URI of another error
                    t3 = o.track(o.call(lambda: o.session.call("com.myapp.proc1", 1)))
                    c3 = o.t.sent[-1]
                    err = o.feed(M.Error(48, c3.request, "com.myapp.error.other", payload=reply.payload, enc_algo=reply.enc_algo, enc_key=reply.enc_key, enc_serializer=reply.enc_serializer))
                    if err is not None:
                        raise Violation("C20|error|onMessage-raised|" + exc_key(err), repr(err), c)
                    if t3.n != 1 or t3.ok or not isinstance(t3.value, ApplicationError) or t3.value.error not in ENC_URIS:
                        raise Violation("C20|error|envelope-uri-mismatch-accepted", "caller got %r" % (brief(t3.value),), c)
                err = o.feed(M.Error(48, call.request, reply.error, args=reply.args, kwargs=reply.kwargs, payload=reply.payload, enc_algo=reply.enc_algo,
                                     enc_key=reply.enc_key, enc_serializer=reply.enc_serializer))
                if err is not None:
                    raise Violation("C20|error|onMessage-raised|" + exc_key(err), repr(err), c)
                v = tr_call.value
                if c.get("caller_defines") and ERR_WIRE == "com.myapp.error.e1":
                    if tr_call.n != 1 or tr_call.ok or type(v) is not MappedError or norm(list(v.args)) != norm(args) or norm(v.kwargs) != norm(kwargs):
                        raise Violation("C20|error|payload-not-recovered", "caller (class registered for the URI) got %r args=%r kwargs=%r" % (v, getattr(v, "args", None), getattr(v, "kwargs", None)), c)
                elif tr_call.n != 1 or tr_call.ok or not isinstance(v, ApplicationError) or v.error != ERR_WIRE or norm(list(v.args)) != norm(args) or norm(v.kwargs) != norm(kwargs):
                    raise Violation("C20|error|payload-not-recovered", "caller got %r args=%r kwargs=%r" % (v, getattr(v, "args", None), getattr(v, "kwargs", None)), c)
        return stats
    finally:
        p.close()


def unencodable_one(c, prop="C20"):
    """a payload value that the transport serializer can carry but the payload codec's own serializer cannot (a set, a datetime, a UUID over
    CBOR): in each of the payload-carrying directions the operation may fail, but the clear payload must not go out on the wire instead"""
    import datetime
    import uuid
    from autobahn.wamp.types import CallResult, RegisterOptions
    from autobahn.wamp.exception import ApplicationError
    value = {"set": lambda: {1, 2}, "frozenset": lambda: frozenset(["x"]), "datetime": lambda: datetime.datetime(2020, 1, 2, 3, 4, 5, tzinfo=datetime.timezone.utc),
             "uuid": lambda: uuid.UUID(int=7), "nested-set": lambda: {"deep": [{3}]}}[c["value"]]()
    p = Pair({"ser": c["ser"], "layout": "default"})
    direction = c["direction"]
    try:
        o, r, M = p.o, p.r, p.M

        def no_clear(world, n0, what):
            for raw in world.t.sent_raw[n0:]:
                try:
                    data, _ = world.t._serializer.serialize(raw)
                except Exception:
                    continue        # cannot be put on the wire at all
                if MARK.encode() in data:
                    raise Violation("C20|%s|clear-payload-sent-after-encryption-failed" % what, "%s written with the clear marker in it (enc_algo=%r)" % (type(raw).__name__, getattr(raw, "enc_algo", None)), c)
        if direction in ("publish", "call"):
            n0 = len(o.t.sent_raw)
            try:
                if direction == "publish":
                    o.call(lambda: o.session.publish("com.myapp.topic1", MARK, value, m=MARK + "-kw"))
                else:
                    o.track(o.call(lambda: o.session.call("com.myapp.proc1", MARK, value, m=MARK + "-kw")))
            except (Violation, HarnessError):
                raise
            except Exception:
                pass                # refusing the operation is fine
            o.settle()
            no_clear(o, n0, direction)
            return
        # responder side: a genuine encrypted request comes in, the endpoint answers with the unencodable value
        def endpoint(*a, **k):
            det = k.pop("details", None)
            if direction == "progress" and det is not None and det.progress is not None:
                det.progress(MARK, value)
                return "done"
            if direction == "error":
                raise ApplicationError("com.myapp.error.e1", MARK, value, m=MARK + "-kw")
            if direction == "yield-callresult":
                return CallResult(MARK, value, m=MARK + "-kw")
            return [MARK, value]
        r.track(r.call(lambda: r.session.register(endpoint, "com.myapp.proc1", RegisterOptions(details_arg="details"))))
        r.feed(M.Registered(r.t.sent[-1].request, 901))
        o.track(o.call(lambda: o.session.call("com.myapp.proc1", 1, 2)))
        call = o.t.sent[-1]
        n0 = len(r.t.sent_raw)
        err = r.feed(M.Invocation(777, 901, payload=call.payload, enc_algo=call.enc_algo, enc_key=call.enc_key, enc_serializer=call.enc_serializer,
                                  receive_progress=True if direction == "progress" else None))
        r.settle()
        if err is not None:
            raise Violation("C20|%s|onMessage-raised|%s" % (direction, exc_key(err)), repr(err), c)
        no_clear(r, n0, direction)
        terminal = [m for m in r.t.sent[n0:] if (type(m).__name__ == "Yield" and not m.progress) or type(m).__name__ == "Error"]
        if len(terminal) > 1:
            raise Violation("C20|%s|terminal-reply-count-%d" % (direction, len(terminal)), "the invocation was answered more than once: %r" % ([type(m).__name__ for m in r.t.sent[n0:]],), c)
        if prop == "C10" and len(terminal) != 1:
            # (C10's claim, checked from checks/c10: every INVOCATION gets exactly one terminal reply while the transport is up - also when the reply cannot be encrypted)
            raise Violation("C10|encrypted|terminal-reply-count-%d|%s" % (len(terminal), direction), "encrypted invocation, endpoint outcome %r with a value the payload codec cannot serialize: replies %r" % (
                direction, [type(m).__name__ for m in r.t.sent[n0:]]), dict(c, check="encrypted_unencodable"))
    finally:
        p.close()


def unencodable(col):
    for ser in ("cbor", "msgpack"):
        for direction in ("publish", "call", "yield", "yield-callresult", "error", "progress"):
            for value in ("set", "frozenset", "datetime", "uuid", "nested-set"):
                c = {"check": "unencodable", "ser": ser, "direction": direction, "value": value}
                try:
                    unencodable_one(c)
                except (Violation, HarnessError):
                    raise
                except Exception as e:
                    from harness.core import in_autobahn
                    if in_autobahn(e):
                        raise Violation("C20|unencodable|exception|" + exc_key(e), repr(e), c)
                    raise
                col.case(True, enum=True, cls=["unencodable/%s/%s" % (direction, value)], sample=c)
    col.exhaustive.append("C20 unencodable: 6 directions x 5 values the payload codec cannot serialize x 2 transport serializers")


def flows(col, seed, n, xors):
    def body(c):
        try:
            stats = check_flow(c, xors)
        except (Violation, HarnessError):
            raise
        except Exception as e:
            from harness.core import in_autobahn
            if in_autobahn(e):
                raise Violation("C20|exception|" + exc_key(e), repr(e), c)
            raise
        col.case(True, dig=c, cls=["layout:" + c["layout"], "direction:" + c["direction"], "ser:" + c["ser"]] + (["request-without-arguments"] if c.get("empty") else []) + (["progressive-results"] if c.get("progress") and c["direction"] == "call" else []) + (["prefix-registration"] if c.get("prefix_reg") and c["direction"] != "publish" else []) + (["several-handlers-on-one-subscription"] if (c.get("handlers") or 1) > 1 and c["direction"] == "publish" else []) + (["error-uri-mapped-to-class-at-caller"] if c.get("caller_defines") and c["direction"] == "call-error" else []), sample=dict(c, tampered_variants=stats["tampered"]))
        col.count("tampered-ciphertexts", stats["tampered"])
    run_hypothesis(col, "flows", strategy(), body, n, seed)


def replay(col, case):
    case = dec(case)
    c = case.get("case", case)
    if c.get("check") == "unencodable":
        unencodable_one(c)
        col.case()
        return
    c.pop("check", None)
    c.pop("tampered_variants", None)
    check_flow(c, 1)
    col.case()
