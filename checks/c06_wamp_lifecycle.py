"""C06 - WAMP sessions end cleanly on every path and leave nothing pending."""
from harness.core import Violation, HarnessError, run_hypothesis, dec, exc_key, brief

DESCRIPTION = {
    "level": "fault_enumeration",
    "rule": ("Hypothesis draws a router conversation that follows the WAMP session state machine (0-2 CHALLENGE rounds, then WELCOME or ABORT, later a GOODBYE from either "
             "side), local leave()/disconnect() calls, requests of the six kinds issued while joined (left outstanding or answered), user callback behaviours for "
             "onChallenge/onWelcome/onJoin/onLeave/onDisconnect in {return, return a pending result resolved later, raise after the base implementation ran; onLeave additionally: an override that only disconnects, and an "
             "override that re-enters leave() before disconnecting}, optionally request errbacks that call leave() (local leave requests made while the session is ending) or issue a new call (retry logic; it must fail, at once or later, never hang), and at most one "
             "message that is illegal in the current phase at a drawn position; every history is re-run with transport loss injected after each prefix (fault enumeration). "
             "Oracle: the callback log matches connect? join? leave? disconnect? in that order, each at most once; leave fired exactly once when a joined session ended or the "
             "router aborted; the illegal message raises ProtocolError and is not acted on; GOODBYE written at most once and a peer GOODBYE answered iff we had not sent one; once "
             "the transport is gone every request Deferred/Future is completed with an error (already at leave time when the library's own onLeave ran) and call/publish/subscribe/"
             "register raise TransportLost.  The reason URI and message on the router's GOODBYE are drawn per history (six URIs including wamp.close.goodbye_and_out and an error URI): whether it is answered depends only on who initiated.  Endings include a join() on the still established session (must be refused and change nothing).  Non-trivial = >=1 outstanding request at the end and an exit path other than WELCOME-leave-GOODBYE; distinct by (history, loss position). onChallenge() may also return a pending result that *fails* later: while authenticating (then exactly like a raising onChallenge), after the router's ABORT or after transport loss (then nothing may be sent and no callback may fire)."),
    "assumptions": ["re-joining on the same transport is not generated"],
}

KINDS = ["call", "publish", "subscribe", "register", "unsubscribe", "unregister"]


def plan(tier, seed):
    n = 500 if tier == "quick" else 10000
    jobs = []
    for i, fw in enumerate(("twisted", "asyncio")):
        for sh in range(3 if tier == "quick" else 8):
            jobs.append({"func": "histories", "fw": fw, "name": "hist/%s/%d" % (fw, sh), "args": {"seed": seed * 1000 + i * 100 + sh, "n": n}})
    return jobs


def strategy():
    from hypothesis import strategies as st
    beh = st.sampled_from(["return", "return", "return", "pending", "raise"])

    @st.composite
    def hist(draw):
        cbs = {k: draw(beh) for k in ("onChallenge", "onJoin", "onLeave", "onDisconnect")}
        if draw(st.integers(0, 3)) == 0:
            # an onChallenge() whose Deferred / Future is pending and then *fails* (an external signer giving up) - while the connection is up, or only
            # after the router's ABORT / the loss of the transport
            cbs["onChallenge"] = "pending-fail"
        if draw(st.integers(0, 4)) == 0:
            cbs["onLeave"] = "override"       # user onLeave that only calls self.disconnect() and not the base implementation
        elif draw(st.integers(0, 5)) == 0:
            cbs["onLeave"] = "reenter"        # user onLeave that (redundantly) calls self.leave() before self.disconnect(): a local leave request while the session is ending
        cbs["errback_leave"] = draw(st.sampled_from([False, False, True]))
        cbs["errback_retry"] = draw(st.sampled_from([False, False, True]))   # errbacks of outstanding requests issue a new call (retry logic): it must fail at once or be failed later, never hang   # errbacks of outstanding requests call leave() (a local leave request at session end)
        cbs["onWelcome"] = draw(st.sampled_from(["return", "return", "return", "return", "return", "veto", "raise", "pending"]))
        steps = []
        for _ in range(draw(st.integers(0, 2))):
            steps.append(("challenge", draw(st.sampled_from(["ticket", "wampcra"]))))
        outcome = draw(st.sampled_from(["welcome", "welcome", "welcome", "welcome", "welcome", "welcome", "abort", "none"]))
        if outcome != "none":
            steps.append((outcome,))
        if outcome == "welcome":
            body = draw(st.lists(st.one_of(
                st.tuples(st.just("request"), st.sampled_from(KINDS), st.sampled_from([False, False, True])),
                st.tuples(st.just("request"), st.sampled_from(["subscribe", "register"]), st.just(True)),
                st.tuples(st.just("resolve")), st.tuples(st.just("event")),
            ), min_size=1, max_size=6))
            steps.extend(body)
            ending = draw(st.sampled_from(["leave-goodbye", "goodbye", "leave", "disconnect", "leave-leave-goodbye", "goodbye-goodbye?", "none", "leave-disconnect", "goodbye-leave",
                                           "leave-rejoin-goodbye", "leave-rejoin-leave-goodbye", "rejoin-leave-goodbye"]))
            steps.extend({"leave-goodbye": [("leave",), ("goodbye",)], "goodbye": [("goodbye",)], "leave": [("leave",)], "disconnect": [("disconnect",)],
                          "leave-rejoin-goodbye": [("leave",), ("rejoin",), ("goodbye",)], "leave-rejoin-leave-goodbye": [("leave",), ("rejoin",), ("leave",), ("goodbye",)],
                          "rejoin-leave-goodbye": [("rejoin",), ("leave",), ("goodbye",)],
                          "leave-leave-goodbye": [("leave",), ("leave",), ("goodbye",)], "goodbye-goodbye?": [("goodbye",)], "none": [],
                          "leave-disconnect": [("leave",), ("disconnect",)], "goodbye-leave": [("goodbye",), ("leave",)]}[ending])
        steps.append(("resolve",))
        illegal = draw(st.one_of(st.none(), st.tuples(st.integers(0, len(steps)), st.sampled_from(["event", "result", "goodbye", "welcome", "challenge", "abort", "registered", "hello", "invocation"]))))
        # the reason URI (and message) the router puts on its GOODBYE: whether it is answered depends only on who initiated closing
        gb = draw(st.sampled_from([None, None, "wamp.close.goodbye_and_out", "wamp.close.normal", "wamp.close.system_shutdown", "wamp.close.close_realm",
                                   "wamp.error.not_authorized", "com.example.bye"]))
        return {"cbs": cbs, "steps": steps, "illegal": illegal, "ser": draw(st.sampled_from(["json", "cbor"])), "goodbye_reason": gb,
                "goodbye_message": draw(st.sampled_from([None, None, "bye", "ü"]))}
    return hist()


class Run:
    def __init__(self, c, loss_at):
        from harness.wampsess import SessionWorld
        import txaio
        self.c = c
        self.loss_at = loss_at
        self.pending_cb = []
        cbs = c["cbs"]
        run = self

        def behave(name, base_result=None, default=None):
            b = cbs.get(name, "return")
            if b == "raise":
                raise RuntimeError("user %s fails" % name)
            if b in ("pending", "pending-fail"):
                f = txaio.create_future()
                run.pending_cb.append((f, default, name, b == "pending-fail"))
                return f
            return default

        hooks = {
            "onChallenge": lambda s, ch: behave("onChallenge", default="sig"),
            "onJoin": lambda s, d: behave("onJoin"),
            "onLeave": lambda s, d, r: behave("onLeave", default=r) if cbs.get("onLeave") != "return" else r,
            "onDisconnect": lambda s: behave("onDisconnect"),
        }

        def on_welcome(s, w):
            b = cbs.get("onWelcome")
            if b == "veto":
                return "not welcome"
            return behave("onWelcome")
        hooks["onWelcome"] = on_welcome
        if cbs.get("onLeave") == "override":
            hooks["onLeave_nobase"] = lambda s, d: s.disconnect()
        if cbs.get("onLeave") == "reenter":
            def reenter(s, d):
                try:
                    s.leave()
                except Exception as e:
                    run.reenter_errors.append(e)
                s.disconnect()
            hooks["onLeave_nobase"] = reenter
        self.reenter_errors = []
        self.retries = []
        self.keep_subs = []
        self.w = SessionWorld(serializer=c["ser"], hooks=hooks)
        self.s = self.w.session
        self.M = self.w.message
        self.phase = "new"
        self.joined_ever = False
        self.goodbye_sent = False
        self.goodbye_rcvd = False
        self.router_aborted = False
        self.local_abort = False
        self.reqs = []
        self.subs = []
        self.regs = []
        self.rid = 7000
        self.transport_gone = False
        self.onleave_ran_at = None

    def key(self, what):
        return "C06|" + what

    def fail(self, what, detail):
        raise Violation(self.key(what), "%s  [cbs=%r steps=%r illegal=%r loss_at=%r events=%r]" % (detail, self.c["cbs"], self.c["steps"], self.c["illegal"], self.loss_at, self.w.events),
                        dict(self.c, loss_at=self.loss_at))

    def sent_names(self, since):
        return [type(m).__name__ for m in self.w.t.sent[since:]]

    def feed(self, msg, legal=True):
        n_ev = len(self.w.events)
        n_sent = len(self.w.t.sent)
        err = self.w.feed(msg)
        return err, n_ev, n_sent

    def is_joined(self):
        return self.phase == "joined"

    def run(self):
        from autobahn.wamp.exception import ProtocolError
        steps = list(self.c["steps"])
        ill = self.c["illegal"]
        self.w.open()
        if ("connect",) not in self.w.events:
            self.fail("connect-not-fired", "")
        if [type(m).__name__ for m in self.w.t.sent] != ["Hello"]:
            self.fail("hello-not-sent", repr(self.sent_names(0)))
        self.phase = "pre"
        for k, st_ in enumerate(steps + [("end",)]):
            if self.loss_at == k:
                self.lose()
                break
            if ill is not None and ill[0] == k:
                self.do_illegal(ill[1])
            if st_[0] == "end":
                break
            getattr(self, "do_" + st_[0])(*st_[1:])
            # asyncio reports a failed user-callback future that nobody awaits ("never retrieved") at GC time: that is the injected fault itself
            errs = [e for e in self.w.d.loop_errors if "user on" not in repr(e) and not (self.w.t.closed and ("TransportLost" in repr(e) or "NoneType" in repr(e)))]
            if errs:
                self.fail("loop-exception", repr(errs[0])[:300])
            self.check_goodbye_count()
        else:
            pass
        if not self.transport_gone and self.w.t.closed:
            # the library closed the transport itself: the framework now reports the loss
            self.lose()
        self.final_checks()
        self.w.close()

    # ---------------- router -> session
    def do_challenge(self, method):
        if self.phase != "pre" or self.w.t.closed:
            return
        self.do_resolve()
        if self.phase != "pre" or self.w.t.closed:
            return      # the pending onChallenge() of the previous round failed: this side has aborted, a conforming router sends nothing more
        err, n_ev, n_sent = self.feed(self.M.Challenge(method, {"challenge": "x"}))
        if err is not None:
            self.fail("challenge-raised|" + exc_key(err), repr(err))
        b = self.c["cbs"]["onChallenge"]
        sent = self.sent_names(n_sent)
        if b == "pending-fail" and sent:
            self.fail("challenge-answered-before-onChallenge-completed", repr(sent))
        if b == "return":
            if sent != ["Authenticate"]:
                self.fail("challenge-not-answered", repr(sent))
        elif b == "raise":
            if sent != ["Abort"]:
                self.fail("failing-onChallenge-not-aborted", repr(sent))
            self.local_abort = "onChallenge"
            self.phase = "aborted-locally"

    def do_welcome(self):
        if self.phase != "pre" or self.w.t.closed:
            return
        self.do_resolve()      # the router answers only after it received AUTHENTICATE
        if self.phase != "pre" or self.w.t.closed:
            return
        err, n_ev, n_sent = self.feed(self.M.Welcome(4242, self.w.router_roles, realm="realm1"))
        if err is not None:
            self.fail("welcome-raised|" + exc_key(err), repr(err))
        b = self.c["cbs"]["onWelcome"]
        if b in ("veto", "raise"):
            if self.sent_names(n_sent) != ["Abort"]:
                self.fail("onWelcome-veto-not-aborted", repr(self.sent_names(n_sent)))
            if any(e[0] == "join" for e in self.w.events):
                self.fail("joined-despite-onWelcome-veto", "")
            self.local_abort = "onWelcome"
            self.phase = "aborted-locally"
            return
        if b == "pending":
            self.welcome_pending = True
            return
        self.after_join()

    def after_join(self):
        if not any(e[0] == "join" for e in self.w.events):
            self.fail("join-not-fired-after-welcome", "")
        self.phase = "joined"
        self.joined_ever = True

    def do_abort(self):
        if self.phase != "pre" or self.w.t.closed:
            return
        if self.c["cbs"].get("onChallenge") != "pending-fail":
            self.do_resolve()      # (with a failing signer the router's ABORT may well arrive while onChallenge() is still pending: its failure then comes late)
        if self.phase != "pre" or self.w.t.closed:
            return
        err, n_ev, n_sent = self.feed(self.M.Abort("wamp.error.no_such_realm", "nope"))
        if err is not None:
            self.fail("abort-raised|" + exc_key(err), repr(err))
        self.router_aborted = True
        self.phase = "aborted"
        if sum(1 for e in self.w.events if e[0] == "leave") != 1:
            self.fail("leave-not-fired-once-on-router-abort", "")

    def do_goodbye(self):
        if self.phase != "joined" or self.w.t.closed:
            return
        reason = self.c.get("goodbye_reason") or ("wamp.close.goodbye_and_out" if self.goodbye_sent else "wamp.close.system_shutdown")
        err, n_ev, n_sent = self.feed(self.M.Goodbye(reason, self.c.get("goodbye_message")))
        if err is not None:
            self.fail("goodbye-raised|" + exc_key(err), repr(err))
        sent = self.sent_names(n_sent)
        if self.goodbye_sent:
            if "Goodbye" in sent:
                self.fail("goodbye-answered-although-we-initiated", repr(sent))
        else:
            if sent.count("Goodbye") != 1:
                self.fail("peer-goodbye-not-answered", "router GOODBYE %r: sent %r" % (reason, sent))
            self.goodbye_sent = True
        self.goodbye_rcvd = True
        self.phase = "left"
        if sum(1 for e in self.w.events if e[0] == "leave") != 1:
            self.fail("leave-not-fired-once-on-goodbye", "")
        self.check_requests_failed("after-goodbye")

    def do_event(self):
        live = self.sub_objs()
        if self.phase != "joined" or not live or self.w.t.closed:
            return
        err, _, _ = self.feed(self.M.Event(live[0].id, 1, args=[1]))
        if err is not None:
            self.fail("event-raised|" + exc_key(err), repr(err))

    def do_illegal(self, kind):
        from autobahn.wamp.exception import ProtocolError
        if self.w.t.closed or self.phase in ("new",):
            return
        M = self.M
        pre = self.phase in ("pre",) and not getattr(self, "welcome_pending", False)
        msgs = {"event": M.Event(999, 1), "result": M.Result(999), "goodbye": M.Goodbye(), "welcome": M.Welcome(1, self.w.router_roles), "challenge": M.Challenge("ticket", {}),
                "abort": M.Abort("wamp.error.x"), "registered": M.Registered(998, 5), "hello": M.Hello("realm1", {"caller": __import__("autobahn").wamp.role.RoleCallerFeatures()}),
                "invocation": M.Invocation(3, 997)}
        if self.phase == "pre" and pre:
            if kind in ("welcome", "challenge", "abort"):
                return      # legal in this phase
        elif self.phase == "joined":
            if kind in ("goodbye", "event", "result", "registered", "invocation"):
                if kind == "goodbye":
                    return  # legal
                # replies to nothing / events for nothing are protocol errors too, keep them
        else:
            return          # after the session ended (or was aborted locally) the router may not send anything sensible: not judged
        n_events = len(self.w.events)
        n_sent = len(self.w.t.sent)
        snap = [r["t"].n for r in self.reqs]
        err = self.w.feed(msgs[kind])
        if not isinstance(err, ProtocolError):
            self.fail("illegal-message-not-rejected|%s-in-%s" % (kind, self.phase), "onMessage returned %r" % (err,))
        if len(self.w.events) != n_events or len(self.w.t.sent) != n_sent or [r["t"].n for r in self.reqs] != snap:
            self.fail("illegal-message-acted-upon|%s-in-%s" % (kind, self.phase), "events %r sent %r" % (self.w.events[n_events:], self.sent_names(n_sent)))

    # ---------------- local actions
    def do_leave(self):
        if self.w.t.closed:
            return
        n_sent = len(self.w.t.sent)
        try:
            self.w.call(self.s.leave)
        except Exception as e:
            if self.phase == "joined":
                self.fail("leave-raised|" + exc_key(e), repr(e))
            return
        sent = self.sent_names(n_sent)
        if self.phase == "joined" and not self.goodbye_sent:
            if sent != ["Goodbye"]:
                self.fail("leave-did-not-send-goodbye", repr(sent))
            self.goodbye_sent = True
        elif sent:
            self.fail("leave-sent-message-although-not-due", "phase %s goodbye_sent=%r: %r" % (self.phase, self.goodbye_sent, sent))

    def do_rejoin(self):
        """the application calls join() again while the session is still established (joined, or closing with the router's GOODBYE outstanding): the
        call is refused - and a refused call leaves the session as it was"""
        if self.w.t.closed or self.phase != "joined":
            return
        n_sent = len(self.w.t.sent)
        try:
            self.w.call(lambda: self.s.join("realm1"))
            refused = False
        except Exception:
            refused = True
        sent = self.sent_names(n_sent)
        if not refused or sent:
            self.fail("join-on-established-session-not-refused", "join() on an established session: raised=%r, wrote %r" % (refused, sent))

    def do_disconnect(self):
        if self.w.t.closed:
            return
        try:
            self.w.call(self.s.disconnect)
        except Exception as e:
            self.fail("disconnect-raised|" + exc_key(e), repr(e))
        if not self.w.t.closed:
            self.fail("disconnect-did-not-close-transport", "")

    def do_request(self, kind, answer):
        if self.phase != "joined" or self.w.t.closed:
            return
        s, M = self.s, self.M
        n_sent = len(self.w.t.sent)
        try:
            if kind == "call":
                f = self.w.call(lambda: s.call("com.x.proc", 1))
            elif kind == "publish":
                from autobahn.wamp.types import PublishOptions
                f = self.w.call(lambda: s.publish("com.x.topic", 1, options=PublishOptions(acknowledge=True)))
            elif kind == "subscribe":
                f = self.w.call(lambda: s.subscribe(lambda *a, **k: None, "com.x.topic"))
            elif kind == "register":
                f = self.w.call(lambda: s.register(lambda *a, **k: None, "com.x.proc%d" % len(self.reqs)))
            elif kind == "unsubscribe":
                if not self.sub_objs():
                    return
                f = self.w.call(lambda: self.sub_objs()[0].unsubscribe())
            else:
                if not self.reg_objs():
                    return
                f = self.w.call(lambda: self.reg_objs()[0].unregister())
        except Exception as e:
            self.fail("request-raised-while-joined|%s|%s" % (kind, exc_key(e)), repr(e))
        if self.c["cbs"].get("errback_leave") or self.c["cbs"].get("errback_retry"):
            import txaio

            def eb(fail):
                if self.c["cbs"].get("errback_leave"):
                    try:
                        s.leave()
                    except Exception as e:
                        self.reenter_errors.append(e)
                if self.c["cbs"].get("errback_retry") and len(self.retries) < 3:
                    try:
                        f2 = s.call("com.x.retry", 1)
                    except Exception as e:       # refused at once: fine
                        self.reenter_errors.append(e)
                        return fail
                    from harness.wampsess import Track
                    self.retries.append(Track(self.w.d, f2))      # (no loop run here: we are inside a callback)
                return fail      # Twisted: pass the failure on to the observers registered after us
            txaio.add_callbacks(f, None, eb)
        t = self.w.track(f)      # registered after the application's own errback, so that the latter really sees the failure under Twisted
        new = self.w.t.sent[n_sent:]
        rid = new[0].request if new else None
        rec = {"kind": kind, "t": t, "rid": rid, "answered": False}
        if kind == "unsubscribe" and rid is None and t.done and t.ok:
            rec["answered"] = True      # other handlers remain on that subscription id: removed locally, no request went to the router
        self.reqs.append(rec)
        if answer and rid is not None:
            self.rid += 1
            reply = {"call": lambda: M.Result(rid, args=[1]), "publish": lambda: M.Published(rid, self.rid), "subscribe": lambda: M.Subscribed(rid, self.shared_sid()),
                     "register": lambda: M.Registered(rid, self.rid), "unsubscribe": lambda: M.Unsubscribed(rid), "unregister": lambda: M.Unregistered(rid)}[kind]()
            err = self.w.feed(reply)
            if err is not None:
                self.fail("reply-raised|%s|%s" % (kind, exc_key(err)), repr(err))
            rec["answered"] = True
            if kind == "subscribe":
                self.subs.append(self.rid)
                if rec["t"].done and rec["t"].ok:
                    self.keep_subs.append(rec["t"].value)
            if kind == "register":
                self.regs.append(self.rid)

    def shared_sid(self):
        """all subscriptions of a history are to the same topic: a router gives them the same subscription id"""
        if not hasattr(self, "_sid"):
            self._sid = self.rid
        return self._sid

    def sub_objs(self):
        out = []
        for lst in getattr(self.s, "_subscriptions", {}).values():
            out.extend(x for x in lst if x.active)
        return out

    def reg_objs(self):
        return [r for r in getattr(self.s, "_registrations", {}).values() if r.active]

    def do_resolve(self):
        import txaio
        pend, self.pending_cb = self.pending_cb, []
        for f, val, name, fails in pend:
            if not fails:
                self.w.call(lambda f=f, val=val: txaio.resolve(f, val))
                continue
            up = self.phase == "pre" and not self.transport_gone and not self.w.t.closed
            n_sent = len(self.w.t.sent)

            def go(f=f, name=name):
                try:
                    raise RuntimeError("user %s fails later" % name)
                except RuntimeError:
                    txaio.reject(f)
            self.w.call(go)
            self.w.settle()
            if name == "onChallenge" and up:
                # the failure arrives while the authentication is in progress: same as a raising onChallenge()
                if self.sent_names(n_sent) != ["Abort"]:
                    self.fail("failing-onChallenge-not-aborted", "late failure: %r" % (self.sent_names(n_sent),))
                self.local_abort = "onChallenge"
                self.phase = "aborted-locally"
            elif name == "onChallenge" and len(self.w.t.sent) != n_sent:
                self.fail("message-sent-for-a-dead-authentication", repr(self.sent_names(n_sent)))
        if getattr(self, "welcome_pending", False) and self.phase == "pre" and not self.w.t.closed:
            self.welcome_pending = False
            self.after_join()

    # ---------------- loss
    def lose(self):
        self.transport_gone = True
        was_joined = self.s._session_id is not None if hasattr(self.s, "_session_id") else None
        n_leave = sum(1 for e in self.w.events if e[0] == "leave")
        err = self.w.lose_transport(False)
        if err is not None:
            self.fail("onClose-raised|" + exc_key(err), repr(err))
        self.do_resolve()
        n_leave2 = sum(1 for e in self.w.events if e[0] == "leave")
        if self.phase == "joined" and n_leave2 != n_leave + 1:
            self.fail("leave-not-fired-on-transport-loss", "joined session lost its transport: leave count %d -> %d" % (n_leave, n_leave2))
        if sum(1 for e in self.w.events if e[0] == "disconnect") != 1:
            self.fail("disconnect-not-fired-once", "")

    # ---------------- invariants
    def check_goodbye_count(self):
        n = sum(1 for m in self.w.t.sent if type(m).__name__ == "Goodbye")
        if n > 1:
            self.fail("goodbye-sent-twice", "")

    def check_requests_failed(self, when):
        if self.c["cbs"]["onLeave"] in ("override", "reenter") and when != "after-transport-gone":
            return      # the library's onLeave did not run: requests are only required to fail once the transport is gone
        for r in self.reqs:
            if r["answered"]:
                continue
            if not r["t"].done:
                self.fail("request-left-pending|%s|%s" % (r["kind"], when), "request %r still pending" % (r["rid"],))
            elif r["t"].ok:
                self.fail("request-resolved-without-reply|%s|%s" % (r["kind"], when), repr(r["t"].value))

    def final_checks(self):
        from autobahn.wamp.exception import TransportLost
        ev = [e[0] for e in self.w.events if e[0] in ("connect", "join", "leave", "disconnect")]
        order = {"connect": 0, "join": 1, "leave": 2, "disconnect": 3}
        for name in order:
            if ev.count(name) > 1:
                self.fail("callback-fired-twice|" + name, repr(ev))
        if [order[x] for x in ev] != sorted(order[x] for x in ev):
            self.fail("callback-order", repr(ev))
        if "join" in ev and self.transport_gone and "leave" not in ev:
            self.fail("joined-session-ended-without-leave", repr(ev))
        if self.router_aborted and "leave" not in ev:
            self.fail("router-abort-without-leave", repr(ev))
        if "leave" in ev and not ("join" in ev or self.router_aborted):
            # "leave fired exactly when a joined session ends or the router aborts": a session that never joined and that this side aborted itself has nothing to leave
            self.fail("leave-without-join-or-router-abort|" + ("after-failing-" + self.local_abort if self.local_abort else "no-abort-at-all"), repr(ev))
        self.check_goodbye_count()
        if self.transport_gone:
            if "disconnect" not in ev:
                self.fail("disconnect-not-fired", repr(ev))
            self.check_requests_failed("after-transport-gone")
            self.w.settle()
            # handlers still attached when the session ended (several may share one subscription id): removing any of them is an API call made afterwards
            for k_, sub in enumerate([x for x in self.keep_subs if getattr(x, "active", False)][:3]):
                try:
                    r = self.w.call(lambda sub=sub: sub.unsubscribe())
                    self.fail("api-after-end-did-not-raise|unsubscribe", "handler #%d of %d on subscription %r: returned %r" % (k_, len(self.keep_subs), sub.id, r))
                except Violation:
                    raise
                except TransportLost:
                    pass
                except Exception as e:
                    self.fail("api-after-end-raised-other|unsubscribe|" + exc_key(e), repr(e))
            for t in self.retries:
                if not t.done:
                    self.fail("request-issued-while-session-ends-left-pending", "a call issued from the errback of a request that was failed at session end never completes")
                elif t.ok:
                    self.fail("request-resolved-without-reply|retry", repr(t.value))
            s = self.s
            from autobahn.wamp.types import PublishOptions
            for name, fn in (("call", lambda: s.call("a.b")), ("publish", lambda: s.publish("a.b", options=PublishOptions(acknowledge=True))),
                             ("subscribe", lambda: s.subscribe(lambda: None, "a.b")), ("register", lambda: s.register(lambda: None, "a.b"))):
                try:
                    r = self.w.call(fn)
                    self.fail("api-after-end-did-not-raise|" + name, "returned %r" % (r,))
                except Violation:
                    raise
                except TransportLost:
                    pass
                except Exception as e:
                    self.fail("api-after-end-raised-other|%s|%s" % (name, exc_key(e)), repr(e))


def check_history(c, col=None):
    n = len(c["steps"]) + 1
    results = []
    for loss_at in list(range(n + 1)) + [None]:
        r = Run(c, loss_at)
        try:
            r.run()
        except (Violation, HarnessError):
            raise
        except Exception as e:
            from harness.core import in_autobahn
            if in_autobahn(e):
                raise Violation("C06|exception|" + exc_key(e), "%r  [cbs=%r steps=%r illegal=%r loss_at=%r]" % (e, c["cbs"], c["steps"], c["illegal"], loss_at), dict(c, loss_at=loss_at))
            raise
        finally:
            try:
                r.w.close()
            except Exception:
                pass
        outstanding = sum(1 for q in r.reqs if not q["answered"])
        plain = [s[0] for s in c["steps"] if s[0] not in ("resolve",)] == ["welcome", "leave", "goodbye"] and loss_at is None
        if col is not None:
            col.case(outstanding >= 1 and not plain, dig=[c, loss_at], cls=["loss@%s" % ("none" if loss_at is None else min(loss_at, 6)), "end:" + r.phase] +
                     (["outstanding-requests"] if outstanding else []) + (["illegal:" + c["illegal"][1]] if c["illegal"] else []),
                     sample={"cbs": c["cbs"], "steps": c["steps"], "illegal": c["illegal"], "loss_at": loss_at})
    return results


def histories(col, seed, n):
    def body(c):
        check_history(c, col)
    run_hypothesis(col, "hist", strategy(), body, n, seed)


def replay(col, case):
    case = dec(case)
    c = case.get("case", case)
    c = dict(c)
    loss_at = c.pop("loss_at", "all")
    c["steps"] = [tuple(s) for s in c["steps"]]
    if c.get("illegal") is not None:
        c["illegal"] = tuple(c["illegal"])
    if loss_at == "all":
        check_history(c)
    else:
        Run(c, loss_at).run()
    col.case()
