"""C16 - configured payload limits are enforced early and never by truncation."""
import struct
import zlib

from harness.core import Violation, HarnessError, run_hypothesis, dec, exc_key, brief

DESCRIPTION = {
    "level": "exploration",
    "rule": ("Receive side: Hypothesis draws maxFramePayloadSize/maxMessagePayloadSize from {0,1,125,126,1000,65535,65536,100000}, role, failByDrop, compression and "
             "a peer traffic of messages whose total size is limit-1/limit/limit+1/>>limit spread over 1-6 fragments in every way; the offending frame is delivered "
             "header-only first; in a quarter of the cases the application has already called sendClose() (close handshake in progress, data still arriving).  Oracle (independent size accounting on the generated frame list): messages within the limits are delivered intact; as soon as the header "
             "of the first offending frame has been fed the endpoint has failed (close frame 1009, or drop when failByDrop or when our close frame is already out) before any payload byte; nothing of that message "
             "or after it is delivered.  Send side: sendMessage around the limit: over-limit raises PayloadExceededError and writes nothing, with compression and context "
             "takeover the following messages still arrive intact at the peer.  Decompression cap (max_message_size on the accept objects): a compressible message inflating "
             "above the cap is never delivered truncated/altered and later messages are intact or the connection is failed.  With compression negotiated the peer also sends compressed messages (RSV1; raw-deflate stored blocks built to the exact wire size).  Header-only frames announcing >= 4 GiB (upper half of the 64-bit length in use) must fail at the header.  While the payload of a refused frame keeps arriving (transport still up) the octets held by the protocol object must not grow.  Non-trivial = total within +-1 of a limit, "
             "excess first appearing in a continuation frame, or header-only delivery; distinct by (limits, fragment sizes, role). In a third of the receive and decompression-cap cases the application first had an over-limit sendMessage() refused on the same connection (PayloadExceededError, nothing written, connection stays up): the receive-side limits must be unaffected."),
    "assumptions": ["with compression negotiated the frame/message limits bound the wire payload (sum of declared frame lengths); the inflated size is bounded only by the decompression cap"],
}

LIMITS = [0, 1, 125, 126, 1000, 65535, 65536, 100000]


def plan(tier, seed):
    n = 500 if tier == "quick" else 10000
    jobs = []
    for i, fw in enumerate(("twisted", "asyncio")):
        for sh in range(2 if tier == "quick" else 6):
            jobs.append({"func": "receive", "fw": fw, "name": "rx/%s/%d" % (fw, sh), "args": {"seed": seed * 1000 + i * 100 + sh, "n": n}})
        jobs.append({"func": "send", "fw": fw, "name": "tx/%s" % fw, "args": {"seed": seed * 1000 + i * 100 + 50, "n": 300 if tier == "quick" else 2500}})
        jobs.append({"func": "decompress_cap", "fw": fw, "name": "cap/%s" % fw, "args": {"seed": seed * 1000 + i * 100 + 70, "n": 300 if tier == "quick" else 2500}})
    return jobs


def rx_strategy():
    from hypothesis import strategies as st

    @st.composite
    def case(draw):
        mf = draw(st.sampled_from(LIMITS))
        mm = draw(st.sampled_from(LIMITS))
        if mf == 0 and mm == 0:
            mm = draw(st.sampled_from(LIMITS[1:]))
        lim = mm or mf
        msgs = []
        for _ in range(draw(st.integers(1, 4))):
            base = draw(st.sampled_from([l for l in (mf, mm) if l] or [lim]))
            total = max(0, base + draw(st.sampled_from([-1, 0, 1, 1, -2, 2, 7, base, 3 * base + 5, -base])))
            total = min(total, 350000)
            nfrag = draw(st.integers(1, 6))
            cuts = sorted(draw(st.lists(st.one_of(st.integers(0, total), st.sampled_from([c for c in (mf - 1, mf, mf + 1, mm - 1, mm, mm + 1) if 0 <= c <= total] or [0])),
                                        min_size=nfrag - 1, max_size=nfrag - 1)))
            msgs.append({"total": total, "cuts": cuts, "bin": draw(st.booleans()), "z": draw(st.booleans())})
        if draw(st.integers(0, 5)) == 0:
            low = draw(st.sampled_from([0, 1, 10, max(0, lim - 1), lim, 125, 65535]))
            msgs.append({"total": 0, "cuts": [], "bin": draw(st.booleans()), "huge": draw(st.sampled_from([1, 2, 256, 2 ** 30, 2 ** 31 - 1])) * 2 ** 32 + low,
                         "after_fragment": draw(st.booleans())})
        return {"server": draw(st.booleans()), "fbd": draw(st.booleans()), "comp": draw(st.integers(0, 2)) == 0, "mf": mf, "mm": mm, "msgs": msgs,
                "ping_between": draw(st.booleans()),
                # the application has already asked for a close (our close frame is out, the peer's reply is not in yet): data still arrives and limits still apply
                "closing": draw(st.sampled_from([False, False, False, True])),
                # earlier on this connection the application tried to send a message above its own limit (refused locally with an error, nothing written):
                # the receive-side limits must be unaffected by that
                "refused_send": draw(st.sampled_from([False, False, True]))}
    return case()


def retained_octets(obj, depth=2):
    """octets held in bytes-like attributes of a protocol object (its buffers), found generically: bytes / bytearray / memoryview values, containers of
    them, and one level of helper objects"""
    import collections
    seen, total, stack = set(), 0, [(obj, 0)]
    while stack:
        o, dep = stack.pop()
        if id(o) in seen:
            continue
        seen.add(id(o))
        if isinstance(o, (bytes, bytearray, memoryview)):
            total += len(o)
        elif isinstance(o, (list, tuple, collections.deque, set)):
            if len(o) <= 100000:
                stack.extend((x, dep) for x in o)
        elif isinstance(o, dict):
            stack.extend((x, dep) for x in o.values())
        elif hasattr(o, "__dict__") and dep < depth and type(o).__module__.startswith(("autobahn", "checks", "harness")) is not False:
            if dep < depth and not isinstance(o, type):
                stack.extend((x, dep + 1) for k, x in vars(o).items() if k not in ("factory", "transport", "log"))
    return total


def stored_deflate(total, plain_source):
    """a permessage-deflate message body (RFC 7692 7.2.1: raw deflate stream with the trailing 00 00 ff ff removed) of exactly `total` wire
    octets, made of stored blocks only; returns (wire, plaintext) or None when `total` cannot be met (1 < total < 6)"""
    if total == 1:
        return b"\x00", b""
    r = total - 1                       # the final octet is the 0x00 left over from the empty stored block
    if r < 5:
        return None
    k = max(1, -(-r // 65540))
    data_total = r - 5 * k
    if data_total < 0:
        return None
    plain = plain_source(data_total)
    wire, pos = b"", 0
    for j in range(k):
        n = min(65535, data_total - pos) if j < k - 1 else data_total - pos
        if n > 65535:
            return None
        wire += b"\x00" + struct.pack("<H", n) + struct.pack("<H", n ^ 0xFFFF) + plain[pos:pos + n]
        pos += n
    wire += b"\x00"
    assert len(wire) == total and zlib.decompressobj(-15).decompress(wire + b"\x00\x00\xff\xff") == plain
    return wire, plain


def check_receive(c):
    from checks.c02_ws_receive import Rx
    from checks.wsdrive import pattern, utf8_text
    from harness import ref6455
    rx = Rx(c["server"], c["comp"], c["fbd"], {"maxFramePayloadSize": c["mf"], "maxMessagePayloadSize": c["mm"]})
    mk = b"\x0f\x1e\x2d\x3c" if c["server"] else None
    mf, mm = c["mf"], c["mm"]
    if c.get("refused_send") and mm:
        refused_send_first(rx, mm, c)
    if c.get("closing"):
        rx.d.call(rx.side.proto.sendClose, 1000, "bye")
        rx.d.settle()
        rx.out += rx.ep.take()
    expected = []
    failed = False
    header_only_seen = False
    for mi, m in enumerate(c["msgs"]):
        if m.get("huge"):
            # a frame announcing a size far beyond any limit (>= 4 GiB: the upper half of the 64-bit length field is in use); only its header ever arrives
            n_decl = m["huge"]
            op = 2 if m["bin"] else 1
            if m.get("after_fragment"):
                rx.feed(ref6455.encode_frame(op, b"a", fin=False, mask=mk))
                op = 0
            hdr = ref6455.encode_frame(op, b"", fin=True, mask=mk, declared_len=n_decl, len_form=127, header_only=True)
            rx.feed(hdr)
            header_only_seen = True
            check_failed_now(rx, c, "after the header of a frame announcing %d octets (2^32*%d + %d)" % (n_decl, n_decl >> 32, n_decl & 0xFFFFFFFF))
            # whatever follows (as many octets as the low 32 bits announce, then another frame) must not turn into a message
            rx.feed(bytes(min(n_decl & 0xFFFFFFFF, 2000)))
            rx.feed(ref6455.encode_frame(1, b"after", mask=mk))
            failed = True
            break
        payload = pattern(m["total"], mi) if m["bin"] else utf8_text(m["total"], mi)
        deliver = payload
        rsv1 = 0
        if c["comp"] and m.get("z"):
            # the peer sends this message compressed (RSV1 on its first frame): the limits bound its wire payload (see assumptions)
            z = stored_deflate(m["total"], (lambda n: pattern(n, mi)) if m["bin"] else (lambda n: utf8_text(n, mi)))
            if z is not None:
                payload, deliver = z
                rsv1 = 4
        parts, pos = [], 0
        for cp in m["cuts"] + [len(payload)]:
            parts.append(payload[pos:cp])
            pos = cp
        # text fragments must not be cut inside... the library validates UTF-8 incrementally, any cut is fine
        running = 0
        offender = None
        for k, part in enumerate(parts):
            running += len(part)
            if (mm and running > mm) or (mf and len(part) > mf):
                offender = k
                break
        for k, part in enumerate(parts):
            op = (2 if m["bin"] else 1) if k == 0 else 0
            fin = k == len(parts) - 1
            rsv = rsv1 if k == 0 else 0
            if offender is not None and k == offender:
                hdr = ref6455.encode_frame(op, part, fin=fin, mask=mk, header_only=True, rsv=rsv)
                rx.feed(hdr)
                header_only_seen = True
                early = check_failed_now(rx, c, "after the header of the offending frame (msg %d frame %d: frame %d bytes, running total %d)" % (
                    mi, k, len(part), sum(len(p) for p in parts[:k + 1])))
                # now the payload and the rest arrive anyway - and are not kept: the frame was refused "before its payload is buffered"
                body = ref6455.encode_frame(op, part, fin=fin, mask=mk, rsv=rsv)[len(hdr):]
                held0 = retained_octets(rx.side.proto)
                rx.feed(body[:-1])                 # (measured while the frame is still incomplete)
                held1 = retained_octets(rx.side.proto)
                rx.feed(body[-1:])
                if len(body) >= 4096 and held1 - held0 > 1024 and not rx.ep.loss_delivered and not rx.ep.drop_requested:      # (after an abort no real transport delivers more reads)
                    raise Violation("C16|rx|payload-of-refused-frame-buffered", "after the connection was failed at the header, %d further payload octets were fed: the protocol object now holds %d octets more than before" % (
                        len(body), held1 - held0), c)
                failed = True
            else:
                rx.feed(ref6455.encode_frame(op, part, fin=fin, mask=mk, rsv=rsv))
        if offender is None and not failed:
            expected.append((m["bin"], deliver))
            if c["ping_between"]:
                rx.feed(ref6455.encode_frame(9, b"k", mask=mk))
        if failed:
            # everything after the offender must be ignored
            rx.feed(ref6455.encode_frame(1, b"after", mask=mk))
            break
    obs = rx.finish()
    got = [(e[1], e[2]) for e in obs["events"] if e[0] == "msg"]
    if got != expected:
        what = "over-limit-message-delivered" if any(len(p) > (mm or 1 << 62) for _, p in got) else ("delivery-after-limit-failure" if len(got) > len(expected) else "under-limit-message-lost-or-altered")
        raise Violation("C16|rx|" + what, "limits frame=%d msg=%d: delivered %r expected %r" % (mf, mm, [(b, len(p)) for b, p in got], [(b, len(p)) for b, p in expected]), c)
    if not failed and not c.get("closing"):
        if obs["dropped"] or obs["closes"] or [f for f in obs["frames"] if f.opcode == 8]:
            raise Violation("C16|rx|within-limit-traffic-failed", "limits frame=%d msg=%d sizes %r: %r" % (mf, mm, [m["total"] for m in c["msgs"]], obs["closes"] or obs["dropped"]), c)
    if obs["escaped"] or obs["loop_errors"]:
        raise Violation("C16|rx|exception|" + (exc_key(obs["escaped"][0]) if obs["escaped"] else "loop"), repr((obs["escaped"] or obs["loop_errors"])[0])[:300], c)
    return failed, header_only_seen


def refused_send_first(rx, limit, c):
    """the application calls sendMessage() with limit+1 incompressible octets: PayloadExceededError, nothing written, connection stays open"""
    from checks.wsdrive import pattern
    from autobahn.exception import PayloadExceededError
    before = len(rx.ep.t.written)
    try:
        rx.d.call(rx.side.proto.sendMessage, pattern(limit + 1, 99), True)
        raised = None
    except PayloadExceededError as e:
        raised = e
    except Exception as e:
        raise Violation("C16|tx|exception|" + exc_key(e), repr(e), c)
    rx.d.settle()
    if raised is None:
        raise Violation("C16|tx|over-limit-send-accepted", "size %d limit %d sent without error" % (limit + 1, limit), c)
    if len(rx.ep.t.written) != before:
        raise Violation("C16|tx|refused-send-wrote-bytes", "PayloadExceededError raised but %d chunk(s) written" % (len(rx.ep.t.written) - before), c)
    if rx.ep.drop_requested or rx.side.count("close"):
        raise Violation("C16|tx|refused-send-ended-the-connection", repr(rx.side.log[-2:]), c)


def check_failed_now(rx, c, when):
    from harness import ref6455
    rx.out += rx.ep.take()
    frames, _ = ref6455.parse_frames(rx.out)
    closes = [f for f in frames if f.opcode == 8]
    if c.get("closing"):
        # our close frame is already out (at most one may ever be sent): the only way left to fail the connection is to drop it
        if not rx.ep.drop_requested:
            raise Violation("C16|rx|not-failed-at-header|closing", "close handshake in progress: transport not dropped %s" % when, c)
        if len(closes) != 1:
            raise Violation("C16|rx|second-close-frame", "%d close frames %s" % (len(closes), when), c)
    elif c["fbd"]:
        if not rx.ep.drop_requested:
            raise Violation("C16|rx|not-failed-at-header", "failByDrop: transport not dropped %s" % when, c)
    else:
        if len(closes) != 1:
            raise Violation("C16|rx|not-failed-at-header", "no close frame written %s" % when, c)
        code = struct.unpack("!H", closes[0].payload[:2])[0] if len(closes[0].payload) >= 2 else None
        if code != 1009:
            raise Violation("C16|rx|wrong-close-status|%s" % code, "expected 1009 %s" % when, c)
    return True


def receive(col, seed, n):
    def body(c):
        failed, ho = check_receive(c)
        near = any(abs(m["total"] - l) <= 1 for m in c["msgs"] if not m.get("huge") for l in (c["mf"], c["mm"]) if l)
        col.case(near or ho, dig=c, cls=["rx/" + ("limit-hit" if failed else "within-limits"), "rx/role:" + ("server" if c["server"] else "client"),
                                        "rx/fbd=%s" % c["fbd"]] + (["rx/compression"] if c["comp"] else []) + (["rx/compressed-message"] if c["comp"] and any(m.get("z") and (m["total"] == 1 or m["total"] >= 6) for m in c["msgs"]) else []) + (["rx/header-only"] if ho else []) + (["rx/announced>=4GiB"] if any(m.get("huge") for m in c["msgs"]) else []) + (["rx/while-closing"] if c.get("closing") else []) + (["rx/after-a-refused-send"] if c.get("refused_send") and c["mm"] else []),
                 sample={"mf": c["mf"], "mm": c["mm"], "msgs": [(m["total"], m["cuts"]) for m in c["msgs"]], "role": "server" if c["server"] else "client"})
    run_hypothesis(col, "rx", rx_strategy(), body, n, seed)


# ---------------------------------------------------------------- send side

def send(col, seed, n):
    from hypothesis import strategies as st
    strat = st.fixed_dictionaries({
        "limit": st.sampled_from(LIMITS[1:]), "who": st.integers(0, 1), "compress": st.booleans(), "seed": st.integers(0, 1 << 20),
        "sizes": st.lists(st.tuples(st.sampled_from([-1, 0, 1, 5, 1000]), st.sampled_from(["rand", "comp", "text"])), min_size=2, max_size=6),
        "frag": st.sampled_from([0, 0, 100])})

    def body(c):
        check_send(c)
        col.case(True, dig=c, cls=["tx/" + ("compression" if c["compress"] else "plain")], sample=c)
    run_hypothesis(col, "tx", strat, body, n, seed)


def check_send(c):
    from checks import wsdrive
    from autobahn.exception import PayloadExceededError
    who = c["who"]
    opts = [{}, {}]
    opts[who]["maxMessagePayloadSize"] = c["limit"]
    case = {"seed": c["seed"], "copts": opts[0], "sopts": opts[1], "compress": c["compress"], "msgs": [[], []], "order": [], "schedule": []}
    r = wsdrive.PairRun(case, "all")
    try:
        r.run()
        side = r.sides[who]
        refused = 0
        for k, (delta, kind) in enumerate(c["sizes"]):
            size = max(0, c["limit"] + delta)
            if kind == "text":
                payload, binary = wsdrive.utf8_text(size, k), False
            elif kind == "comp":
                payload, binary = wsdrive.compressible(size, k), True
            else:
                payload, binary = wsdrive.pattern(size, k), True
            before = len(side.ep.t.written)
            try:
                r.d.call(side.proto.sendMessage, payload, binary, c["frag"] or None)
                raised = None
            except PayloadExceededError as e:
                raised = e
            except Exception as e:
                raise Violation("C16|tx|exception|" + exc_key(e), repr(e), c)
            wrote = len(side.ep.t.written) - before
            if raised is not None:
                refused += 1
                if wrote:
                    raise Violation("C16|tx|refused-send-wrote-bytes", "PayloadExceededError raised but %d chunk(s) written" % wrote, c)
                if not c["compress"] and size <= c["limit"]:
                    raise Violation("C16|tx|within-limit-send-refused", "size %d limit %d" % (size, c["limit"]), c)
            else:
                if not c["compress"] and size > c["limit"]:
                    raise Violation("C16|tx|over-limit-send-accepted", "size %d limit %d sent without error" % (size, c["limit"]), c)
                r.sent[who].append((binary, payload))
        r.pipe.run()
        r.d.settle()
        r.pipe.run()
        got = r.sides[1 - who].msgs()
        if got != r.sent[who]:
            k = next((i for i in range(min(len(got), len(r.sent[who]))) if got[i] != r.sent[who][i]), min(len(got), len(r.sent[who])))
            raise Violation("C16|tx|messages-after-refused-send-corrupted" if refused else "C16|tx|delivery-differs",
                            "compress=%s refused=%d: peer received %d msgs, sender sent %d; first difference at #%d: got %r" % (
                                c["compress"], refused, len(got), len(r.sent[who]), k, brief(got[k]) if k < len(got) else None), c)
        for s_ in r.sides:
            if s_.ep.escaped:
                raise Violation("C16|tx|exception-escaped|" + exc_key(s_.ep.escaped[0]), repr(s_.ep.escaped[0]), c)
    finally:
        r.close()


# ---------------------------------------------------------------- decompression cap

def decompress_cap(col, seed, n):
    from hypothesis import strategies as st
    strat = st.fixed_dictionaries({
        "server": st.booleans(), "cap": st.sampled_from([10, 100, 1000, 65536]), "nct": st.booleans(), "fbd": st.booleans(),
        "msgs": st.lists(st.tuples(st.sampled_from([-1, 0, 1, 50, 5000]), st.booleans(), st.integers(1, 3)), min_size=2, max_size=5),
        # a send limit is configured as well (far above every generated message) and the application had one over-limit send refused before the traffic
        "refused_send": st.sampled_from([False, False, True])})

    def body(c):
        over = check_cap(c)
        col.case(True, dig=c, cls=["cap/" + ("over-cap" if over else "within-cap"), "cap/context-takeover=%s" % (not c["nct"])], sample=c)
    run_hypothesis(col, "cap", strat, body, n, seed)


def check_cap(c):
    """receiver with max_message_size=cap; an independent deflate sender (context takeover per c['nct'])"""
    from harness import drv, wsutil, ref6455
    from autobahn.websocket.compress import (PerMessageDeflateOffer, PerMessageDeflateOfferAccept, PerMessageDeflateResponseAccept)
    d = drv.get_driver()
    cap = c["cap"]
    opts = {"failByDrop": c["fbd"], "openHandshakeTimeout": 0, "closeHandshakeTimeout": 0}
    if c.get("refused_send"):
        opts["maxMessagePayloadSize"] = 1 << 18
    if c["server"]:
        opts["perMessageCompressionAccept"] = lambda offers: PerMessageDeflateOfferAccept(offers[0], max_message_size=cap)
        side = wsutil.server(d, opts=opts)
        ext = "permessage-deflate" + ("; client_no_context_takeover" if c["nct"] else "")
        wsutil.open_server(side, extensions=ext)
        resp = None
    else:
        opts["perMessageCompressionOffers"] = [PerMessageDeflateOffer()]
        opts["perMessageCompressionAccept"] = lambda r: PerMessageDeflateResponseAccept(r, max_message_size=cap)
        opts["serverConnectionDropTimeout"] = 0
        side = wsutil.client(d, opts=opts)
        wsutil.open_client(side, extensions="permessage-deflate" + ("; server_no_context_takeover" if c["nct"] else ""))
    if side.proto._perMessageCompress is None:
        raise HarnessError("compression not negotiated")
    side.log[:] = []
    if c.get("refused_send"):
        class _R:
            pass
        rx_ = _R()
        rx_.d, rx_.side, rx_.ep = d, side, side.ep
        refused_send_first(rx_, 1 << 18, c)
    mk = b"\x21\x43\x65\x87" if c["server"] else None
    comp = zlib.compressobj(zlib.Z_DEFAULT_COMPRESSION, zlib.DEFLATED, -15)
    expected = []
    any_over = False
    for k, (delta, binary, nfrag) in enumerate(c["msgs"]):
        size = max(1, cap + delta)
        payload = (b"abcdefgh%d" % k) * (size // 8 + 1)
        payload = payload[:size]
        if c["nct"]:
            comp = zlib.compressobj(zlib.Z_DEFAULT_COMPRESSION, zlib.DEFLATED, -15)
        wire = (comp.compress(payload) + comp.flush(zlib.Z_SYNC_FLUSH))[:-4]
        step = max(1, len(wire) // nfrag)
        parts = [wire[i:i + step] for i in range(0, len(wire), step)] or [b""]
        for j, part in enumerate(parts):
            side.ep.feed(ref6455.encode_frame((2 if binary else 1) if j == 0 else 0, part, fin=(j == len(parts) - 1), rsv=4 if j == 0 else 0, mask=mk))
        d.settle()
        expected.append((binary, payload, size > cap))
        any_over = any_over or size > cap
    got = side.msgs()
    failed = bool(side.ep.drop_requested) or any(f.opcode == 8 for f in ref6455.parse_frames(side.ep.t.all_written().split(b"\r\n\r\n", 1)[-1] if not c["server"] else side.ep.t.all_written().split(b"\r\n\r\n", 1)[-1])[0])
    escaped = list(side.ep.escaped) + list(d.loop_errors)
    d.close()
    # every delivered message must be byte-identical to a sent one, in order (a subsequence when the connection was failed / messages rejected)
    gi = 0
    for (binary, payload, over) in expected:
        if gi < len(got) and got[gi] == (binary, payload):
            gi += 1
            continue
        if gi < len(got) and not failed and not over:
            # an under-cap message was lost or altered although the connection was not failed
            raise Violation("C16|cap|later-message-corrupted" if any(o for _, _, o in expected) else "C16|cap|under-cap-message-altered",
                            "cap=%d context-takeover=%s: got %r instead of %d bytes" % (c["cap"], not c["nct"], brief(got[gi]), len(payload)), c)
    if gi < len(got):
        g = got[gi]
        sent_sizes = [len(p) for _, p, _ in expected]
        kind = "truncated" if any(p.startswith(g[1]) and len(g[1]) < len(p) for _, p, _ in expected) else "altered"
        raise Violation("C16|cap|over-cap-message-delivered-%s" % kind, "cap=%d context-takeover=%s: delivered %d bytes %r; sent sizes %r" % (
            c["cap"], not c["nct"], len(g[1]), g[1][:24], sent_sizes), c)
    if escaped and not any(o for _, _, o in expected):
        raise Violation("C16|cap|exception|" + (exc_key(escaped[0]) if isinstance(escaped[0], Exception) else "loop"), repr(escaped[0])[:300], c)
    return any_over


def replay(col, case):
    case = dec(case)
    c = case.get("case", case)
    kind = c.pop("check", None)
    if "msgs" in c and "mf" in c:
        check_receive(c)
    elif "sizes" in c:
        check_send(c)
    elif "cap" in c:
        c["msgs"] = [tuple(x) for x in c["msgs"]]
        check_cap(c)
    col.case()
