"""Shared machinery for checks that run a library client against a library server
through the adversarial pipe (C01, C12 traffic, C15 mask policy, C16 sender side)."""
import hashlib
import random
import zlib

from harness import drv, ref6455, wsutil
from harness.core import HarnessError, Violation, exc_key, in_autobahn

BOUNDARY_LENS = [0, 1, 2, 124, 125, 126, 127, 128, 65534, 65535, 65536, 65537, (1 << 17) - 1, 1 << 17, (1 << 17) + 1]
FRAG_SIZES = [0, 1, 2, 125, 126, 127, 1000, 65535, 65536]

_TEXT_BLOCK = ("aé€😀zß߿ࠀ퟿￿\U00010000\U0010ffffx" * 8).encode("utf-8")


def pattern(n, salt=0):
    return hashlib.shake_128(b"ws-%d-%d" % (n, salt)).digest(n) if n else b""


def compressible(n, salt=0):
    unit = (b"the quick brown fox %d jumps over the lazy dog; " % salt)
    return (unit * (n // len(unit) + 1))[:n]


def utf8_text(n, salt=0):
    """valid UTF-8 of exactly n bytes, multi-byte code points spread throughout"""
    if n == 0:
        return b""
    rot = salt % len(_TEXT_BLOCK)
    # rotate on a code point boundary
    while rot < len(_TEXT_BLOCK) and (_TEXT_BLOCK[rot] & 0xC0) == 0x80:
        rot += 1
    blk = _TEXT_BLOCK[rot:] + _TEXT_BLOCK[:rot]
    out = (blk * (n // len(blk) + 1))[:n]
    # repair a truncated trailing code point with ascii filler
    k = n
    while k > 0 and (out[k - 1] & 0xC0) == 0x80:
        k -= 1
    if k > 0 and out[k - 1] >= 0xC0:
        need = 2 if out[k - 1] < 0xE0 else (3 if out[k - 1] < 0xF0 else 4)
        if n - (k - 1) < need:
            out = out[:k - 1] + b"~" * (n - (k - 1))
    out.decode("utf-8")
    assert len(out) == n
    return out


_DUP = hashlib.shake_128(b"ws-dup-stream").digest(70000)


def payload_of(m):
    kind = m.get("kind", "rand")
    if kind == "dup" and m["bin"] and m["len"] <= len(_DUP):
        # incompressible in itself, but a prefix of one common stream: a later "dup" message repeats an earlier one, so a context-takeover
        # compressor refers back across messages over a distance of about the message length (512 .. 32768 octets matter for window sizes)
        return _DUP[:m["len"]]
    if not m["bin"]:
        return utf8_text(m["len"], m["salt"])
    if kind == "comp":
        return compressible(m["len"], m["salt"])
    return pattern(m["len"], m["salt"])


def cut(payload, cuts):
    out, pos = [], 0
    for c in sorted(set(min(max(c, 0), len(payload)) for c in cuts)) + [len(payload)]:
        out.append(payload[pos:c])
        pos = c
    return out


def send_one(d, proto, factory, m, payload):
    """send one message through the API named in m['api'] (documented call order only); an exception out of a send API used in its
    documented order on an open connection is a failure of the library, not of the harness"""
    from harness.core import via_autobahn, exc_key
    try:
        _send_one(d, proto, factory, m, payload)
    except (Violation, HarnessError):
        raise
    except Exception as e:
        if via_autobahn(e):
            raise Violation("C01|send-api-raised|%s|%s" % (m["api"], exc_key(e)), "%s: %r (len=%d)" % (m["api"], e, len(payload)), None)
        raise


def _send_one(d, proto, factory, m, payload):
    api = m["api"]
    if api == "msg":
        d.call(proto.sendMessage, payload, m["bin"], m.get("frag") or None, bool(m.get("sync")), bool(m.get("dnc")))
    elif api == "frames":
        def go():
            proto.beginMessage(m["bin"], bool(m.get("dnc")))
            for part in cut(payload, m.get("cuts", [])):
                proto.sendMessageFrame(part, bool(m.get("sync")))
            proto.endMessage()
        d.call(go)
    elif api == "stream":
        def go():
            proto.beginMessage(m["bin"], bool(m.get("dnc")))
            for part in cut(payload, m.get("cuts", [])):
                proto.beginMessageFrame(len(part))
                pieces = cut(part, [len(part) // 3, (2 * len(part)) // 3 + 1]) if m.get("sub") else [part]
                sent = 0
                for piece in pieces:
                    if piece or not sent:
                        proto.sendMessageFrameData(piece, bool(m.get("sync")))
                        sent += 1
            proto.endMessage()
        d.call(go)
    elif api == "prepared":
        def go():
            pm = factory.prepareMessage(payload, m["bin"], bool(m.get("dnc")))
            proto.sendPreparedMessage(pm)
        d.call(go)
    elif api == "chop":
        def go():
            parts = cut(payload, m.get("cuts", []))
            for k, part in enumerate(parts):
                proto.sendFrame(opcode=(2 if m["bin"] else 1) if k == 0 else 0, payload=part,
                                fin=(k == len(parts) - 1), chopsize=m.get("chop") or None, sync=True)
        d.call(go)
    else:
        raise HarnessError("unknown api " + api)


def deflate_offer_setup(copts, sopts, params=None):
    """params (optional dict): req_wb = window the server requests of the client (client_max_window_bits), req_nct = the server requests
    client_no_context_takeover, offer_wb / offer_nct = what the client requests of the server"""
    from autobahn.websocket.compress import (PerMessageDeflateOffer, PerMessageDeflateOfferAccept,
                                             PerMessageDeflateResponseAccept)
    params = params if isinstance(params, dict) else {}
    copts["perMessageCompressionOffers"] = [PerMessageDeflateOffer(request_no_context_takeover=bool(params.get("offer_nct")), request_max_window_bits=params.get("offer_wb") or 0)]
    copts["perMessageCompressionAccept"] = lambda resp: PerMessageDeflateResponseAccept(resp)

    def saccept(offers):
        for o in offers:
            if isinstance(o, PerMessageDeflateOffer):
                return PerMessageDeflateOfferAccept(o, request_no_context_takeover=bool(params.get("req_nct")), request_max_window_bits=params.get("req_wb") or 0)
    sopts["perMessageCompressionAccept"] = saccept


class PairRun:
    """one execution of a client/server case under one schedule"""

    def __init__(self, case, mode):
        self.case = case
        d = self.d = drv.get_driver()
        copts = dict(case.get("copts", {}))
        sopts = dict(case.get("sopts", {}))
        if case.get("compress"):
            deflate_offer_setup(copts, sopts, case.get("compress"))
        self.onopen_sent = {0: False, 1: False}
        chooks = {"onOpen": lambda p: self._from_onopen(0)}
        shooks = {"onOpen": lambda p: self._from_onopen(1)}
        self.c = wsutil.client(d, opts=copts, hooks=chooks)
        self.s = wsutil.server(d, opts=sopts, hooks=shooks)
        drv.reseed(case.get("seed", 0))
        self.sides = (self.c, self.s)
        self.sent = ([], [])     # per direction: (bin, payload)
        self.mode = mode

    def _from_onopen(self, idx):
        side = self.sides[idx]
        for m in self.case["msgs"][idx]:
            if m.get("in_onopen"):
                p = payload_of(m)
                self._send_now(idx, m, p)

    def _send_now(self, idx, m, p):
        side = self.sides[idx]
        # inside a callback we are already inside the loop: call directly
        send_one(_Direct(), side.ep_proto, side.factory, m, p)
        self.sent[idx].append((m["bin"], p))

    def run(self):
        d, case = self.d, self.case
        try:
            self._connect()
            pipe = self.pipe
            if self.mode == "drawn":
                pipe.run(case.get("schedule", ()))
            elif self.mode == "all":
                pipe.run()
            elif self.mode == "burst":
                pipe.run_bytewise(self.mode_chunk() + 6, burst=5)
            else:
                pipe.run_bytewise(self.mode_chunk())
            if self.c.count("open") != 1 or self.s.count("open") != 1:
                raise Violation("C01|handshake-pair-did-not-open", "client log=%r server log=%r" % (self.c.log[:4], self.s.log[:4]))
            # interleave sends of both directions in drawn order
            order = case.get("order") or []
            queues = [[m for m in case["msgs"][0] if not m.get("in_onopen")], [m for m in case["msgs"][1] if not m.get("in_onopen")]]
            seq = []
            for o in order:
                if queues[o]:
                    seq.append((o, queues[o].pop(0)))
            for o in (0, 1):
                seq += [(o, m) for m in queues[o]]
            sched = list(case.get("schedule", ()))
            for k, (o, m) in enumerate(seq):
                p = payload_of(m)
                if self.sides[o].proto.state != 3:     # not OPEN any more although only valid traffic was exchanged
                    raise Violation("C01|connection-ended-during-valid-traffic", "before message %d: %s side in state %r; client log %r server log %r" % (
                        k, "client" if o == 0 else "server", self.sides[o].proto.state, [e for e in self.c.log if e[0] == "close"], [e for e in self.s.log if e[0] == "close"]), case)
                send_one(d, self.sides[o].proto, self.sides[o].factory, m, p)
                self.sent[o].append((m["bin"], p))
                if self.mode == "drawn" and sched and (case.get("seed", 0) >> (k % 16)) & 1:
                    step = sched[k % len(sched)]
                    pipe.step(step[0], step[1])
            d.settle()
            if self.mode == "drawn":
                pipe.run(sched)
            elif self.mode == "all":
                pipe.run()
            elif self.mode == "burst":
                pipe.run_bytewise(self.mode_chunk() + 6, burst=5)
            else:
                pipe.run_bytewise(self.mode_chunk())
            d.advance(0.01)
            pipe.run()
        finally:
            pass
        return self

    def mode_chunk(self):
        total = sum(m["len"] for ms in self.case["msgs"] for m in ms)
        if total <= 6000:
            return 1
        return 1 + (self.case.get("seed", 0) % 97) + total // 3000

    def _connect(self):
        d = self.d
        # protocols are built by hand so that the onOpen hooks know them
        # server first (passive), then client (which writes the request)
        se = self._mk(self.s)
        ce = self._mk(self.c)
        self.pipe = wsutil.Pipe(d, ce, se)

    def _mk(self, side):
        d = self.d
        if d.fw == "twisted":
            from twisted.internet.address import IPv4Address
            proto = side.factory.buildProtocol(IPv4Address("TCP", "127.0.0.1", 54321))
        else:
            proto = side.factory()
        side.ep_proto = proto
        side.proto = proto
        side.ep = d.connect(side.factory, proto=proto)
        return side.ep

    def close(self):
        self.d.close()


class _Direct:
    def call(self, fn, *a, **kw):
        return fn(*a, **kw)


# ---------------------------------------------------------------------------

def wire_check(run, key_prefix, compress_params=None):
    """strict check of what each side wrote after its handshake + independent reassembly"""
    case = run.case
    res = []
    for idx, side in enumerate(run.sides):
        raw = bytes(run.pipe.delivered[idx])
        i = raw.find(b"\r\n\r\n")
        if i < 0:
            raise Violation(key_prefix + "|no-handshake-bytes", "side %d" % idx)
        body = raw[i + 4:]
        frames, rest = ref6455.parse_frames(body)
        if rest:
            raise Violation(key_prefix + "|wire-trailing-garbage", "side %d wrote %d bytes that do not form a complete frame: %r" % (idx, len(rest), rest[:40]))
        opts = case.get("copts", {}) if idx == 0 else case.get("sopts", {})
        masked = opts.get("maskClientFrames", True) if idx == 0 else opts.get("maskServerFrames", False)
        probs = ref6455.wire_problems(frames, idx == 0, compression=bool(case.get("compress")), expect_masked=masked)
        if probs:
            raise Violation(key_prefix + "|wire-malformed|" + probs[0].split(": ", 1)[1].split(" ")[0], "side %d: %s" % (idx, probs[:4]))
        apply_mask = opts.get("applyMask", True)
        if not apply_mask:
            for f in frames:
                if f.masked:
                    f.payload = ref6455.xor_mask(f.payload, f.mask)   # payload travelled un-XORed
        inflater = None
        if case.get("compress"):
            wb, nct = (compress_params or {}).get(idx, (15, False))
            inflater = ref6455.RawInflater(wb, nct)
        events = ref6455.reassemble(frames, inflater)
        msgs = [(e[1], e[2]) for e in events if e[0] == "msg"]
        if msgs != run.sent[idx]:
            raise Violation(key_prefix + "|wire-content-differs", "side %d: independent reassembly of written frames gives %d msgs %r.., sent %d msgs %r.." % (
                idx, len(msgs), [(b, len(p)) for b, p in msgs[:6]], len(run.sent[idx]), [(b, len(p)) for b, p in run.sent[idx][:6]]))
        res.append((frames, events))
    return res


def delivery_check(run, key_prefix):
    # root causes first: an exception that escaped to the framework explains any missing delivery
    for side in run.sides:
        if side.ep.escaped:
            raise Violation(key_prefix + "|exception-escaped|" + exc_key(side.ep.escaped[0]), repr(side.ep.escaped[0]))
    if run.d.loop_errors:
        ctx = run.d.loop_errors[0]
        exc = ctx.get("exception") if isinstance(ctx, dict) else None
        raise Violation(key_prefix + "|loop-exception" + ("|" + exc_key(exc) if exc is not None else ""), repr(ctx)[:500])
    for idx in (0, 1):
        got = run.sides[1 - idx].msgs()
        exp = run.sent[idx]
        if got != exp:
            n = min(len(got), len(exp))
            first = next((k for k in range(n) if got[k] != exp[k]), n)
            what = "missing" if len(got) < len(exp) and first == len(got) else ("extra" if len(got) > len(exp) and first == len(exp) else "altered")
            raise Violation("%s|delivery-%s" % (key_prefix, what),
                            "direction %d (%s->%s), mode=%s: received %d msgs, sent %d; first difference at #%d: got %r expected %r" % (
                                idx, "client" if idx == 0 else "server", "server" if idx == 0 else "client", run.mode, len(got), len(exp), first,
                                (got[first][0], len(got[first][1]), got[first][1][:24]) if first < len(got) else None,
                                (exp[first][0], len(exp[first][1]), exp[first][1][:24]) if first < len(exp) else None))
    for side in run.sides:
        if side.count("close"):
            raise Violation(key_prefix + "|unexpected-close", repr([e for e in side.log if e[0] == "close"]))
        if side.ep.drop_requested:
            raise Violation(key_prefix + "|unexpected-drop", "side dropped the transport: %r" % (side.log[-3:],))


def run_modes(case, key_prefix, modes=("drawn", "all", "bytewise", "burst"), extra=None, compress_params=None):
    """run the case under each schedule; check delivery, wire, and schedule-independence"""
    results = []
    for mode in modes:
        r = PairRun(case, mode)
        try:
            try:
                r.run()
            except Violation:
                raise
            except HarnessError:
                raise
            except Exception as e:
                if in_autobahn(e):
                    raise Violation("%s|exception|%s" % (key_prefix, exc_key(e)), "mode=%s %r" % (mode, e))
                raise
            delivery_check(r, key_prefix)
            w = wire_check(r, key_prefix, compress_params)
            if extra:
                extra(r, w)
            results.append(r)
        finally:
            r.close()
    return results


# ---------------------------------------------------------------------------
# C15 mask policy on the wire

def mask_policy(col, seed, n):
    from hypothesis import strategies as st
    from harness.core import run_hypothesis

    msg = st.fixed_dictionaries({"len": st.sampled_from([0, 1, 5, 125, 126, 200, 70000]), "bin": st.booleans(), "salt": st.integers(0, 999),
                                 "api": st.sampled_from(["msg", "frames", "prepared", "stream"]),
                                 "frag": st.sampled_from([0, 0, 3, 100]), "cuts": st.lists(st.integers(0, 300), max_size=3)})
    cases = st.fixed_dictionaries({"seed": st.integers(0, 1 << 30),
                                   "msgs": st.tuples(st.lists(msg, min_size=8, max_size=12), st.lists(msg, min_size=1, max_size=6)),
                                   "pings": st.integers(0, 3)})

    def body(case):
        check_mask_policy(case)
        col.case(True, dig=case, cls="mask-policy/default-options", sample={"c_msgs": len(case["msgs"][0]), "s_msgs": len(case["msgs"][1]), "seed": case["seed"]})

    run_hypothesis(col, "policy", cases, body, n, seed, shrink=True)


def check_mask_policy(case):
    # the library draws frame keys with random.getrandbits(32): inside this check the draw is replaced by a collision-free sequence, so that
    # "two frames carry the same key" can only mean "no new key was drawn" (never a 2^-32 coincidence)
    orig = random.getrandbits
    ctr = [case.get("seed", 0) & 0xFFFF]

    def distinct_bits(k):
        if k != 32:
            return orig(k)
        ctr[0] += 1
        return (ctr[0] * 2654435761) & 0xFFFFFFFF     # odd multiplier: a bijection on 32-bit values
    random.getrandbits = distinct_bits
    try:
        _check_mask_policy(case)
    finally:
        random.getrandbits = orig


def _check_mask_policy(case):
    r = PairRun(dict(case, copts={}, sopts={}), "all")
    try:
        r.run()
        for k in range(case.get("pings", 0)):
            r.d.call(r.c.proto.sendPing, b"p%d" % k)
            r.d.call(r.s.proto.sendPing, b"q%d" % k)
        r.pipe.run()
        delivery_check(r, "C15")
        for idx in (0, 1):
            raw = bytes(r.pipe.delivered[idx])
            body = raw[raw.find(b"\r\n\r\n") + 4:]
            frames, rest = ref6455.parse_frames(body)
            if rest:
                raise Violation("C15|policy|wire-trailing-garbage", repr(rest[:20]))
            if idx == 0:
                bad = [f.brief() for f in frames if not f.masked or f.mask is None or len(f.mask) != 4]
                if bad:
                    raise Violation("C15|policy|client-frame-unmasked", "default options: %r" % bad[:3])
                seen = {}
                for n_, f in enumerate(frames):
                    if f.mask in seen:
                        raise Violation("C15|policy|client-key-reused", "frames #%d (%s) and #%d (%s) of the client carry the same masking key %s" % (
                            seen[f.mask], frames[seen[f.mask]].brief(), n_, f.brief(), f.mask.hex()))
                    seen[f.mask] = n_
            else:
                bad = [f.brief() for f in frames if f.masked]
                if bad:
                    raise Violation("C15|policy|server-frame-masked", "default options: %r" % bad[:3])
    finally:
        r.close()


def replay(col, c):
    if c.get("check") == "policy":
        check_mask_policy(c["case"])
    else:
        raise HarnessError("unknown replay kind %r" % c.get("check"))
