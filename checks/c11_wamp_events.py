"""C11 - events reach exactly the handlers subscribed at that moment."""
from harness.core import Violation, HarnessError, run_machine, dec, exc_key, brief

DESCRIPTION = {
    "level": "exploration",
    "rule": ("Hypothesis RuleBasedStateMachine over a joined session (both frameworks): subscribe (same/different topics; plain callables, details=True, details_arg, "
             "decorated objects via @wamp.subscribe, incl. two methods decorated for the same topic with different options), SUBSCRIBED replies assigning new or *shared* subscription ids or ERROR, unsubscribe of any live handler, "
             "UNSUBSCRIBED/ERROR replies in any order, EVENTs for live ids, for ids with an unsubscribe in flight and for ids never held, with all payload shapes and optional "
             "publisher/topic details; handler behaviours {return, raise, return a pending result, unsubscribe itself, unsubscribe a sibling during the callback, unsubscribe as soon as the "
             "subscription is confirmed, subscribe one more handler to the same topic from inside the callback with the router confirming synchronously}.  Oracle = "
             "model id -> ordered list of attached handlers: on each EVENT exactly the handlers in the model at arrival are invoked once each, in subscription order, with exactly "
             "the published args/kwargs (no keys added by another handler's details) and EventDetails iff requested, whose .subscription is that handler's own Subscription object; a raising handler stops nothing and nothing escapes "
             "onMessage; no handler is invoked after its unsubscribe() returned; UNSUBSCRIBE is written exactly when a handler list becomes empty; events for an id whose removal "
             "is in flight are dropped silently; for a never-held id ProtocolError.  Handlers are plain callables, callables asking for details under either spelling, or decorated methods of a subscribed object (also one that is an empty container): a method must be invoked with exactly that object as self.  Non-trivial = >=2 handlers on one id with an unsubscribe or raising handler between two "
             "events; distinct by history digest. Enumerated in addition: the router refuses an UNSUBSCRIBE (ERROR) while a second handler joins the same subscription id before or after that reply: the first handler is never invoked again, the second gets every later EVENT once, and removing it sends UNSUBSCRIBE."),
    "assumptions": ["order is asserted only among handlers of one subscription id", "a sibling unsubscribed by another handler *during* the dispatch of an event may or may not see that event"],
}


def plan(tier, seed):
    n = 320 if tier == "quick" else 2000
    jobs = []
    for i, fw in enumerate(("twisted", "asyncio")):
        for sh in range(3 if tier == "quick" else 8):
            jobs.append({"func": "machine", "fw": fw, "name": "machine/%s/%d" % (fw, sh), "args": {"seed": seed * 1000 + i * 100 + sh, "n": n}})
        jobs.append({"func": "refused_unsubscribe", "fw": fw, "name": "refused_unsubscribe/" + fw, "args": {}})
    return jobs


def norm(v):
    if isinstance(v, (tuple, list)):
        return [norm(x) for x in v]
    if isinstance(v, dict):
        return {k: norm(x) for k, x in v.items()}
    return v


class H:
    """one handler record of the model"""

    def __init__(self, hid, kind, behaviour):
        self.hid = hid
        self.kind = kind            # plain | details | details_arg | method
        self.behaviour = behaviour  # return | raise | pending | unsub-self | unsub-next
        self.calls = []
        self.sub = None             # Subscription object once SUBSCRIBED
        self.unsubscribed = False
        self.calls_after_unsub = 0


class Interp:
    def __init__(self, col, serializer="json"):
        from harness.wampsess import SessionWorld
        self.col = col
        self.w = SessionWorld(serializer=serializer)
        self.w.join()
        self.s = self.w.session
        self.steps = []
        self.cfg = {"serializer": serializer}
        self.handlers = []
        self.call_seq = []          # handler ids in the order they were invoked (all events)
        self.bad_self = []
        self.pending_sub = []       # (request id, [H...], topic)
        self.model = {}             # sid -> [H] attached, in order
        self.inflight = {}          # sid -> unsubscribe request id
        self.unsub_reqs = []        # (request id, sid)
        self.removed = set()
        self.next_sid = 500
        self.pending_futs = []
        self.nontrivial = False
        self.spawned = []
        self.saw_mutation_between_events = False
        self.events_on_multi = 0

    def fail(self, what, detail):
        self.col.finding("C11|" + what, "%s  [steps=%r]" % (detail, brief(self.steps[-8:])), {"config": self.cfg, "steps": self.steps})

    def make_fn(self, h):
        import txaio
        interp = self

        def body(args, kwargs):
            h.calls.append((args, dict(kwargs)))
            interp.call_seq.append(h.hid)
            if h.unsubscribed:
                h.calls_after_unsub += 1
            b = h.behaviour
            if b == "raise":
                raise RuntimeError("handler %d fails" % h.hid)
            if b == "pending":
                f = txaio.create_future()
                interp.pending_futs.append(f)
                return f
            if b == "subscribe-in-handler" and h.sub is not None and not getattr(h, "spawned", False) and getattr(h, "topic", None):
                h.spawned = True
                interp.spawn_sibling(h)
            if b == "unsub-self" and h.sub is not None and h.sub.active:
                interp.unsubscribe_obj(h, from_handler=True)
            if b == "unsub-next" and h.sub is not None:
                sibs = interp.model.get(h.sub.id, [])
                if h in sibs:
                    k = sibs.index(h)
                    if k + 1 < len(sibs):
                        interp.unsubscribe_obj(sibs[k + 1], from_handler=True)
            return None

        if h.kind == "details_arg":
            def fn(*args, **kwargs):
                return body(args, kwargs)
        else:
            def fn(*args, **kwargs):
                return body(args, kwargs)
        return fn

    def spawn_sibling(self, h):
        """called from inside handler h while an EVENT is being dispatched: subscribe one more handler to the same topic; the (in-process) router
        confirms at once, from inside transport.send(), with the same subscription id.  The new handler is attached from now on - not for this event."""
        import txaio
        h2 = H(len(self.handlers), "plain", "return")
        h2.topic = h.topic
        self.handlers.append(h2)
        sid = h.sub.id
        s, M = self.s, self.w.message
        state = {"err": None}

        def router(msg):
            if type(msg).__name__ == "Subscribe":
                try:
                    s.onMessage(M.Subscribed(msg.request, sid))
                except Exception as e:
                    state["err"] = e
        old = self.w.t.on_send
        self.w.t.on_send = router
        try:
            fut = s.subscribe(self.make_fn(h2), h.topic)
        finally:
            self.w.t.on_send = old
        txaio.add_callbacks(fut, lambda sub: setattr(h2, "sub", sub) or sub, lambda f: None)
        self.spawned.append((h2, sid, state))

    def apply(self, step):
        from harness import core as _core
        if _core.STALLED[0] is not None:
            raise _core.STALLED[0]
        with _core.cpu_guard({"config": getattr(self, "cfg", None) or getattr(self, "config", None), "steps": self.steps}, "step"):
            self._apply(step)

    def _apply(self, step):
        self.steps.append(step)
        getattr(self, "do_" + step[0])(*step[1:])
        self.w.settle()
        if self.w.d.loop_errors:
            e = self.w.d.loop_errors[0]
            self.w.d.loop_errors[:] = []
            self.fail("loop-exception", repr(e)[:300])

    # ---- subscribe
    def do_subscribe(self, topic, kind, behaviour):
        from autobahn.wamp.types import SubscribeOptions
        from autobahn import wamp
        before = len(self.w.t.sent)
        if kind in ("object", "object-empty"):
            hs = [H(len(self.handlers) + k, "method", behaviour if k == 0 else "return") for k in range(2)]
            interp = self

            class Obj:
                @wamp.subscribe(topic)
                def on_a(*args, **kwargs):
                    if not args or args[0] is not obj:
                        interp.bad_self.append(("on_a", brief(list(args[:2]))))
                        raise TypeError("on_a() missing 1 required positional argument: 'self'")
                    return interp.make_fn(hs[0])(*args[1:], **kwargs)

                @wamp.subscribe(topic + ".second")
                def on_b(*args, **kwargs):
                    if not args or args[0] is not obj:
                        interp.bad_self.append(("on_b", brief(list(args[:2]))))
                        raise TypeError("on_b() missing 1 required positional argument: 'self'")
                    return interp.make_fn(hs[1])(*args[1:], **kwargs)
            if kind == "object-empty":
                Obj.__len__ = lambda self_: 0       # an application object that is an (empty) container: still the handlers' self
            obj = Obj()
            try:
                fut = self.w.call(lambda: self.s.subscribe(obj))
            except Exception as e:
                self.fail("subscribe-raised|" + exc_key(e), repr(e))
                return
            sent = self.w.t.sent[before:]
            if len(sent) != 2 or any(type(m).__name__ != "Subscribe" for m in sent):
                self.fail("decorated-object-subscribe-count", repr([type(m).__name__ for m in sent]))
                return
            self.handlers.extend(hs)
            # getmembers() returns members sorted by name: on_a then on_b
            by_topic = {m.topic: m.request for m in sent}
            for h, t in zip(hs, (topic, topic + ".second")):
                if t not in by_topic:
                    self.fail("decorated-object-topic-missing", t)
                    return
                self.pending_sub.append((by_topic[t], h, t))
            self.w.track(fut)
            return
        if kind == "object-opts":
            # a decorated object whose two handlers are decorated for the SAME topic with different options: each keeps its own
            hs = [H(len(self.handlers), "details_arg", behaviour), H(len(self.handlers) + 1, "plain", "return")]
            interp = self

            class Obj2:
                @wamp.subscribe(topic, SubscribeOptions(details_arg="ev"))
                def on_a(self_, *args, **kwargs):
                    return interp.make_fn(hs[0])(*args, **kwargs)

                @wamp.subscribe(topic)
                def on_b(self_, *args, **kwargs):
                    return interp.make_fn(hs[1])(*args, **kwargs)
            try:
                fut = self.w.call(lambda: self.s.subscribe(Obj2()))
            except Exception as e:
                self.fail("subscribe-raised|" + exc_key(e), repr(e))
                return
            sent = self.w.t.sent[before:]
            if len(sent) != 2 or any(type(m).__name__ != "Subscribe" or m.topic != topic for m in sent):
                self.fail("decorated-object-subscribe-count", repr([type(m).__name__ for m in sent]))
                return
            self.handlers.extend(hs)
            for h, m in zip(hs, sent):       # getmembers() order: on_a, on_b
                self.pending_sub.append((m.request, h, topic))
            self.w.track(fut)
            return
        h = H(len(self.handlers), kind, behaviour)
        h.topic = topic
        o = None
        if kind == "details":
            o = SubscribeOptions(details=True)
        elif kind == "details_arg":
            o = SubscribeOptions(details_arg="ev")
        try:
            fut = self.w.call(lambda: self.s.subscribe(self.make_fn(h), topic, o))
        except Exception as e:
            self.fail("subscribe-raised|" + exc_key(e), repr(e))
            return
        sent = self.w.t.sent[before:]
        if len(sent) != 1 or type(sent[0]).__name__ != "Subscribe":
            self.fail("subscribe-message-count", repr(sent))
            return
        self.handlers.append(h)
        if behaviour == "unsub-on-subscribed":
            # application code that unsubscribes as soon as the subscription is confirmed (a callback on the subscribe result)
            import txaio
            h.early = {"exc": None, "ran": False}

            def on_confirmed(sub):
                h.early["ran"] = True
                h.sub = sub
                try:
                    f2 = sub.unsubscribe()
                    if f2 is not None and txaio.is_future(f2):
                        txaio.add_callbacks(f2, lambda r: None, lambda f: None)
                except Exception as e:
                    h.early["exc"] = e
                return sub
            txaio.add_callbacks(fut, on_confirmed, None)
        h.track = self.w.track(fut)
        self.pending_sub.append((sent[0].request, h, topic))

    def do_subscribed(self, k, share, error):
        if not self.pending_sub:
            return
        rid, h, topic = self.pending_sub.pop(k % len(self.pending_sub))
        M = self.w.message
        if error:
            err = self.w.feed(M.Error(32, rid, "wamp.error.not_authorized"))
            if err is not None:
                self.fail("subscribe-error-reply-raised|" + exc_key(err), repr(err))
            return
        held = [sid for sid, hs in self.model.items() if hs and sid not in self.inflight]
        if share and held:
            sid = held[share % len(held)]
        else:
            self.next_sid += 1
            sid = self.next_sid
        # capture the Subscription object through a fresh tracker on the session's table
        n_sent = len(self.w.t.sent)
        err = self.w.feed(M.Subscribed(rid, sid))
        if err is not None:
            self.fail("subscribed-raised|" + exc_key(err), repr(err))
            return
        if getattr(h, "early", None) is not None:
            # attached and removed again at once: it is never part of the model; UNSUBSCRIBE goes out iff no other handler is on that id
            if not h.early["ran"]:
                self.fail("subscribe-result-callback-not-run", "")
                return
            if h.early["exc"] is not None:
                self.fail("unsubscribe-in-subscribe-callback-raised|" + exc_key(h.early["exc"]), repr(h.early["exc"]))
                return
            h.unsubscribed = True
            sent = self.w.t.sent[n_sent:]
            if not self.model.get(sid):
                if len(sent) != 1 or type(sent[0]).__name__ != "Unsubscribe" or sent[0].subscription != sid:
                    self.fail("unsubscribe-not-sent-for-last-handler", "sid %d (unsubscribed in the subscribe callback): sent %r" % (sid, [type(m).__name__ for m in sent]))
                else:
                    self.inflight[sid] = sent[0].request
                    self.unsub_reqs.append((sent[0].request, sid))
                    self.model.setdefault(sid, [])
            elif sent:
                self.fail("unsubscribe-sent-while-handlers-remain", "sid %d still has %d handlers; sent %r" % (sid, len(self.model[sid]), [type(m).__name__ for m in sent]))
            self.saw_mutation_between_events = True
            return
        subs = self.s._subscriptions.get(sid) if hasattr(self.s, "_subscriptions") else None
        tr = getattr(h, "track", None)
        if tr is not None and tr.done and tr.ok:
            h.sub = tr.value
        elif subs:
            h.sub = subs[-1]
        if h.sub is None or h.sub.id != sid:
            self.fail("subscription-object-missing", "handler %d sid %d: %r" % (h.hid, sid, h.sub))
            return
        self.model.setdefault(sid, []).append(h)
        if len(self.model[sid]) >= 2:
            self.nontrivial_candidate = True

    # ---- unsubscribe
    def unsubscribe_obj(self, h, from_handler=False):
        if h.sub is None or not h.sub.active or h.unsubscribed:
            return
        sid = h.sub.id
        before = len(self.w.t.sent)
        try:
            fut = h.sub.unsubscribe() if from_handler else self.w.call(lambda: h.sub.unsubscribe())
        except Exception as e:
            if from_handler:
                raise
            self.fail("unsubscribe-raised|" + exc_key(e), repr(e))
            return
        import txaio
        if fut is not None and txaio.is_future(fut):
            txaio.add_callbacks(fut, lambda r: None, lambda f: None)    # replies (incl. ERROR) are consumed here
        h.unsubscribed = True
        if h in self.model.get(sid, []):
            self.model[sid].remove(h)
        sent = self.w.t.sent[before:]
        if not self.model.get(sid):
            if len(sent) != 1 or type(sent[0]).__name__ != "Unsubscribe" or sent[0].subscription != sid:
                self.fail("unsubscribe-not-sent-for-last-handler", "sid %d: sent %r" % (sid, [type(m).__name__ for m in sent]))
            else:
                self.inflight[sid] = sent[0].request
                self.unsub_reqs.append((sent[0].request, sid))
        elif sent:
            self.fail("unsubscribe-sent-while-handlers-remain", "sid %d still has %d handlers; sent %r" % (sid, len(self.model[sid]), [type(m).__name__ for m in sent]))
        self.saw_mutation_between_events = True

    def do_unsubscribe(self, k):
        live = [h for h in self.handlers if h.sub is not None and not h.unsubscribed]
        if live:
            self.unsubscribe_obj(live[k % len(live)])

    def do_unsubscribed(self, k, error):
        if not self.unsub_reqs:
            return
        rid, sid = self.unsub_reqs.pop(k % len(self.unsub_reqs))
        M = self.w.message
        if error:
            err = self.w.feed(M.Error(34, rid, "wamp.error.no_such_subscription"))
        else:
            err = self.w.feed(M.Unsubscribed(rid))
        if err is not None:
            self.fail("unsubscribed-reply-raised|" + exc_key(err), repr(err))
        if not error:
            self.inflight.pop(sid, None)
            self.model.pop(sid, None)
            self.removed.add(sid)
        else:
            self.inflight.pop(sid, None)
            self.removed.add(sid)       # state after a refused unsubscribe is unspecified: no more events generated for it
            self.model.pop(sid, None)

    # ---- events
    def do_event(self, which, k, args, kwargs, details):
        from autobahn.wamp.exception import ProtocolError
        from autobahn.wamp.types import EventDetails
        M = self.w.message
        if which == "never":
            sid = 999000 + k
            err = self.w.feed(M.Event(sid, 1, args=list(args) or None, kwargs=dict(kwargs) or None))
            if not isinstance(err, ProtocolError):
                self.fail("event-for-never-held-id-not-a-protocol-error", "got %r" % (err,))
            return
        if which == "inflight":
            ids = sorted(self.inflight)
            if not ids:
                return
            sid = ids[k % len(ids)]
            counts = [len(h.calls) for h in self.handlers]
            err = self.w.feed(M.Event(sid, 2, args=list(args) or None, kwargs=dict(kwargs) or None))
            if err is not None:
                self.fail("event-racing-with-unsubscribe-raised|" + exc_key(err), repr(err))
            if [len(h.calls) for h in self.handlers] != counts:
                self.fail("event-delivered-after-unsubscribe", "sid %d" % sid)
            return
        ids = sorted((sid for sid, hs in self.model.items() if hs and sid not in self.inflight), key=lambda x: (-len(self.model[x]), x))
        if not ids:
            return
        sid = ids[(k % len(ids)) if k % 3 == 0 else 0]
        expected = list(self.model[sid])
        counts = {h.hid: len(h.calls) for h in self.handlers}
        before_sent = len(self.w.t.sent)
        kw = {}
        if details:
            kw = {"publisher": 4711, "publisher_authid": "joe", "topic": "com.example.full.topic", "retained": True}
        n_user_err = len(self.w.user_errors)
        n_seq = len(self.call_seq)
        err = self.w.feed(M.Event(sid, 3000 + len(self.steps), args=list(args) or None, kwargs=dict(kwargs) or None, **kw))
        if err is not None:
            self.fail("event-dispatch-raised|" + exc_key(err), "%r escaped onMessage (handlers: %r)" % (err, [(h.hid, h.behaviour) for h in expected]))
            return
        if self.bad_self:
            self.fail("handler-self-differs", "method of a subscribed object invoked without that object as self: %r" % (self.bad_self[:2],))
            self.bad_self = []
            return
        for h2, sid2, state in self.spawned:
            if state["err"] is not None:
                self.fail("subscribed-raised|" + exc_key(state["err"]), "SUBSCRIBED for a subscribe() made inside an event handler: %r" % (state["err"],))
        if len(expected) >= 2:
            self.events_on_multi += 1
            if self.saw_mutation_between_events or any(h.behaviour == "raise" for h in expected):
                self.nontrivial = True
        order = []
        for h in self.handlers:
            new = h.calls[counts.get(h.hid, 0):]
            dynamic_sibling = any(x.behaviour in ("unsub-self", "unsub-next") for x in expected)
            if h in expected:
                removed_during = h.unsubscribed and dynamic_sibling
                if len(new) != 1 and not (removed_during and len(new) == 0 and any(x.behaviour == "unsub-next" for x in expected)):
                    self.fail("handler-invocation-count", "sid %d handler %d (%s/%s) invoked %d times, expected once; handlers on id: %r" % (
                        sid, h.hid, h.kind, h.behaviour, len(new), [(x.hid, x.behaviour) for x in expected]))
                    continue
                if not new:
                    continue
                a, k_ = new[0]
                want_kw = dict(kwargs)
                det = None
                if h.kind == "details":
                    det = k_.pop("details", None)
                    if not isinstance(det, EventDetails):
                        self.fail("details-not-delivered", "handler %d asked for details, got kwargs %r" % (h.hid, brief(k_)))
                elif h.kind == "details_arg":
                    det = k_.pop("ev", None)
                    if not isinstance(det, EventDetails):
                        self.fail("details-not-delivered", "handler %d asked for details_arg, got kwargs %r" % (h.hid, brief(k_)))
                if det is not None:
                    if det.publication != 3000 + len(self.steps) or (details and (det.publisher != 4711 or det.publisher_authid != "joe" or det.topic != "com.example.full.topic")):
                        self.fail("details-content-differs", repr(det))
                    # EventDetails.subscription is documented as "the (client side) subscription object on which this event is delivered"
                    if h.sub is not None and det.subscription is not h.sub:
                        self.fail("details-subscription-is-not-the-handlers-own", "handler %d got the Subscription object of another handler in its event details" % h.hid)
                if norm(list(a)) != norm(list(args)) or norm(k_) != norm(want_kw):
                    extra = sorted(set(k_) - set(want_kw))
                    self.fail("handler-payload-differs" + ("|extra-kwargs-leaked" if extra else ""), "handler %d (%s) got args=%r kwargs=%r, published args=%r kwargs=%r" % (
                        h.hid, h.kind, brief(a), brief(k_), brief(args), brief(kwargs)))
            else:
                if new:
                    self.fail("handler-invoked-for-foreign-or-removed-subscription", "handler %d (sub %r, unsubscribed=%r) invoked for event on sid %d" % (
                        h.hid, getattr(h.sub, "id", None), h.unsubscribed, sid))
        for h in self.handlers:
            if h.calls_after_unsub and not any(x.behaviour == "unsub-next" for x in expected):
                self.fail("handler-invoked-after-unsubscribe", "handler %d" % h.hid)
            h.calls_after_unsub = 0
        # handlers subscribed from inside a handler during this dispatch are attached from now on
        for h2, sid2, state in self.spawned:
            if h2.sub is None or h2.sub.id != sid2:
                self.fail("subscription-object-missing", "handler %d subscribed inside a handler: %r" % (h2.hid, h2.sub))
            elif sid2 in self.model and sid2 not in self.inflight:
                self.model[sid2].append(h2)
        self.spawned[:] = []
        # order among handlers of this id: those that were invoked for this event were invoked in subscription order
        exp_ids = [h.hid for h in expected]
        invoked = [hid for hid in self.call_seq[n_seq:] if hid in exp_ids]
        in_model_order = [hid for hid in exp_ids if hid in invoked]
        if invoked != in_model_order and len(invoked) == len(set(invoked)):
            self.fail("handler-order", "sid %d: handlers attached in the order %r were invoked in the order %r" % (sid, exp_ids, invoked))
        self.saw_mutation_between_events = False
        # pending results are resolved now
        import txaio
        for f in self.pending_futs:
            self.w.call(lambda f=f: txaio.resolve(f, None))
        self.pending_futs[:] = []

    def teardown(self):
        self.w.close()


def make_machine_factory(col):
    from hypothesis import strategies as st
    from hypothesis.stateful import RuleBasedStateMachine, rule, initialize
    from harness import wampwire as W
    topics = st.sampled_from(["com.example.t1", "com.example.t2", "a.b"])
    vals = st.lists(W.values, max_size=3)
    kws = st.dictionaries(st.sampled_from(["a", "b", "details", "ev", "x"]), W.values, max_size=3)

    def make(holder):
        class M(RuleBasedStateMachine):
            def __init__(self):
                super().__init__()
                self.i = None
                self.order_log = []

            @initialize(ser=st.sampled_from(["json", "cbor"]),
                        base=st.lists(st.tuples(st.sampled_from(["plain", "plain", "details", "details_arg"]),
                                                st.sampled_from(["return", "return", "raise", "pending", "unsub-self", "unsub-next"])), min_size=0, max_size=4))
            def start(self, ser, base):
                self.i = Interp(col, ser)
                holder["config"] = self.i.cfg
                holder["steps"] = self.i.steps
                # start inside the interesting region: several handlers confirmed on one shared subscription id
                for kind, beh in base:
                    self.ap("subscribe", "com.example.t1", kind, beh)
                    self.ap("subscribed", 0, 1, False)

            def ap(self, *step):
                holder["steps"] = self.i.steps
                self.i.apply(step)

            @rule(topic=topics, kind=st.sampled_from(["plain", "plain", "details", "details_arg", "object", "object-opts", "object-empty"]),
                  behaviour=st.sampled_from(["return", "return", "raise", "pending", "unsub-self", "unsub-next", "unsub-on-subscribed", "subscribe-in-handler"]))
            def subscribe(self, topic, kind, behaviour):
                self.ap("subscribe", topic, kind, behaviour)

            @rule(k=st.integers(0, 10), share=st.integers(0, 5), error=st.sampled_from([False, False, False, False, True]))
            def subscribed(self, k, share, error):
                self.ap("subscribed", k, share, error)

            @rule(k=st.integers(0, 20))
            def unsubscribe(self, k):
                self.ap("unsubscribe", k)

            @rule(k=st.integers(0, 10), error=st.sampled_from([False, False, False, True]))
            def unsubscribed(self, k, error):
                self.ap("unsubscribed", k, error)

            @rule(which=st.sampled_from(["live", "live", "live", "live", "inflight", "never"]), k=st.integers(0, 10), args=vals, kwargs=kws, details=st.booleans())
            def event(self, which, k, args, kwargs, details):
                # kwargs named like a details argument are only sent to ids without such handlers (the library documents the name clash)
                self.ap("event", which, k, args, {kk: v for kk, v in kwargs.items() if kk not in ("details", "ev")}, details)

            def teardown(self):
                if self.i is not None:
                    i, self.i = self.i, None
                    i.teardown()
                    col.case(i.nontrivial, dig=[i.cfg, i.steps], cls=["multi-handler-events:%d" % min(i.events_on_multi, 3)] + sorted(set(s[0] for s in i.steps)) +
                             sorted(set("behaviour:" + s[3] for s in i.steps if s[0] == "subscribe")), sample={"steps": i.steps[:14]})
        return M
    return make


def machine(col, seed, n):
    run_machine(col, "machine", make_machine_factory(col), n, seed, step_count=35)


def refused_unsubscribe_one(col, c):
    """the router refuses an UNSUBSCRIBE (ERROR) - nothing changes at the router - while another handler has joined (or joins afterwards) the same
    subscription id: the handler that asked to be removed is never invoked again, the other one gets every later EVENT exactly once, no EVENT
    for that id is a protocol violation, and removing the remaining handler sends UNSUBSCRIBE"""
    from harness.wampsess import SessionWorld
    w = SessionWorld(serializer=c["ser"])

    def fail(what, detail):
        col.finding("C11|refused-unsubscribe|" + what, "%s  [%r]" % (detail, c), dict(c, check="refused_unsubscribe"))
    try:
        w.join()
        M, sess = w.message, w.session
        got1, got2 = [], []
        SID = 4711
        t1 = w.track(w.call(lambda: sess.subscribe(lambda *a, **k: got1.append((a, k)), "com.example.t1")))
        w.feed(M.Subscribed(w.t.sent[-1].request, SID))
        sub1 = t1.value
        n0 = len(w.t.sent)
        tu = w.track(w.call(lambda: sub1.unsubscribe()))
        unsub = [m for m in w.t.sent[n0:] if type(m).__name__ == "Unsubscribe"]
        if len(unsub) != 1:
            fail("unsubscribe-not-sent-for-last-handler", repr([type(m).__name__ for m in w.t.sent[n0:]]))
            return

        def join2():
            t2 = w.track(w.call(lambda: sess.subscribe(lambda *a, **k: got2.append((a, k)), "com.example.t1")))
            e_ = w.feed(M.Subscribed(w.t.sent[-1].request, SID))
            if e_ is not None:
                fail("subscribed-raised|" + exc_key(e_), repr(e_))
            return t2

        def refuse():
            e_ = w.feed(M.Error(34, unsub[0].request, "wamp.error.no_such_subscription"))
            if e_ is not None:
                fail("unsubscribed-reply-raised|" + exc_key(e_), repr(e_))
        if c["order"] == "join-then-error":
            t2 = join2()
            if c["event_between"]:
                w.feed(M.Event(SID, 9000, args=[0]))
            refuse()
        else:
            refuse()
            t2 = join2()
        if tu.n != 1 or tu.ok:
            fail("refused-unsubscribe-did-not-fail-its-request", "n=%d ok=%r" % (tu.n, tu.ok))
        n_ev = 1 if (c["order"] == "join-then-error" and c["event_between"]) else 0
        for k in range(2):
            e_ = w.feed(M.Event(SID, 9001 + k, args=[k + 1]))
            n_ev += 1
            if e_ is not None:
                fail("event-raised|" + exc_key(e_), "EVENT for subscription %d with a handler attached raised %r" % (SID, e_))
                return
        if got1:
            fail("unsubscribed-handler-invoked", repr(got1))
        if len(got2) != n_ev:
            fail("event-count", "handler attached to the id got %d of %d events" % (len(got2), n_ev))
        n1 = len(w.t.sent)
        if t2.done and t2.ok:
            w.track(w.call(lambda: t2.value.unsubscribe()))
            if [type(m).__name__ for m in w.t.sent[n1:]] != ["Unsubscribe"]:
                fail("unsubscribe-not-sent-for-last-handler", "second handler removed: sent %r" % ([type(m).__name__ for m in w.t.sent[n1:]],))
        else:
            fail("second-subscribe-not-completed", "n=%d" % t2.n)
        if w.d.loop_errors:
            fail("loop-exception", repr(w.d.loop_errors[0])[:300])
    finally:
        w.close()


def refused_unsubscribe(col):
    for ser in ("json", "cbor"):
        for order in ("join-then-error", "error-then-join"):
            for ev in (False, True):
                c = {"ser": ser, "order": order, "event_between": ev}
                refused_unsubscribe_one(col, c)
                col.case(True, enum=True, cls=["refused-unsubscribe/" + order], sample=c)
    col.exhaustive.append("C11 refused UNSUBSCRIBE with a second handler on the same id: 2 orders x event in between x 2 serializers")


def replay(col, case):
    case = dec(case)
    c = case.get("case", case)
    if c.get("check") == "refused_unsubscribe":
        refused_unsubscribe_one(col, c)
        col.case()
        return
    i = Interp(col, c["config"]["serializer"])
    try:
        for s in c["steps"]:
            i.apply(tuple(s))
    finally:
        i.teardown()
    col.case()
