"""C18 - remote exceptions arrive with their URI, arguments and class."""
from harness.core import Violation, HarnessError, run_hypothesis, dec, exc_key, brief

DESCRIPTION = {
    "level": "exploration",
    "rule": ("A callee session and a caller session (both frameworks, every serializer) are joined through a scripted router that rewrites ERROR(INVOCATION) into ERROR(CALL). "
             "Hypothesis draws the exception kind {ApplicationError(uri,*a,**kw), class decorated with @wamp.error, class registered by define(cls,uri), undefined class, class "
             "whose constructor is incompatible with the transported args/kwargs or raises, class hierarchies: define()d base + define()d subclass, define()d base + unregistered subclass "
             "(an unregistered class: generic URI), decorated base + decorated subclass registered in either order, classes deriving from TypeError; procedures registered with or without check_types=True}, positional/keyword payloads (bytes, nesting, unicode, |int|<=2^53), traceback_app "
             "on/off, whether the caller registry knows the class, and synchronous vs asynchronous (pending result failed later) endpoints.  Oracle: on the wire the ERROR carries "
             "the registered / carried / generic runtime-error URI, args == list(exc.args), kwargs == the exception's kwargs (+ 'traceback' iff enabled); the caller's pending call "
             "fails exactly once with an instance of the class registered for that URI built from those args/kwargs, else with ApplicationError carrying URI, args and kwargs; the "
             "error is never lost.  The caller may map the class to a second (alias) URI before or after.  A third of the cases run with a payload codec (cryptobox keyring) on both peers.  Non-trivial = non-empty args and kwargs with a registered class, or a fallback path; distinct by (kind, payload shape, serializer). Error URIs include ones only the loose WAMP rule admits (upper case, hyphens, non-ASCII; for decorated / defined classes hyphens and underscores, as uri.Pattern allows). For explicitly defined classes half of the cases raise the class once *before* define() (generic URI), then define it and raise it again: the second ERROR carries the registered URI."),
    "assumptions": ["kwargs keys that ApplicationError/CallResult reserve for metadata (enc_algo, callee, callee_authid, callee_authrole, forward_for) are not generated as application kwargs; an application "
                    "error that already carries a 'traceback' kwarg is generated: with traceback forwarding on the forwarded traceback replaces it, otherwise it travels unchanged"],
}


def plan(tier, seed):
    n = 600 if tier == "quick" else 12000
    jobs = []
    for i, fw in enumerate(("twisted", "asyncio")):
        for sh in range(2 if tier == "quick" else 6):
            jobs.append({"func": "flows", "fw": fw, "name": "flows/%s/%d" % (fw, sh), "args": {"seed": seed * 1000 + i * 100 + sh, "n": n}})
    return jobs


def norm(v):
    if isinstance(v, (tuple, list)):
        return [norm(x) for x in v]
    if isinstance(v, dict):
        return {k: norm(x) for k, x in v.items()}
    return v


def make_classes():
    from autobahn import wamp

    @wamp.error("com.myapp.error.decorated")
    class Decorated(Exception):
        def __init__(self, *args, **kwargs):
            Exception.__init__(self, *args)
            self.kwargs = kwargs

    class Defined(Exception):
        def __init__(self, *args, **kwargs):
            Exception.__init__(self, *args)
            self.kwargs = kwargs

    class NoKwargs(Exception):
        """registered class without kwargs support"""

    class OneArg(Exception):
        def __init__(self, only):
            Exception.__init__(self, only)

    class Exploding(Exception):
        def __init__(self, *args, **kwargs):
            if getattr(Exploding, "armed", False):
                raise RuntimeError("constructor refuses")
            Exception.__init__(self, *args)
            self.kwargs = kwargs
    @wamp.error("com.myapp.error.decorated.sub")
    class DecoratedSub(Decorated):
        pass

    @wamp.error("com.my-app.error.out-of-stock_2")      # hyphens are legal in URI components (loose WAMP rule; autobahn.wamp.uri.Pattern accepts them)
    class DecoratedHyphen(Exception):
        def __init__(self, *args, **kwargs):
            Exception.__init__(self, *args)
            self.kwargs = kwargs
    return {"DecoratedHyphen": DecoratedHyphen, "DecoratedSub": DecoratedSub, "Decorated": Decorated, "Defined": Defined, "NoKwargs": NoKwargs, "OneArg": OneArg, "Exploding": Exploding}


def strategy():
    from hypothesis import strategies as st
    from harness import wampwire as W
    vals = st.lists(W.values, max_size=3)
    kws = st.dictionaries(st.sampled_from(["a", "b", "reason", "código", "x_1"]), W.values, max_size=3)
    return st.fixed_dictionaries({
        "kind": st.sampled_from(["app", "app", "decorated", "defined", "undefined", "undefined-builtin", "nokwargs", "onearg", "exploding", "subclass-defined", "subclass-undefined", "decorated-subclass", "decorated-base", "defined-typeerror", "undefined-typeerror"]),
        # URIs: strict ones, and ones only the loose WAMP rule admits (upper case, hyphen, non-ASCII) - every receive path of the library and Error.parse use the loose rule
        "uri": st.sampled_from(["com.myapp.error.custom", "wamp.error.not_authorized", "com.myapp.error.decorated", "a.b",
                                "com.myapp.error.NotFound", "com.my-app.error.not-found", "com.myapp.érreur.naïve", "COM.X.E_1"]),
        "args": vals, "kwargs": kws, "tb": st.booleans(), "caller_knows": st.booleans(), "async_endpoint": st.booleans(),
        "ser": st.sampled_from(["json", "msgpack", "cbor", "ubjson"]), "own_tb": st.sampled_from([False, False, False, True]),
        "check_types": st.sampled_from([False, False, True]), "alias": st.sampled_from([None, None, "before", "after"]), "codec": st.sampled_from([False, False, True]),
        "raise_before_define": st.sampled_from([False, True])})      # the procedure is registered with check_types=True (the library wraps the endpoint)


def check_flow(c):
    import txaio
    from harness.wampsess import SessionWorld
    from autobahn.wamp.exception import ApplicationError
    classes = make_classes()
    callee = SessionWorld(serializer=c["ser"])
    caller = callee_world = None
    try:
        callee.join()
        caller = SessionWorld(serializer=c["ser"], driver=callee.d)
        caller.join()
        M = callee.message
        kind, uri, args, kwargs = c["kind"], c["uri"], list(c["args"]), dict(c["kwargs"])
        if kind != "app" and not all(ch.islower() or ch.isdigit() or ch in "._-" for ch in uri if ord(ch) < 128) or (kind != "app" and any(ord(ch) > 127 for ch in uri)):
            uri = "com.my-app.error.mapped-1"      # define() goes through uri.Pattern: lower case, digits, '_' and '-' only
        callee.session.traceback_app = c["tb"]
        wire_codec = None
        if c.get("codec"):
            # both peers run a payload codec (the cryptobox keyring): the error's args/kwargs travel as an encoded payload and must come out the same
            from checks.c20_cryptobox import keyrings
            ko, kr = keyrings("default")
            caller.session.set_payload_codec(ko)
            callee.session.set_payload_codec(kr)
            wire_codec = ko
        # decoy registrations on both sides: a registry mix-up must not go unnoticed
        class DecoyA(Exception):
            pass

        class DecoyB(Exception):
            pass
        for w_ in (callee, caller):
            w_.session.define(DecoyA, "com.decoy.a")
        cls = None
        expect_uri = uri
        if kind == "app":
            if c.get("own_tb"):
                # the error already carries a kwarg named 'traceback' (e.g. an ApplicationError received from another callee and passed on)
                kwargs["traceback"] = ["inner frame 1", "inner frame 2"] if len(args) % 2 else "Traceback (most recent call last):\n  inner frame"

            def make():
                return ApplicationError(uri, *args, **dict(kwargs))
        elif kind == "decorated":
            hy = c.get("uri", "").startswith("com.my")
            cls = classes["DecoratedHyphen" if hy and "-" in c["uri"] else "Decorated"]
            callee.session.define(cls)
            expect_uri = "com.my-app.error.out-of-stock_2" if cls is classes["DecoratedHyphen"] else "com.myapp.error.decorated"

            def make():
                return cls(*args, **kwargs)
        elif kind in ("defined", "nokwargs", "onearg", "exploding"):
            cls = classes[{"defined": "Defined", "nokwargs": "NoKwargs", "onearg": "OneArg", "exploding": "Exploding"}[kind]]
            if c.get("raise_before_define"):
                # history: the class is raised once while it is still unknown to the session (goes out under the generic URI), is defined
                # afterwards, and is raised again - the second error must carry the URI registered meanwhile
                def warm(*a, **k):
                    raise cls("early")
                tr0 = callee.track(callee.call(lambda: callee.session.register(warm, "com.x.warm")))
                callee.feed(M.Registered(callee.t.sent[-1].request, 556))
                n_w = len(callee.t.sent)
                err_w = callee.feed(M.Invocation(9000, 556, args=[]))
                out_w = callee.t.sent[n_w:]
                if err_w is not None or len(out_w) != 1 or type(out_w[0]).__name__ != "Error":
                    raise Violation("C18|error-not-sent-once", "warm-up: %r / %r" % (err_w, [type(m).__name__ for m in out_w]), c)
                if out_w[0].error != "wamp.error.runtime_error":
                    raise Violation("C18|wire-uri-differs|undefined-before-define", "ERROR carries %r for a class not yet defined" % (out_w[0].error,), c)
            callee.session.define(cls, uri)
            if kind == "nokwargs":
                kwargs = {}

                def make():
                    return cls(*args)
            elif kind == "onearg":
                kwargs = {}
                args = args[:1] or [None]

                def make():
                    return cls(args[0])
            else:
                def make():
                    return cls(*args, **kwargs)
        elif kind in ("decorated-subclass", "decorated-base"):
            # a decorated class and a decorated subclass of it, both registered: each keeps its own URI, in both directions
            dbase, dsub = classes["Decorated"], classes["DecoratedSub"]
            cls = dsub if kind == "decorated-subclass" else dbase
            expect_uri = "com.myapp.error.decorated.sub" if kind == "decorated-subclass" else "com.myapp.error.decorated"
            for w_ in (callee, caller) if c["caller_knows"] else (callee,):
                for k_ in ((dbase, dsub) if c["async_endpoint"] else (dsub, dbase)):
                    w_.session.define(k_)

            def make():
                return cls(*args, **kwargs)
        elif kind in ("subclass-defined", "subclass-undefined"):
            # a registered base class and a subclass of it: the URI belongs to the *class raised* (exact class), an unregistered subclass is an unregistered class
            base_cls = classes["Defined"]

            class Sub(base_cls):
                pass
            callee.session.define(base_cls, "com.myapp.error.base")
            if kind == "subclass-defined":
                cls = Sub
                callee.session.define(Sub, uri)
                if c["caller_knows"]:
                    caller.session.define(base_cls, "com.myapp.error.base")
            else:
                expect_uri = "wamp.error.runtime_error"
                if c["caller_knows"]:
                    caller.session.define(base_cls, "com.myapp.error.base")

            def make():
                return Sub(*args, **kwargs)
        elif kind == "defined-typeerror":
            # an application exception class that happens to derive from TypeError (matters when the endpoint is wrapped for type checking)
            class UnitError(TypeError):
                def __init__(self, *args, **kwargs):
                    TypeError.__init__(self, *args)
                    self.kwargs = kwargs
            cls = UnitError
            callee.session.define(cls, uri)

            def make():
                return cls(*args, **kwargs)
        elif kind == "undefined-typeerror":
            kwargs = {}
            expect_uri = "wamp.error.runtime_error"

            def make():
                return TypeError(*args)
        elif kind == "undefined":
            class Undefined(Exception):
                pass
            kwargs = {}
            expect_uri = "wamp.error.runtime_error"

            def make():
                return Undefined(*args)
        else:
            kwargs = {}
            expect_uri = "wamp.error.runtime_error"

            def make():
                return ValueError(*args)
        if c["caller_knows"] and cls is not None and kind not in ("decorated-subclass", "decorated-base"):
            if kind == "decorated":
                caller.session.define(cls)
            else:
                # the caller may map the same class to further error URIs (before or after): every registered URI surfaces as that class
                if c.get("alias") == "before":
                    caller.session.define(cls, "com.myapp.error.alias_of_it")
                caller.session.define(cls, uri)
                if c.get("alias") == "after":
                    caller.session.define(cls, "com.myapp.error.alias_of_it")
        for w_ in (callee, caller):
            w_.session.define(DecoyB, "com.decoy.b")
        pending = []

        def endpoint(*a, **k):
            if c["async_endpoint"]:
                f = txaio.create_future()
                pending.append(f)
                return f
            raise make()
        if c.get("check_types"):
            tr_reg = callee.track(callee.call(lambda: callee.session.register(endpoint, "com.x.proc", check_types=True)))
        else:
            tr_reg = callee.track(callee.call(lambda: callee.session.register(endpoint, "com.x.proc")))
        callee.feed(M.Registered(callee.t.sent[-1].request, 555))
        if not tr_reg.done or not tr_reg.ok:
            raise HarnessError("registration failed")
        tr_call = caller.track(caller.call(lambda: caller.session.call("com.x.proc", 1)))
        call_msg = caller.t.sent[-1]
        n0 = len(callee.t.sent)
        err = callee.feed(M.Invocation(9001, 555, args=[1]))
        if err is not None:
            raise Violation("C18|invocation-raised|" + exc_key(err), repr(err), c)
        if c["async_endpoint"]:
            classes["Exploding"].armed = False
            exc_obj = make()
            callee.call(lambda: txaio.reject(pending[0], txaio.create_failure(exc_obj) if hasattr(txaio, "create_failure") and False else exc_obj))
            callee.settle()
        out = callee.t.sent[n0:]
        if len(out) != 1 or type(out[0]).__name__ != "Error":
            raise Violation("C18|error-not-sent-once", "callee sent %r" % ([type(m).__name__ for m in out],), c)
        e = out[0]
        if e.request_type != 68 or e.request != 9001:
            raise Violation("C18|error-wrong-correlation", "%r %r" % (e.request_type, e.request), c)
        if e.error != expect_uri:
            raise Violation("C18|wire-uri-differs|" + kind, "ERROR carries %r, expected %r" % (e.error, expect_uri), c)
        if wire_codec is not None:
            if not e.payload or e.args or e.kwargs:
                raise Violation("C18|codec|error-payload-not-encoded", "payload codec active on the callee: ERROR args=%r kwargs=%r payload=%r" % (brief(e.args), brief(e.kwargs), brief(e.payload)), c)
            from autobahn.wamp.types import EncodedPayload
            _u, _a, _k = wire_codec.decode(True, e.error, EncodedPayload(e.payload, e.enc_algo, e.enc_serializer, e.enc_key))
            wire_args, wire_kwargs = norm(_a) or [], dict(norm(_k) or {})
        else:
            wire_args = norm(e.args) or []
            wire_kwargs = dict(norm(e.kwargs) or {})
        tb = wire_kwargs.pop("traceback", None)
        if c["tb"] and tb is None:
            raise Violation("C18|traceback-missing", "traceback_app enabled but no traceback kwarg", c)
        own_tb = kwargs.get("traceback")
        if not c["tb"] and tb is not None and own_tb is None:
            raise Violation("C18|traceback-leaked", "traceback sent although traceback_app is off", c)
        if not c["tb"] and own_tb is not None and norm(tb) != norm(own_tb):
            raise Violation("C18|wire-payload-differs|" + kind, "the error's own 'traceback' kwarg %r arrived as %r" % (own_tb, tb), c)
        if wire_args != norm(args) or wire_kwargs != norm({k_: v_ for k_, v_ in kwargs.items() if k_ != "traceback"}):
            raise Violation("C18|wire-payload-differs|" + kind, "ERROR args=%r kwargs=%r, raised args=%r kwargs=%r" % (brief(wire_args), brief(wire_kwargs), brief(args), brief(kwargs)), c)
        # router forwards to the caller
        if kind == "exploding":
            classes["Exploding"].armed = True
        if wire_codec is not None:
            fwd = M.Error(48, call_msg.request, e.error, payload=e.payload, enc_algo=e.enc_algo, enc_key=e.enc_key, enc_serializer=e.enc_serializer)
        else:
            fwd = M.Error(48, call_msg.request, e.error, args=e.args, kwargs=e.kwargs)
        err = caller.feed(fwd)
        classes["Exploding"].armed = False
        if err is not None:
            raise Violation("C18|caller-onMessage-raised|%s|%s" % (kind, exc_key(err)), repr(err), c)
        if tr_call.n != 1:
            raise Violation("C18|error-lost|" + kind, "call completion count %d" % tr_call.n, c)
        if tr_call.ok:
            raise Violation("C18|call-succeeded-on-error", repr(tr_call.value), c)
        got = tr_call.value
        full_kwargs = dict(norm(kwargs))
        if c["tb"]:
            full_kwargs["traceback"] = tb
        registered_on_caller = c["caller_knows"] and cls is not None
        constructible = registered_on_caller and kind in ("decorated", "defined", "subclass-defined", "decorated-subclass", "decorated-base", "defined-typeerror") or (registered_on_caller and kind == "nokwargs" and not c["tb"]) or \
            (registered_on_caller and kind == "onearg" and not c["tb"] and len(args) == 1)
        if constructible:
            if not isinstance(got, cls) or (kind == "decorated-base" and type(got) is not cls):
                raise Violation("C18|registered-class-not-used|" + kind, "caller got %r, expected an instance of %s" % (got, cls.__name__), c)
            if norm(list(got.args)) != norm(args) or norm(getattr(got, "kwargs", {})) != full_kwargs:
                raise Violation("C18|exception-payload-differs|" + kind, "got args=%r kwargs=%r expected %r %r" % (got.args, getattr(got, "kwargs", None), args, full_kwargs), c)
            path = "class"
        else:
            if isinstance(got, (DecoyA, DecoyB)):
                raise Violation("C18|wrong-class-used|" + kind, "caller got decoy class %r" % (type(got).__name__,), c)
            if registered_on_caller and isinstance(got, cls):
                path = "class"      # e.g. onearg constructible by luck
            else:
                if not isinstance(got, ApplicationError):
                    raise Violation("C18|fallback-not-application-error|" + kind, "caller got %r" % (got,), c)
                if got.error != expect_uri or norm(list(got.args)) != norm(args) or norm(got.kwargs) != full_kwargs:
                    raise Violation("C18|fallback-payload-differs|" + kind, "got %r args=%r kwargs=%r; expected %r %r %r" % (got.error, got.args, got.kwargs, expect_uri, args, full_kwargs), c)
                path = "fallback"
        return path
    finally:
        for w in (caller, callee):
            if w is not None:
                try:
                    w.close()
                except Exception:
                    pass


def flows(col, seed, n):
    def body(c):
        try:
            path = check_flow(c)
        except (Violation, HarnessError):
            raise
        except Exception as e:
            from harness.core import in_autobahn
            if in_autobahn(e):
                raise Violation("C18|exception|" + exc_key(e), repr(e), c)
            raise
        nt = (c["args"] and c["kwargs"] and path == "class") or (path == "fallback" and c["kind"] not in ("app",))
        col.case(bool(nt), dig=c, cls=["kind:" + c["kind"], "path:" + path, "ser:" + c["ser"]] + (["traceback"] if c["tb"] else []) + (["async-endpoint"] if c["async_endpoint"] else []) + (["check_types"] if c.get("check_types") else []),
                 sample=c)
    run_hypothesis(col, "flows", strategy(), body, n, seed)


def replay(col, case):
    case = dec(case)
    c = case.get("case", case)
    c.pop("check", None)
    check_flow(c)
    col.case()
