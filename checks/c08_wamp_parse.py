"""C08 - untrusted WAMP input is either a valid message or a protocol error."""
import re

from harness.core import Violation, HarnessError, run_hypothesis, dec, exc_key, brief, digest

DESCRIPTION = {
    "level": "exploration",
    "rule": ("(a) Hypothesis draws a valid message of each of the 25 classes (wampwire tables), marshals it, and the check then systematically replaces "
             "every top-level position, every option/detail key present and every known-but-absent option key by each of ~40 typed junk/boundary values "
             "(None,bool,0,-1,2^53,2^53+1,+-2^20000 (a CBOR bignum beyond Python's int->str limit),float,'',text,URIs with empty components/whitespace/trailing newline/#,bytes,[],[x],{}, {1:2}, malformed forward_for), "
             "truncates/extends the element count and swaps the type code; each mutated list goes through Serializer.unserialize (CBOR bytes) and Klass.parse. "
             "(b) URI strings over the alphabet {a,A,.,#,space,\\n,\\t,e-acute,_,0} in every URI slot. (c) arbitrary octets and bit-flipped/truncated/spliced valid "
             "serialized messages per serializer.  Oracle: only ProtocolError/InvalidUriError may be raised; an accepted message never holds an id outside "
             "0..2^53 (or bool), a URI slot value that is not a str fully matching the WAMP loose grammar for that slot, or a wrongly typed value "
             "in a known option at the Options/Details position (whether the parsed message retains it or silently drops it; enc_* options are judged only in payload form, where they are read); re-marshalling an accepted message gives back the input value at the mutated slot (or omits a defaulted/ignored key) and "
             "parse(marshal(x)) is a fixed point.  Thorough tier adds an atheris (libFuzzer) target: octets -> (serializer, batched) -> unserialize; accepted messages must satisfy the same id/URI strictness and "
             "re-marshal.  Exhaustive per serializer: all 256 octet values substituted for and inserted before every octet of six valid messages, all truncations, containers nested up to 100000 deep.  Non-trivial = input differs from a valid message in exactly one slot or bytes decode to a list; "
             "distinct by (class, slot, junk value, base digest). Every dictionary of every message (options / details, kwargs, roles, a role, its features, authextra, forward_for entries) additionally gets one key of a non-string type (int, +-2^20000, bytes, float, None, bool, tuple): options, details and kwargs with such a key must be rejected, nothing but a protocol error may be raised.  Session ids nested in options / details (caller, callee, publisher, resume-session, elements of exclude / eligible, forward_for sessions) outside 0..2^53 must not be accepted."),
    "assumptions": [
        "types of args/kwargs contents and unknown option keys are outside the statement (only accept-or-ProtocolError is required there)",
        "CBOR is used as carrier for structured mutations because it can represent every junk type (bytes, int keys)",
    ],
}

TWO53 = 9007199254740992
HUGE = 1 << 20000       # a CBOR bignum of 2.5 kB; too long for Python's default int -> str conversion (4300 digits)
JUNK = [None, True, False, 0, 1, -1, TWO53, TWO53 + 1, -TWO53 - 1, HUGE, -HUGE, 1.5, "", "a", "a.b", "a..b", ".a", "a.", "a.b\n", "a b", "a.#", "A.b", "é.b", "\n",
        b"", b"x", b"\xff\xfe", [], [1], ["a"], [None], [[]], [{}], {}, {"a": 1}, {1: 2}, {"a": {"b": []}},
        [{"session": 1, "authid": "a", "authrole": "r"}], [{"session": "x", "authid": "a", "authrole": "r"}], [{"session": 1, "authid": 2, "authrole": "r"}],
        [{"session": 1}], [1, {"session": 1, "authid": "a", "authrole": "r"}], "exact", "prefix", "kill", "cryptobox", "json",
        [TWO53 + 1], [5, -1], [HUGE], [{"session": -1, "authid": "a", "authrole": "r"}], [{"session": 1, "authid": "a", "authrole": "r"}, {"session": TWO53 + 1, "authid": "a", "authrole": "r"}]]

KEY_JUNK = [5, HUGE, -HUGE, b"k", 1.5, None, True, (1, 2)]     # non-string dictionary keys (all hashable; CBOR carries each of them)

ID_OPTS = {"caller", "callee", "publisher", "resume-session"}      # options / details whose value is a session id
ID_ATTRS = {"request", "session", "subscription", "publication", "registration"}
URI_ATTRS = {"topic", "procedure", "error", "reason"}   # realm has its own (looser) rules in HELLO
KNOWN_OPTS = {
    "Hello": ["roles", "authmethods", "authid", "authrole", "authextra", "resumable", "resume-session", "resume-token"],
    "Welcome": ["roles", "realm", "authid", "authrole", "authmethod", "authprovider", "authextra", "resumed", "resumable", "resume_token"],
    "Abort": ["message"], "Goodbye": ["message", "resumable"], "Challenge": [], "Authenticate": [],
    "Error": ["callee", "callee_authid", "callee_authrole", "forward_for", "enc_algo", "enc_key", "enc_serializer"],
    "Publish": ["acknowledge", "exclude_me", "exclude", "exclude_authid", "exclude_authrole", "eligible", "eligible_authid", "eligible_authrole", "retain",
                "transaction_hash", "forward_for", "enc_algo", "enc_key", "enc_serializer"],
    "Published": [], "Subscribe": ["match", "get_retained", "forward_for"], "Subscribed": [], "Unsubscribe": ["forward_for"],
    "Unsubscribed": ["subscription", "reason"],
    "Event": ["publisher", "publisher_authid", "publisher_authrole", "topic", "retained", "transaction_hash", "x_acknowledged_delivery", "forward_for",
              "enc_algo", "enc_key", "enc_serializer"],
    "EventReceived": [],
    "Call": ["timeout", "receive_progress", "transaction_hash", "caller", "caller_authid", "caller_authrole", "forward_for", "enc_algo", "enc_key", "enc_serializer"],
    "Cancel": ["mode", "forward_for"],
    "Result": ["progress", "callee", "callee_authid", "callee_authrole", "forward_for", "enc_algo", "enc_key", "enc_serializer"],
    "Register": ["match", "invoke", "concurrency", "force_reregister", "forward_for"], "Registered": [], "Unregister": ["forward_for"],
    "Unregistered": ["registration", "reason"],
    "Invocation": ["timeout", "receive_progress", "caller", "caller_authid", "caller_authrole", "procedure", "transaction_hash", "forward_for",
                   "enc_algo", "enc_key", "enc_serializer"],
    "Interrupt": ["mode", "reason", "forward_for"],
    "Yield": ["progress", "callee", "callee_authid", "callee_authrole", "forward_for", "enc_algo", "enc_key", "enc_serializer"],
}
# wire type of each known option/detail (python types after deserialization)
OPT_TYPES = {
    bool: ["acknowledge", "exclude_me", "retain", "receive_progress", "progress", "resumable", "resumed", "get_retained", "force_reregister",
           "x_acknowledged_delivery", "retained"],
    int: ["timeout", "caller", "callee", "publisher", "concurrency", "resume-session", "subscription", "registration"],
    str: ["enc_algo", "enc_key", "enc_serializer", "transaction_hash", "caller_authid", "caller_authrole", "callee_authid", "callee_authrole",
          "publisher_authid", "publisher_authrole", "topic", "procedure", "match", "invoke", "mode", "reason", "message", "authid", "authrole", "authmethod",
          "authprovider", "resume-token", "resume_token", "realm"],
    list: ["exclude", "exclude_authid", "exclude_authrole", "eligible", "eligible_authid", "eligible_authrole", "forward_for", "authmethods"],
    dict: ["authextra", "roles"],
}
LEN_RANGE = {"Hello": (3, 3), "Welcome": (3, 3), "Abort": (3, 3), "Challenge": (3, 3), "Authenticate": (3, 3), "Goodbye": (3, 3), "Error": (5, 7),
             "Publish": (4, 6), "Published": (3, 3), "Subscribe": (4, 4), "Subscribed": (3, 3), "Unsubscribe": (3, 4), "Unsubscribed": (2, 3),
             "Event": (4, 6), "EventReceived": (2, 2), "Call": (4, 6), "Cancel": (3, 3), "Result": (3, 5), "Register": (4, 4), "Registered": (3, 3),
             "Unregister": (3, 4), "Unregistered": (2, 3), "Invocation": (4, 6), "Interrupt": (3, 3), "Yield": (3, 5)}
OPT_TYPE = {k: t for t, ks in OPT_TYPES.items() for k in ks}
ATTR_OF_KEY = {"resume-session": "resume_session", "resume-token": "resume_token"}


def plan(tier, seed):
    jobs = []
    n = 30 if tier == "quick" else 300
    names = sorted(KNOWN_OPTS)
    groups = [names[i::8] for i in range(8)]
    for i, g in enumerate(groups):
        jobs.append({"func": "structured", "name": "structured/%d" % i, "args": {"seed": seed * 1000 + i, "n": n, "classes": g}})
    jobs.append({"func": "uris", "name": "uris", "args": {"seed": seed * 1000 + 50, "n": 400 if tier == "quick" else 6000}})
    for i, ser in enumerate(["json", "msgpack", "cbor", "ubjson"]):
        jobs.append({"func": "octets", "name": "octets/" + ser, "args": {"seed": seed * 1000 + 60 + i, "n": 600 if tier == "quick" else 10000, "ser": ser}})
        jobs.append({"func": "octets_exhaustive", "name": "octets_exhaustive/" + ser, "args": {"ser": ser}})
    if tier == "thorough":
        for sh in range(4):
            jobs.append({"func": "fuzz", "name": "fuzz/octets/%d" % sh, "args": {"target": "octets", "runs": 150000, "seed": seed * 1000 + 700 + sh}, "timeout": 3000})
    return jobs


def allowed_exc():
    from autobahn.wamp.exception import ProtocolError, InvalidUriError
    return (ProtocolError, InvalidUriError)


_COMP = re.compile(r"[^\s\.#]+")


def uri_ok(value, allow_empty=False, allow_last_empty=False):
    if type(value) != str:
        return False
    comps = value.split(".")
    for i, c in enumerate(comps):
        if c == "":
            if allow_empty or (allow_last_empty and i == len(comps) - 1 and len(comps) > 1) or (allow_last_empty and value == ""):
                continue
            return False
        if not _COMP.fullmatch(c):
            return False
    return True


def jtype(v):
    return type(v).__name__


class Ctx:
    def __init__(self):
        from autobahn.wamp import serializer, message
        import cbor2
        self.cbor2 = cbor2
        self.ser = serializer.CBORSerializer()
        self.map = serializer.Serializer.MESSAGE_TYPE_MAP
        self.message = message
        self.allowed = allowed_exc()


def parse_both(ctx, w, key, case):
    """run the list through Serializer.unserialize (CBOR carrier) and Klass.parse; return message or None (rejected)"""
    results = []
    for how in ("serializer", "parse"):
        try:
            if how == "serializer":
                try:
                    data = ctx.cbor2.dumps(w)
                except Exception:
                    continue
                msgs = ctx.ser.unserialize(data)
                if len(msgs) != 1:
                    raise Violation(key + "|count", "unserialize returned %d messages" % len(msgs), case)
                results.append(msgs[0])
            else:
                klass = ctx.map.get(w[0]) if (w and type(w[0]) == int) else None
                if klass is None:
                    continue
                results.append(klass.parse(w))
        except Violation:
            raise
        except ctx.allowed:
            results.append(None)
        except BaseException as e:
            raise Violation("%s|%s" % (key, exc_key(e)), "%s path raised %s: %r on %r" % (how, type(e).__name__, e, brief(w)), case)
    if len(results) == 2 and (results[0] is None) != (results[1] is None):
        raise Violation(key + "|paths-disagree", "Serializer.unserialize and parse() disagree on acceptance of %r" % (brief(w),), case)
    return results[-1] if results else None


def strictness(ctx, msg, cname, key, case, w):
    from harness import wampwire as W
    attrs = W.public_attrs(msg)
    for a in ID_ATTRS & set(attrs):
        v = attrs[a]
        if v is None:
            continue
        if type(v) != int or v < 0 or v > TWO53:
            raise Violation(key + "|bad-id-accepted", "%s.%s = %r accepted from %r" % (cname, a, brief(v), brief(w)), case)
    for a in URI_ATTRS & set(attrs):
        v = attrs[a]
        if v is None:
            continue
        match = attrs.get("match")
        ae = cname == "Subscribe" or (cname == "Register" and match == "wildcard")
        al = cname == "Register" and match == "prefix"
        if not uri_ok(v, ae, al):
            raise Violation("C08|%s|bad-uri-accepted|%s" % (cname, a), "%s.%s = %r accepted (match=%r)" % (cname, a, v, match), case)
    if cname == "Hello" and attrs.get("realm") is not None and not uri_ok(attrs["realm"]):
        raise Violation("C08|Hello|bad-uri-accepted|realm", "realm %r accepted" % (attrs["realm"],), case)


def fixed_point(ctx, msg, key, case, reparse=False):
    """an accepted message must re-marshal without error; for valid (unmutated) inputs the
    re-marshalled form must parse back to the same marshalled form (fixed point)"""
    from harness import wampwire as W
    try:
        m1 = msg.marshal()
    except BaseException as e:
        raise Violation("%s|remarshal|%s" % (key, exc_key(e)), "accepted message cannot be re-marshalled: %r" % (e,), case)
    if reparse:
        try:
            m2 = type(msg).parse(m1).marshal()
        except BaseException as e:
            raise Violation("%s|reparse|%s" % (key, exc_key(e)), "marshal() of an accepted valid message is rejected: %r" % (e,), case)
        if not W.deep_eq(W.norm(m1), W.norm(m2)):
            raise Violation(key + "|remarshal-differs", "marshal(parse(marshal(x))) != marshal(x): %r vs %r" % (brief(m1), brief(m2)), case)
    return m1


def mutate_and_check(ctx, col, cname, base, basedig):
    from harness import wampwire as W
    n_mut = 0

    def note(slot, junk, accepted):
        col.case(True, dig=[cname, slot, repr(brief(junk)), basedig], cls=["%s/%s" % (cname, "accepted" if accepted else "rejected"), "junk:" + jtype(junk)])

    # the unmutated base must be accepted and faithful
    case0 = {"check": "structured", "cls": cname, "w": base, "slot": "base"}
    msg = parse_both(ctx, base, "C08|%s|base" % cname, case0)
    if msg is None:
        raise Violation("C08|%s|valid-message-rejected" % cname, "marshal() output rejected: %r" % (brief(base),), case0)
    m1 = fixed_point(ctx, msg, "C08|%s|base" % cname, case0, reparse=True)
    if not W.deep_eq(_strip(W.norm(m1)), _strip(W.norm(base))):
        raise Violation("C08|%s|base-remarshal-differs" % cname, "%r vs %r" % (brief(m1), brief(base)), case0)
    col.case(False, cls=cname + "/base")

    # element count: every length from 1 to max+2 (padding with admissible trailing elements)
    lo, hi = LEN_RANGE[cname]
    pads = [[], {}, [], {}]
    variants = [base[:k] for k in range(1, len(base))]
    for extra in range(1, hi - len(base) + 3):
        variants.append(base + pads[:extra])
    variants += [base + [junk] for junk in (None, "x", 0)]
    for w in variants:
        case = {"check": "structured", "cls": cname, "w": w, "slot": "count:%d" % len(w)}
        key = "C08|%s|count" % cname
        m = parse_both(ctx, w, key, case)
        if m is not None:
            if not (lo <= len(w) <= hi):
                raise Violation("C08|%s|wrong-element-count-accepted" % cname, "%d elements accepted (allowed %d..%d): %r" % (len(w), lo, hi, brief(w)), case)
            ppos = PAYLOAD_POS.get(cname)
            if ppos is not None and len(w) > ppos + 1 and type(w[ppos]) == bytes:
                # payload-transparency form: the opaque payload is the last element, nothing may follow it
                raise Violation("C08|%s|wrong-element-count-accepted|payload-mode" % cname, "%d elements accepted although element %d is an opaque payload (must be the last): %r" % (len(w), ppos, brief(w)), case)
            strictness(ctx, m, cname, key, case, w)
            fixed_point(ctx, m, key, case)
        note("count:%d" % len(w), len(w), m is not None)
    # type code
    for code in (True, False, None, "1", 1.0, -1, 0, 7, 9, 51, 2 ** 31, HUGE, -HUGE, [base[0]], b"\x01"):
        w = [code] + base[1:]
        case = {"check": "structured", "cls": cname, "w": w, "slot": "typecode"}
        m = parse_both(ctx, w, "C08|typecode", case)
        if m is not None and not (type(code) == int and code in ctx.map):
            raise Violation("C08|typecode|unknown-code-accepted", "type code %r accepted as %s" % (brief(code), type(m).__name__), case)
        note("typecode", code, m is not None)

    # positions
    optpos = min([i for i in range(1, len(base)) if isinstance(base[i], dict)] or [-1])      # Options / Details precede the payload in every class
    for pos in range(1, len(base)):
        for junk in JUNK:
            w = list(base)
            w[pos] = junk
            slot = "pos%d" % pos
            key = "C08|%s|%s|junk:%s" % (cname, slot, jtype(junk))
            case = {"check": "structured", "cls": cname, "w": w, "slot": slot}
            m = parse_both(ctx, w, key, case)
            if m is not None:
                strictness(ctx, m, cname, key, case, w)
                m1 = fixed_point(ctx, m, key, case)
                # faithfulness at the mutated slot (payload positions excluded: contents are don't-care, absent==empty)
                if pos < len(m1) and not isinstance(base[pos], (list, dict)) and not isinstance(junk, (list, dict)):
                    if not W.deep_eq(m1[pos], junk) and not (isinstance(junk, (bytes, str)) and isinstance(base[-1], (bytes,)) and pos == len(base) - 1):
                        raise Violation(key + "|slot-altered", "input slot %d = %r, re-marshalled %r" % (pos, brief(junk), brief(m1[pos])), case)
            note(slot, junk, m is not None)
            n_mut += 1
        # option / detail keys
        if isinstance(base[pos], dict):
            keys = list(base[pos].keys()) + [k for k in KNOWN_OPTS[cname] if k not in base[pos]]
            for k in keys:
                for junk in JUNK:
                    w = list(base)
                    d = dict(base[pos])
                    d[k] = junk
                    w[pos] = d
                    slot = "opt:%s" % k
                    key = "C08|%s|%s|junk:%s" % (cname, slot, jtype(junk))
                    case = {"check": "structured", "cls": cname, "w": w, "slot": slot}
                    m = parse_both(ctx, w, key, case)
                    if m is not None:
                        strictness(ctx, m, cname, key, case, w)
                        m1 = fixed_point(ctx, m, key, case)
                        # black-/whitelists: an accepted list value (the empty list included: "nobody") must survive re-marshalling
                        if k in W.STRICT_LISTS and k in KNOWN_OPTS[cname] and isinstance(junk, list) and pos < len(m1) and isinstance(m1[pos], dict):
                            if k not in m1[pos] or not W.deep_eq(W.norm(m1[pos][k]), W.norm(junk)):
                                raise Violation("C08|%s|%s|accepted-option-lost-on-remarshal" % (cname, slot), "input %s=%r, re-marshalled options %r" % (k, brief(junk), brief(m1[pos])), case)
                        # session ids inside options / details (caller, callee, publisher, resume-session, the elements of exclude / eligible, the
                        # session of every forward_for hop) are WAMP ids like any other: nothing outside 0..2^53 is accepted
                        if k in KNOWN_OPTS[cname] and pos == optpos and _read_in_this_form(cname, k, w):
                            bad_id = None
                            if k in ID_OPTS and type(junk) == int and not (0 <= junk <= TWO53):
                                bad_id = junk
                            elif k in ("exclude", "eligible") and isinstance(junk, list):
                                bad_id = next((x for x in junk if type(x) == int and not (0 <= x <= TWO53)), None)
                            elif k == "forward_for" and isinstance(junk, list):
                                bad_id = next((x.get("session") for x in junk if isinstance(x, dict) and type(x.get("session")) == int and not (0 <= x["session"] <= TWO53)), None)
                            if bad_id is not None:
                                raise Violation("C08|%s|%s|id-out-of-range-accepted" % (cname, slot), "message accepted with %s carrying the session id %r (ids are 0..2^53)" % (k, brief(bad_id)), case)
                        if k in OPT_TYPE and k in KNOWN_OPTS[cname]:
                            attr = ATTR_OF_KEY.get(k, k)
                            attrs = W.public_attrs(m)
                            if attr in attrs and junk is not None and type(junk) != OPT_TYPE[k] and W.deep_eq(attrs[attr], junk) and not _allowed_alt(cname, k, junk):
                                raise Violation("C08|%s|%s|wrong-type-accepted" % (cname, slot), "option %s=%r (%s) retained in accepted message, expected wire type %s" % (
                                    k, brief(junk), jtype(junk), OPT_TYPE[k].__name__), case)
                            # ... and a message carrying a wrongly typed known option is not accepted with the value silently dropped either
                            if junk is not None and type(junk) != OPT_TYPE[k] and not _allowed_alt(cname, k, junk) and _read_in_this_form(cname, k, w) and pos == optpos:
                                raise Violation("C08|%s|%s|wrong-type-accepted|dropped" % (cname, slot), "message with option %s=%r (%s, expected wire type %s) was accepted; parsed attribute %r" % (
                                    k, brief(junk), jtype(junk), OPT_TYPE[k].__name__, brief(attrs.get(attr, "<no attribute>"))), case)
                    note(slot, junk, m is not None)
                    n_mut += 1
    # dictionary *keys*: binary serializers carry keys of any type; every dictionary of the message (options / details, kwargs, and the dictionaries nested
    # in them: roles, a role, its features, authextra, forward_for entries) gets one extra key of a non-string type.  Options, details and kwargs with
    # a non-string key are wrongly typed: the message must be rejected - with a protocol error, never another exception (a bignum key must not
    # blow up the error text either); dictionaries the library does not look into (authextra, application payload values) may keep it
    def dict_paths(node, path=()):
        if isinstance(node, dict):
            yield path
            for k, v in node.items():
                if isinstance(k, str):
                    yield from dict_paths(v, path + (k,))
        elif isinstance(node, list):
            for i_, v in enumerate(node):
                yield from dict_paths(v, path + (i_,))

    def with_key(node, path, newkey):
        if not path:
            d = dict(node)
            d[newkey] = 1
            return d
        c_ = list(node) if isinstance(node, list) else dict(node)
        c_[path[0]] = with_key(node[path[0]], path[1:], newkey)
        return c_
    kwargs_pos = PAYLOAD_POS.get(cname)
    for pos in range(1, len(base)):
        for path in dict_paths(base[pos]):
            for junk in KEY_JUNK:
                w = list(base)
                w[pos] = with_key(base[pos], path, junk)
                slot = "key@%d%s" % (pos, "".join("/%s" % (x,) for x in path))
                key = "C08|%s|dict-key|junk:%s" % (cname, jtype(junk))
                case = {"check": "structured", "cls": cname, "w": w, "slot": slot}
                m = parse_both(ctx, w, key, case)
                top = not path
                if m is not None and top and (pos == optpos or (kwargs_pos is not None and pos == kwargs_pos + 1)):
                    raise Violation("C08|%s|non-string-key-accepted|%s" % (cname, "options" if pos == optpos else "kwargs"),
                                    "%s with key %r (%s) accepted" % (slot, brief(junk), jtype(junk)), case)
                if m is not None:
                    fixed_point(ctx, m, key, case)
                note(slot, junk, m is not None)
                n_mut += 1
    # role announcements (HELLO / WELCOME): every feature of every admissible role is a boolean per the WAMP spec; any other type, and feature names
    # that collide with nothing in the spec, are untrusted input too
    if cname in ("Hello", "Welcome"):
        pos = 2
        roles_ok = ["subscriber", "publisher", "caller", "callee"] if cname == "Hello" else ["broker", "dealer"]
        for role in roles_ok:
            for feat in ROLE_FEATURES[role] + ["self", "kwargs", "x_unknown_feature", ""]:
                for junk in JUNK:
                    d = dict(base[pos])
                    roles = dict(d.get("roles") or {})
                    rd = dict(roles.get(role) or {})
                    feats = dict(rd.get("features") or {})
                    feats[feat] = junk
                    rd["features"] = feats
                    roles[role] = rd
                    d["roles"] = roles
                    w = list(base)
                    w[pos] = d
                    slot = "role:%s.%s" % (role, feat)
                    key = "C08|%s|%s|junk:%s" % (cname, slot, jtype(junk))
                    case = {"check": "structured", "cls": cname, "w": w, "slot": slot}
                    m = parse_both(ctx, w, key, case)
                    if m is not None:
                        fixed_point(ctx, m, key, case)
                        if feat in ROLE_FEATURES[role] and junk is not None and type(junk) != bool:
                            raise Violation("C08|%s|%s|wrong-type-accepted" % (cname, slot), "role feature %s.%s=%r (%s) accepted, the WAMP spec types it as a boolean" % (role, feat, brief(junk), jtype(junk)), case)
                    note(slot, junk, m is not None)
                    n_mut += 1
    return n_mut


# advanced-profile feature names per role (WAMP spec, "feature announcement"); all are booleans
ROLE_FEATURES = {
    "publisher": ["publisher_identification", "subscriber_blackwhite_listing", "publisher_exclusion", "payload_transparency", "payload_encryption_cryptobox", "x_acknowledged_event_delivery"],
    "subscriber": ["publisher_identification", "pattern_based_subscription", "subscription_revocation", "payload_transparency", "payload_encryption_cryptobox"],
    "caller": ["caller_identification", "call_timeout", "call_canceling", "progressive_call_results", "payload_transparency", "payload_encryption_cryptobox"],
    "callee": ["caller_identification", "call_trustlevels", "pattern_based_registration", "shared_registration", "call_timeout", "call_canceling", "progressive_call_results",
               "registration_revocation", "payload_transparency", "payload_encryption_cryptobox"],
    "broker": ["publisher_identification", "publication_trustlevels", "pattern_based_subscription", "subscription_meta_api", "subscriber_blackwhite_listing", "session_meta_api",
               "publisher_exclusion", "subscription_revocation", "event_retention", "payload_transparency", "payload_encryption_cryptobox", "x_acknowledged_event_delivery"],
    "dealer": ["caller_identification", "call_trustlevels", "pattern_based_registration", "registration_meta_api", "shared_registration", "call_timeout", "call_canceling",
               "progressive_call_results", "registration_revocation", "session_meta_api", "testament_meta_api", "payload_transparency", "payload_encryption_cryptobox"],
}


# position of args / of the opaque payload (payload-transparency form) in the wire list
PAYLOAD_POS = {"Error": 5, "Publish": 4, "Event": 4, "Call": 4, "Result": 3, "Invocation": 4, "Yield": 3}


def _allowed_alt(cname, k, junk):
    return False


def _read_in_this_form(cname, k, w):
    """enc_* options are only read (and typed) when the message is in payload-transparency form (opaque bytes at the payload position)"""
    if k in ("enc_algo", "enc_key", "enc_serializer"):
        ppos = PAYLOAD_POS.get(cname)
        return ppos is not None and len(w) > ppos and type(w[ppos]) == bytes
    return True


def _strip(l):
    l = list(l)
    while len(l) > 3 and l[-1] in ([], {}, None):
        l.pop()
    return l


def structured(col, seed, n, classes):
    from hypothesis import strategies as st
    from harness import wampwire as W
    S = W.message_strategies()
    ctx = Ctx()
    for cname in classes:
        def body(t, cname=cname):
            nm, kw = t
            base = W.build(nm, kw).marshal()
            base = [list(x) if isinstance(x, tuple) else x for x in base]
            mutate_and_check(ctx, col, cname, base, digest(W.norm(base)))
        run_hypothesis(col, "structured", S[cname], body, n, seed, shrink=True)


def uris(col, seed, n):
    from hypothesis import strategies as st
    ctx = Ctx()
    alphabet = ["a", "A", ".", "#", " ", "\n", "\t", "é", "_", "0", " ", " ", "-"]
    s = st.lists(st.sampled_from(alphabet), max_size=9).map("".join)
    templates = [("Publish", lambda u: [16, 1, {}, u], "topic"), ("Subscribe", lambda u: [32, 1, {}, u], "topic"),
                 ("Subscribe", lambda u: [32, 1, {"match": "wildcard"}, u], "topic"), ("Subscribe", lambda u: [32, 1, {"match": "prefix"}, u], "topic"),
                 ("Call", lambda u: [48, 1, {}, u], "procedure"), ("Register", lambda u: [64, 1, {}, u], "procedure"),
                 ("Register", lambda u: [64, 1, {"match": "prefix"}, u], "procedure"), ("Register", lambda u: [64, 1, {"match": "wildcard"}, u], "procedure"),
                 ("Error", lambda u: [8, 48, 1, {}, u], "error"), ("Abort", lambda u: [3, {}, u], "reason"), ("Goodbye", lambda u: [6, {}, u], "reason"),
                 ("Interrupt", lambda u: [69, 1, {"reason": u}], "reason"), ("Unsubscribed", lambda u: [35, 1, {"reason": u}], "reason"),
                 ("Unregistered", lambda u: [67, 1, {"reason": u}], "reason"), ("Event", lambda u: [36, 1, 2, {"topic": u}], "topic"),
                 ("Invocation", lambda u: [68, 1, 2, {"procedure": u}], "procedure"), ("Hello", lambda u: [1, u, {"roles": {"caller": {}}}], "realm")]

    def body(u):
        for cname, mk, attr in templates:
            w = mk(u)
            key = "C08|%s|uri:%s" % (cname, attr)
            case = {"check": "uri", "cls": cname, "w": w, "slot": attr}
            m = parse_both(ctx, w, key, case)
            if m is not None:
                strictness(ctx, m, cname, key, case, w)
            col.case(True, dig=[cname, attr, u, w[2] if isinstance(w[2], dict) else 0], cls=["uri/%s/%s" % (cname, "accepted" if m is not None else "rejected")],
                     sample={"class": cname, "uri": u})
    run_hypothesis(col, "uri", s, body, n, seed)


def octets(col, seed, n, ser):
    from hypothesis import strategies as st
    from harness import wampwire as W
    from checks.c03_wamp_roundtrip import make_serializer
    allowed = allowed_exc()
    S = W.message_strategies()
    names = sorted(S)
    sers = {b: make_serializer(ser, b) for b in (False, True)}
    valid = st.sampled_from(names).flatmap(lambda nm: S[nm])

    @st.composite
    def strat(draw):
        batched = draw(st.booleans())
        mode = draw(st.sampled_from(["random", "flip", "truncate", "splice", "flip", "insert"]))
        if mode == "random":
            return {"batched": batched, "mode": mode, "data": draw(st.binary(max_size=64))}
        nm, kw = draw(valid)
        data = sers[batched].serialize(W.build(nm, kw))[0]
        if mode == "flip":
            k = draw(st.integers(0, max(0, len(data) - 1)))
            data = data[:k] + bytes([data[k] ^ draw(st.integers(1, 255))]) + data[k + 1:] if data else data
        elif mode == "truncate":
            data = data[:draw(st.integers(0, len(data)))]
        elif mode == "insert":
            k = draw(st.integers(0, len(data)))
            data = data[:k] + draw(st.binary(min_size=1, max_size=4)) + data[k:]
        else:
            nm2, kw2 = draw(valid)
            d2 = sers[batched].serialize(W.build(nm2, kw2))[0]
            data = data[:draw(st.integers(0, len(data)))] + d2[draw(st.integers(0, len(d2))):]
        return {"batched": batched, "mode": mode, "data": data, "cls": nm}

    def body(c):
        case = dict(c, check="octets", ser=ser)
        try:
            msgs = sers[c["batched"]].unserialize(c["data"])
            ok = True
            for m in msgs:
                if not isinstance(m, ctx_msg_base()):
                    raise Violation("C08|octets|%s|non-message-returned" % ser, repr(type(m)), case)
        except Violation:
            raise
        except allowed:
            ok = False
        except BaseException as e:
            raise Violation("C08|octets|%s|%s" % (ser, exc_key(e)), "%s: %r on %d bytes %r" % (type(e).__name__, e, len(c["data"]), c["data"][:60]), case)
        col.case(ok or c["mode"] != "random", dig=[ser, c["batched"], c["data"]], cls=["octets/%s/%s/%s" % (ser, c["mode"], "accepted" if ok else "rejected")],
                 sample={"mode": c["mode"], "data": c["data"][:40]})
    run_hypothesis(col, "octets", strat(), body, n, seed)


def octets_exhaustive(col, ser):
    """exhaustive per serializer (plain and batched): every octet value substituted for, and inserted before, every octet of six small valid
    messages (reserved / undefined lead octets of each format at every structural position), every truncation, and deeply nested containers"""
    from autobahn.wamp import message as M
    from checks.c03_wamp_roundtrip import make_serializer
    from harness.core import guarded_blocks
    allowed = allowed_exc()
    base = ctx_msg_base()
    msgs = [M.Hello("realm1", {"subscriber": __import__("autobahn").wamp.role.RoleSubscriberFeatures()}), M.Publish(7, "com.x.t", args=[1, "a", None], kwargs={"k": [True, 2.5]}),
            M.Event(5, 6, args=[b"\x00\x01"] if ser != "json" else ["x"], publisher=9), M.Call(8, "a.b", args=[{"n": {}}]), M.Result(3, args=[[]], progress=True),
            M.Error(48, 4, "wamp.error.x", args=["why"], kwargs={"t": "v"})]
    n = 0

    def probe(sobj, data, what):
        case = {"check": "octets", "ser": ser, "batched": sobj is sers[True], "data": data}
        try:
            out = sobj.unserialize(data)
            for m in out:
                if not isinstance(m, base):
                    raise Violation("C08|octets|%s|non-message-returned" % ser, repr(type(m)), case)
            return True
        except Violation:
            raise
        except allowed:
            return False
        except BaseException as e:
            raise Violation("C08|octets|%s|%s" % (ser, exc_key(e)), "%s (%s): %r on %d octets %r" % (type(e).__name__, what, e, len(data), data[:40]), case)
    sers = {b: make_serializer(ser, b) for b in (False, True)}
    for batched in (False, True):
        sobj = sers[batched]
        work = []
        for m in msgs:
            data = sobj.serialize(m)[0]
            for i in range(len(data) + 1):
                work.append(("truncate", data[:i]))
                for v in range(256):
                    if i < len(data):
                        work.append(("substitute", data[:i] + bytes([v]) + data[i + 1:]))
                    work.append(("insert", data[:i] + bytes([v]) + data[i:]))
        openers = {"json": [b"[", b"{\"a\":"], "msgpack": [b"\x91", b"\x81\xa1a", b"\xdc\x00\x01"], "cbor": [b"\x81", b"\x9f", b"\xa1\x61a", b"\xc1"], "ubjson": [b"[", b"{i\x01a"]}[ser]
        for op in openers:
            for depth in (50, 500, 3000, 100000):
                work.append(("nesting", op * depth))
                work.append(("nesting", op * depth + b"\x01"))
        acc = 0
        for what, data in guarded_blocks(work, every=4096):
            acc += bool(probe(sobj, data, what))
            n += 1
        col.case(True, enum=True, cls=["octets-exhaustive/%s%s" % (ser, ".batched" if batched else "")], sample={"inputs": len(work), "accepted": acc})
        col.count("octets-exhaustive/inputs", len(work))
    col.exhaustive.append("C08 octets_exhaustive %s: 256 substitutions + 256 insertions at every offset of 6 messages, all truncations, nested containers to depth 100000; plain and batched (%d inputs)" % (ser, n))


def ctx_msg_base():
    from autobahn.wamp import message
    return message.Message


def replay(col, case):
    case = dec(case)
    c = case.get("case", case)
    ctx = Ctx()
    kind = c.get("check")
    if kind in ("structured", "uri"):
        w = c["w"]
        cname = c["cls"]
        key = "C08|%s|%s" % (cname, c.get("slot"))
        m = parse_both(ctx, w, key, c)
        if m is not None:
            from harness import wampwire as W
            lo, hi = LEN_RANGE[cname]
            if not (lo <= len(w) <= hi):
                raise Violation("C08|%s|wrong-element-count-accepted" % cname, repr(brief(w)), c)
            ppos = PAYLOAD_POS.get(cname)
            if ppos is not None and len(w) > ppos + 1 and type(w[ppos]) == bytes:
                raise Violation("C08|%s|wrong-element-count-accepted|payload-mode" % cname, "%d elements accepted although element %d is an opaque payload (must be the last): %r" % (len(w), ppos, brief(w)), c)
            strictness(ctx, m, cname, key, c, w)
            fixed_point(ctx, m, key, c)
            slot = str(c.get("slot", ""))
            if slot.startswith("opt:"):
                k = slot[4:]
                first = True
                for el in w:
                    if isinstance(el, dict) and k in el and k in OPT_TYPE:
                        junk = el[k]
                        attrs = W.public_attrs(m)
                        attr = ATTR_OF_KEY.get(k, k)
                        if attr in attrs and junk is not None and type(junk) != OPT_TYPE[k] and W.deep_eq(attrs[attr], junk):
                            raise Violation("C08|%s|%s|wrong-type-accepted" % (cname, slot), "option %s=%r retained" % (k, brief(junk)), c)
                        if first and k in KNOWN_OPTS[cname] and junk is not None and type(junk) != OPT_TYPE[k] and _read_in_this_form(cname, k, w):
                            raise Violation("C08|%s|%s|wrong-type-accepted|dropped" % (cname, slot), "message with option %s=%r was accepted" % (k, brief(junk)), c)
                    if isinstance(el, dict):
                        first = False
    elif kind == "fuzz-octets":
        _fuzz_octets_make(col)(bytes([["json", "msgpack", "cbor", "ubjson"].index(c["ser"]) | (4 if c["batched"] else 0)]) + c["data"])
    elif kind == "octets":
        from checks.c03_wamp_roundtrip import make_serializer
        allowed = allowed_exc()
        try:
            make_serializer(c["ser"], c["batched"]).unserialize(c["data"])
        except allowed:
            pass
        except BaseException as e:
            raise Violation("C08|octets|%s|%s" % (c["ser"], exc_key(e)), repr(e), c)
    col.case()


# ---------------------------------------------------------------- coverage-guided second opinion (atheris, thorough tier)

def _fuzz_octets_make(col):
    """bytes -> (serializer, batched) from the first octet, the rest is fed to Serializer.unserialize.  Oracle: messages or ProtocolError,
    nothing else; every accepted message satisfies the id/URI strictness rules and can be marshalled again."""
    from checks.c03_wamp_roundtrip import make_serializer
    allowed = allowed_exc()
    ctx = Ctx()
    names = ["json", "msgpack", "cbor", "ubjson"]
    sers = {(n, b): make_serializer(n, b) for n in names for b in (False, True)}
    base = ctx_msg_base()

    def one(data):
        if not data:
            return
        ser, batched = names[data[0] & 3], bool(data[0] & 4)
        body = data[1:]
        case = {"check": "fuzz-octets", "ser": ser, "batched": batched, "data": body}
        try:
            msgs = sers[(ser, batched)].unserialize(body)
        except allowed:
            col.case(False, cls="fuzz-octets/%s/rejected" % ser)
            return
        except BaseException as e:
            raise Violation("C08|octets|%s|%s" % (ser, exc_key(e)), "%s: %r on %d bytes %r" % (type(e).__name__, e, len(body), body[:60]), case)
        for m in msgs:
            if not isinstance(m, base):
                raise Violation("C08|octets|%s|non-message-returned" % ser, repr(type(m)), case)
            cname = type(m).__name__
            strictness(ctx, m, cname, "C08|%s|fuzz" % cname, case, None)
            fixed_point(ctx, m, "C08|%s|fuzz" % cname, case)
        col.case(bool(msgs), dig=[ser, batched, body], cls=["fuzz-octets/%s/accepted" % ser] + ["fuzz-octets/accepted/" + type(m).__name__ for m in msgs[:3]],
                 sample={"ser": ser, "batched": batched, "data": body[:48]})
    return one


def _fuzz_octets_seeds():
    from hypothesis import strategies as st
    from harness import wampwire as W
    from checks.c03_wamp_roundtrip import make_serializer
    out = []
    names = ["json", "msgpack", "cbor", "ubjson"]
    S = W.message_strategies()
    import hypothesis
    for i, n in enumerate(names):
        for b in (False, True):
            ser = make_serializer(n, b)
            for cname in sorted(S):
                ex = hypothesis.find(S[cname], lambda x: True, settings=hypothesis.settings(database=None, max_examples=1, phases=[hypothesis.Phase.generate]))
                out.append(bytes([i | (4 if b else 0)]) + ser.serialize(W.build(*ex))[0])
    return out


FUZZ = {"octets": {"make": _fuzz_octets_make, "seeds": _fuzz_octets_seeds, "imports": ["autobahn.wamp.message", "autobahn.wamp.serializer"]}}


def fuzz(col, target, runs, seed, max_len=2048):
    from harness import fuzzjob
    fuzzjob.run(col, "c08_wamp_parse", target, runs, seed, max_len)
