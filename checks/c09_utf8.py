"""C09 - UTF-8 validation equals RFC 3629, incrementally, in both implementations."""
import itertools
import os

from harness.core import Violation, HarnessError, run_hypothesis, dec
from harness.ref6455 import utf8_prefix_state, utf8_profile

DESCRIPTION = {
    "level": "exploration",
    "rule": ("Exhaustive: from each of 11 canonical prefixes (reaching every DFA state) every 1- and 2-byte continuation, fed as separate chunks; "
             "every byte string of length <=2 (quick) / <=3 (thorough) one-shot and split; for every implementation selectable (pure Python; "
             "native table/unrolled/SSE2/SSE4.1 via set_impl, compiled from the tree).  Generated: Hypothesis mixtures (<=64KiB) of code points "
             "from every length class/boundary with <=1 injected ill-formed sequence (overlong, surrogate, >U+10FFFF, stray continuation, "
             "truncation, C0/C1/F5..FF) at drawn positions incl. 16-byte block edges, drawn chunkings, buffer alignments 0..15 for the native lib. "
             "Oracle: byte-range table of RFC 3629/Unicode 3-7 (cross-checked against bytes.decode) gives valid?, on-boundary?, first offending index; "
             "validate() results (valid, endsOnCodePoint, currentIndex, totalIndex) must equal it for every chunking (feeding stops at the first invalid "
             "verdict).  Every generated case also runs on two validators of one implementation fed alternately.  Non-trivial = contains a multi-byte sequence crossing a chunk boundary or an ill-formed sequence; enumerated elements count once each. Single chunks far beyond 64 KiB (140 000 / 300 000 octets) with nothing or an ill-formed sequence inserted at in-chunk offsets around 2^16, 2^17 (2^18) under five chunkings, per implementation."),
    "assumptions": [
        "behaviour after an invalid verdict without reset() is undocumented and not asserted",
        "native code compiled from the working tree's _utf8validator.c on each run; SIMD variants as enabled by the sandbox compiler",
    ],
}

PREFIXES = [b"", b"\xc2", b"\xe1", b"\xe0", b"\xed", b"\xf0", b"\xf1", b"\xf4", b"\xe1\x80", b"\xf1\x80", b"\xf1\x80\x80"]


def plan(tier, seed):
    jobs = []
    for sh in range(len(PREFIXES)):
        jobs.append({"func": "transitions", "nvx": "1", "nvxbuild": True, "name": "trans_native/%d" % sh, "args": {"pi": sh}})
    for sh in range(len(PREFIXES)):
        jobs.append({"func": "transitions", "nvx": "0", "name": "trans_pure/%d" % sh, "args": {"pi": sh, "stride": 1 if tier != "quick" else 3}})
    if tier == "quick":
        jobs.append({"func": "short_strings", "nvx": "1", "nvxbuild": True, "name": "short_native", "args": {"maxlen": 2, "shard": 0, "nshards": 1}})
        jobs.append({"func": "short_strings", "nvx": "0", "name": "short_pure", "args": {"maxlen": 2, "shard": 0, "nshards": 1}})
    else:
        for sh in range(16):
            jobs.append({"func": "short_strings", "nvx": "1", "nvxbuild": True, "name": "short3_native/%d" % sh, "args": {"maxlen": 3, "shard": sh, "nshards": 16}})
        for sh in range(16):
            jobs.append({"func": "short_strings", "nvx": "0", "name": "short3_pure/%d" % sh, "args": {"maxlen": 3, "shard": sh, "nshards": 16, "impl_stride": 1}})
    n = 500 if tier == "quick" else 5000
    for sh in range(2 if tier == "quick" else 6):
        jobs.append({"func": "generated", "nvx": "1", "nvxbuild": True, "name": "gen_native/%d" % sh, "args": {"seed": seed * 1000 + sh, "n": n}})
        jobs.append({"func": "generated", "nvx": "0", "name": "gen_pure/%d" % sh, "args": {"seed": seed * 1000 + 50 + sh, "n": max(80, n // 5)}})
    # single chunks far beyond 64 KiB, the offending octet at in-chunk offsets around 2^16 and 2^17 (index arithmetic of the native wrapper)
    jobs.append({"func": "huge_chunks", "nvx": "1", "nvxbuild": True, "name": "huge_native", "args": {"deep": tier != "quick"}})
    jobs.append({"func": "huge_chunks", "nvx": "0", "name": "huge_pure", "args": {"deep": False}})
    return jobs


# ---------------------------------------------------------------- implementations under test

class Impl:
    def __init__(self, name, new, align=None):
        self.name, self.new, self.align = name, new, align


def implementations():
    import autobahn.websocket
    out = []
    if autobahn.websocket.USES_NVX:
        import _nvx_utf8validator as m
        d = os.path.dirname(os.path.realpath(m.__file__))
        if "site-packages" in d or "/src/autobahn" in d:
            raise HarnessError("native validator is not the freshly built one: " + d)
        from autobahn.nvx._utf8validator import Utf8Validator as NV
        from autobahn.websocket.utf8validator import Utf8Validator as Exported
        if Exported is not NV:
            raise Violation("C09|impl-selection", "USES_NVX but websocket.utf8validator.Utf8Validator is not the NVX class")
        seen = {}
        for want in (1, 2, 3, 4):
            v = NV()
            got = v.lib.nvx_utf8vld_set_impl(v._vld, want)
            if got == want and want not in seen:
                seen[want] = True

                def mk(want=want):
                    v = NV()
                    v.lib.nvx_utf8vld_set_impl(v._vld, want)
                    return v
                out.append(Impl("native-impl%d" % want, mk))
        out.append(Impl("native-default", NV))
    else:
        from autobahn.websocket.utf8validator import Utf8Validator as PV
        if PV.__module__ != "autobahn.websocket.utf8validator":
            raise HarnessError("pure worker got %s" % PV.__module__)
        out.append(Impl("pure-python", PV))
    return out


def expected(data):
    ok, boundary, bad = utf8_prefix_state(data)
    return ok, (boundary if ok else False), bad


def check_chunks(impl, v, chunks, case, fresh=True):
    """feed chunks; compare every intermediate result with the reference on the bytes fed so far"""
    for _ in iter_chunks(impl, v, chunks, case, fresh):
        pass


def check_interleaved(impl, chunks, case):
    """several validators of one implementation alive at once, fed alternately (connections of one process do that): each one judges its own stream.
    The second one is created only after the first has consumed a chunk; its stream is the first one's octets shifted by one, so both are
    mid code point at different places"""
    total = b"".join(chunks)
    other = [c[1:] + c[:1] for c in chunks if c] + [b"\xe2\x82", b"\xac", b"\xf0\x9f", b"\x98\x80z"]
    a = impl.new()
    ga = iter_chunks(impl, a, chunks, dict(case, interleaved="first"), True)
    next(ga, None)
    b = impl.new()
    gb = iter_chunks(impl, b, other, dict(case, interleaved="second"), True)
    live = [ga, gb]
    while live:
        for g in list(live):
            try:
                next(g)
            except StopIteration:
                live.remove(g)


def iter_chunks(impl, v, chunks, case, fresh=True):
    if not fresh:
        v.reset()
    total = b"".join(chunks)
    if _PROFILE[0] == total:
        bad_all, flags = _PROFILE[1]
    else:
        bad_all, flags = utf8_profile(total)
        _PROFILE[0], _PROFILE[1] = total, (bad_all, flags)
    fed = 0
    for ch in chunks:
        before = fed
        fed += len(ch)
        ok = bad_all is None or bad_all >= fed
        boundary = bool(flags[fed]) if ok else False
        bad = bad_all
        res = v.validate(ch)
        if not (isinstance(res, tuple) and len(res) == 4):
            raise Violation("C09|%s|result-shape" % impl.name, "validate returned %r" % (res,), case)
        valid, on_cp, cur, tot = res
        if bool(valid) != ok:
            raise Violation("C09|%s|verdict" % impl.name, "after %d bytes %r: valid=%r, reference=%r" % (fed, total[max(0, fed - 8):fed], valid, ok), case)
        if ok:
            if bool(on_cp) != boundary:
                raise Violation("C09|%s|boundary" % impl.name, "after %d bytes %r: endsOnCodePoint=%r, reference=%r" % (fed, total[max(0, fed - 8):fed], on_cp, boundary), case)
            if cur != len(ch) or tot != fed:
                raise Violation("C09|%s|index-on-accept" % impl.name, "current=%r total=%r, expected %d/%d" % (cur, tot, len(ch), fed), case)
        else:
            if on_cp:
                raise Violation("C09|%s|boundary" % impl.name, "endsOnCodePoint true on rejection", case)
            if tot != bad or cur != bad - before:
                raise Violation("C09|%s|index-on-reject" % impl.name, "current=%r total=%r, reference offending byte at %d (chunk start %d): %r" % (cur, tot, bad, before, case), case)
            return
        yield fed


_PROFILE = [None, None]      # the reference profile of the last stream judged (the same stream is judged under several chunkings / implementations)


def selftest_reference():
    import random
    rnd = random.Random(7)
    for n in range(3000):
        s = bytes(rnd.choice([0x24, 0x80, 0xbf, 0xc2, 0xe0, 0xa0, 0xed, 0x9f, 0xf0, 0x90, 0xf4, 0x8f, 0xff]) for _ in range(rnd.randrange(0, 9)))
        bad, flags = utf8_profile(s)
        for L in range(len(s) + 1):
            ok, b, bi = utf8_prefix_state(s[:L])
            if ok != (bad is None or bad >= L) or (ok and b != bool(flags[L])) or ((not ok) and bi != bad):
                raise HarnessError("utf8_profile disagrees with utf8_prefix_state on %r at %d" % (s, L))
    for n in range(20000):
        s = bytes(rnd.choice([0x24, 0x7f, 0x80, 0xbf, 0xc0, 0xc2, 0xdf, 0xe0, 0xa0, 0x9f, 0xed, 0xef, 0xf0, 0x90, 0x8f, 0xf4, 0xf5, 0xff, rnd.randrange(256)])
                  for _ in range(rnd.randrange(0, 7)))
        ok, b, _ = expected(s)
        try:
            s.decode("utf-8")
            py = True
        except UnicodeDecodeError:
            py = False
        if (ok and b) != py:
            raise HarnessError("reference disagrees with bytes.decode on %r" % s)


# ---------------------------------------------------------------- exhaustive parts

def transitions(col, pi, stride=1):
    selftest_reference()
    prefix = PREFIXES[pi]
    for impl in implementations():
        v = impl.new()
        for b in range(256):
            case = {"check": "trans", "impl": impl.name, "prefix": prefix, "cont": bytes([b])}
            check_chunks(impl, v, [prefix, bytes([b])] if prefix else [bytes([b])], case, fresh=False)
            col.case(True, enum=True, cls="transition-1/" + impl.name, sample=case)
        for b1 in range(0, 256, stride):
            for b2 in range(256):
                cont = bytes([b1, b2])
                case = {"check": "trans", "impl": impl.name, "prefix": prefix, "cont": cont}
                # three chunkings: prefix|cont , prefix|b1|b2 , prefix+b1|b2
                k = (b1 + b2) % 3
                if k == 0:
                    chunks = [prefix, cont]
                elif k == 1:
                    chunks = [prefix, cont[:1], cont[1:]]
                else:
                    chunks = [prefix + cont[:1], cont[1:]]
                check_chunks(impl, v, [c for c in chunks if c], case, fresh=False)
                col.case(True, enum=True, cls="transition-2/" + impl.name)
    if pi == 0:
        col.exhaustive.append("validator transitions: %d prefixes (all DFA states) x all 1- and 2-byte continuations%s, per implementation" % (
            len(PREFIXES), "" if stride == 1 else " (first continuation byte stride %d for pure Python in quick tier)" % stride))


def short_strings(col, maxlen, shard, nshards, impl_stride=1):
    selftest_reference()
    impls = implementations()
    for impl in impls:
        v = impl.new()
        for n in range(0, maxlen + 1):
            if n < 3:
                if shard != 0:
                    continue
                space = itertools.product(range(256), repeat=n)
            else:
                space = ((a, b, c) for a in range(shard, 256, nshards) for b in range(256) for c in range(256))
            for t in space:
                s = bytes(t)
                case = {"check": "short", "impl": impl.name, "data": s}
                check_chunks(impl, v, [s], case, fresh=False)
                if n >= 2:
                    sp = 1 + (sum(t) % (n - 1)) if n > 2 else 1
                    check_chunks(impl, v, [s[:sp], s[sp:]], case, fresh=False)
                col.case(n >= 1, enum=True, cls="short-len%d/%s" % (n, impl.name), sample=case if n else None)
    if shard == 0:
        col.exhaustive.append("all byte strings of length <=%d, one-shot and one split, per implementation" % maxlen)


def huge_chunks(col, deep):
    """enumerated: a valid text of 140 000 (deep: 300 000) octets, nothing or an ill-formed sequence inserted at an offset around 2^16 / 2^17 (/ 2^18),
    fed as one chunk and cut at places before and after it; every result element is compared with the reference as everywhere else"""
    selftest_reference()
    impls = implementations()
    unit = "plain ascii, é€😀 and more; ".encode("utf-8")
    size = 300000 if deep else 140000
    base = (unit * (size // len(unit) + 1))[:size]
    while base and (base[-1] & 0xC0) == 0x80 or (base and base[-1] >= 0xC0):
        base = base[:-1]
    offsets = [None] + [p + d for p in ((1 << 16, 1 << 17) + ((1 << 18,) if deep else ())) for d in (-1, 0, 1)]
    n = 0
    for off in offsets:
        for inj in ((None,) if off is None else (b"\xf4\x90\x80\x80", b"\xc2\x41", b"\xff")):
            if off is None:
                data, pos = base, None
            else:
                pos = off
                while (base[pos] & 0xC0) == 0x80:       # insert at a code point boundary at or just after the wanted offset
                    pos += 1
                data = base[:pos] + inj + base[pos:]
            for cuts in ([], [70001], [65536], [3, 65539], [len(data) - 1]):
                case = {"check": "huge", "size": size, "inj": inj, "pos": pos, "cuts": cuts}
                chunks = [data[a:b] for a, b in zip([0] + cuts, cuts + [len(data)])]
                for impl in impls:
                    check_chunks(impl, impl.new(), chunks, dict(case, impl=impl.name))
                    n += 1
                    col.case(inj is not None, enum=True, cls="huge-chunk/%s/%s" % (impl.name, "ill-formed" if inj else "well-formed"),
                             sample=case if n % 7 == 0 else None)
    col.exhaustive.append("chunks beyond 64 KiB: %d offsets around 2^16/2^17%s x 3 ill-formed sequences x 5 chunkings, per implementation" % (len(offsets) - 1, "/2^18" if deep else ""))


# ---------------------------------------------------------------- generated long inputs

CP_CLASSES = [0x00, 0x24, 0x7F, 0x80, 0x7FF, 0x800, 0xFFF, 0x1000, 0xCFFF, 0xD000, 0xD7FF, 0xE000, 0xFFFD, 0xFFFF, 0x10000, 0x3FFFF, 0x40000,
              0xFFFFF, 0x100000, 0x10FFFF]
ILL = [b"\xc0\x80", b"\xc1\xbf", b"\xe0\x80\x80", b"\xe0\x9f\xbf", b"\xf0\x80\x80\x80", b"\xf0\x8f\xbf\xbf", b"\xed\xa0\x80", b"\xed\xbf\xbf",
       b"\xf4\x90\x80\x80", b"\xf5\x80\x80\x80", b"\x80", b"\xbf", b"\xc2", b"\xe1\x80", b"\xf1\x80\x80", b"\xf8\x88\x80\x80\x80", b"\xfe", b"\xff",
       b"\xc2\x41", b"\xe1\x80\x41", b"\xf1\x80\x80\x41", b"\xf4\x8f\xbf\xc0"]


def gen_strategy():
    from hypothesis import strategies as st
    cp = st.one_of(st.sampled_from(CP_CLASSES), st.integers(0, 0x7F), st.integers(0x80, 0x10FFFF).filter(lambda c: not 0xD800 <= c <= 0xDFFF))
    seg = st.one_of(st.lists(cp, min_size=1, max_size=40).map(lambda cps: "".join(map(chr, cps)).encode("utf-8")),
                    st.integers(1, 4000).map(lambda n: b"a" * n), st.integers(1, 700).map(lambda n: "é€😀".encode() * n))

    @st.composite
    def case(draw):
        segs = draw(st.lists(seg, min_size=0, max_size=8))
        data = b"".join(segs)
        inj = draw(st.one_of(st.none(), st.sampled_from(ILL), st.binary(min_size=1, max_size=4)))
        pos = None
        if inj is not None:
            # insert at a code point boundary, biased to 16-byte block edges
            cands = [i for i in range(len(data) + 1) if i == len(data) or (data[i] & 0xC0) != 0x80]
            edge = [i for i in cands if i % 16 in (0, 1, 15)]
            pos = draw(st.sampled_from(edge)) if edge and draw(st.booleans()) else draw(st.sampled_from(cands))
            data = data[:pos] + inj + data[pos:]
        mode = draw(st.sampled_from(["one", "bytes", "cuts", "cuts"]))
        cuts = sorted(draw(st.lists(st.integers(0, len(data)), max_size=8))) if mode == "cuts" else []
        return {"check": "gen", "data": data, "mode": mode, "cuts": cuts, "align": draw(st.integers(0, 15)), "inj": inj, "pos": pos}
    return case()


def chunks_of(case):
    data = case["data"]
    if case["mode"] == "one":
        return [data]
    if case["mode"] == "bytes":
        return [data[i:i + 1] for i in range(len(data))] or [b""]
    out, pos = [], 0
    for c in case["cuts"] + [len(data)]:
        out.append(data[pos:c])
        pos = c
    return out


def crossing(chunks):
    pos = 0
    total = b"".join(chunks)
    for ch in chunks[:-1]:
        pos += len(ch)
        if 0 < pos < len(total) and (total[pos] & 0xC0) == 0x80:
            return True
    return False


def check_gen(case, impls):
    chunks = chunks_of(case)
    for impl in impls:
        check_chunks(impl, impl.new(), chunks, case)
        check_interleaved(impl, chunks, case)
        if impl.name.startswith("native-impl"):
            # direct lib call at a drawn buffer alignment (one shot)
            v = impl.new()
            ffi, lib = v.ffi, v.lib
            data = case["data"]
            buf = ffi.new("uint8_t[]", len(data) + 32)
            base = buf + ((16 - int(ffi.cast("uintptr_t", buf)) % 16) % 16) + case["align"]
            ffi.memmove(base, data, len(data))
            res = lib.nvx_utf8vld_validate(v._vld, base, len(data))
            ok, boundary, bad = expected(data)
            exp = -1 if not ok else (0 if boundary else 1)
            if res != exp:
                raise Violation("C09|%s|aligned-lib-call" % impl.name, "align=%d returned %d expected %d" % (case["align"], res, exp), case)
            tot = lib.nvx_utf8vld_get_total_index(v._vld)
            if tot != (bad if not ok else len(data)):
                raise Violation("C09|%s|aligned-lib-index" % impl.name, "align=%d total_index=%d" % (case["align"], tot), case)


def generated(col, seed, n):
    selftest_reference()
    impls = implementations()

    def body(case):
        check_gen(case, impls)
        ch = chunks_of(case)
        ok = expected(case["data"])[0]
        cls = ["gen/" + ("ill-formed" if not ok else "well-formed"), "gen/mode:" + case["mode"]]
        if crossing(ch):
            cls.append("gen/codepoint-crosses-chunk")
        if len(case["data"]) >= 4096:
            cls.append("gen/len>=4KiB")
        col.case((not ok) or crossing(ch), dig=[case["data"], case["mode"], case["cuts"]], cls=cls,
                 sample={"len": len(case["data"]), "inj": case["inj"], "pos": case["pos"], "mode": case["mode"], "cuts": case["cuts"]})
    run_hypothesis(col, "gen", gen_strategy(), body, n, seed)


def replay(col, case):
    case = dec(case)
    c = case.get("case", case)
    impls = implementations()
    if c["check"] == "gen":
        check_gen(c, impls)
    elif c["check"] == "huge":
        huge_chunks(col, c.get("size", 0) > 200000)
    else:
        for impl in impls:
            if c.get("impl") in (None, impl.name):
                if c["check"] == "trans":
                    check_chunks(impl, impl.new(), [x for x in (c["prefix"], c["cont"]) if x], c)
                    check_chunks(impl, impl.new(), [x for x in (c["prefix"], c["cont"][:1], c["cont"][1:]) if x], c)
                    check_chunks(impl, impl.new(), [x for x in (c["prefix"] + c["cont"][:1], c["cont"][1:]) if x], c)
                else:
                    s = c["data"]
                    check_chunks(impl, impl.new(), [s], c)
                    for sp in range(1, len(s)):
                        check_chunks(impl, impl.new(), [s[:sp], s[sp:]], c)
    col.case()
